"""Equivalence demo for r6: FileEntry.file (smpl_extract/akai/file_entry.py).

The live `FileEntry.file` property is compared with an inline copy of the
ORIGINAL implementation.  A scripted factory hands out a sequence of results
(truthy objects, falsy objects, None, containers, objects that count their
__bool__/__len__ calls, exceptions); the same access script is replayed on a
live entry and on a reference entry and the complete logs (factory calls,
truthiness probes, returned identities, cache state, exceptions) must agree.
Finally a small end-to-end check verifies that a realistic lazy callable is
invoked exactly once and the very same object is handed out on every access.
"""
import random
import sys

from smpl_extract.akai.data_types import FileType
from smpl_extract.akai.file_entry import FileEntry


class OrigFileEntry:
    """Inline copy of the ORIGINAL class."""

    def __init__(self, name, file_type, f_file_content) -> None:
        self.name = name
        self.file_type = file_type
        self._file = None
        self._f_file_content = f_file_content

    @property
    def file(self):
        if not self._file:
            self._file = self._f_file_content()
        return self._file


class Boom(Exception):
    pass


class Probe:
    """Object whose truthiness is scripted and whose probes are logged."""

    def __init__(self, tag, truth, log, via_len=False, raise_on_bool=False):
        self.tag = tag
        self.truth = truth
        self.log = log
        self.via_len = via_len
        self.raise_on_bool = raise_on_bool

    def __repr__(self):
        return "Probe(%s)" % self.tag


class BoolProbe(Probe):
    def __bool__(self):
        self.log.append(("bool", self.tag))
        if self.raise_on_bool:
            raise Boom("bool " + self.tag)
        return self.truth


class LenProbe(Probe):
    def __len__(self):
        self.log.append(("len", self.tag))
        return 1 if self.truth else 0


def make_value(kind, tag, log):
    if kind == "obj":
        return ("obj", tag)
    if kind == "none":
        return None
    if kind == "zero":
        return 0
    if kind == "empty_list":
        return []
    if kind == "empty_str":
        return ""
    if kind == "list":
        return [tag]
    if kind == "bool_true":
        return BoolProbe(tag, True, log)
    if kind == "bool_false":
        return BoolProbe(tag, False, log)
    if kind == "len_true":
        return LenProbe(tag, True, log)
    if kind == "len_false":
        return LenProbe(tag, False, log)
    if kind == "bool_raises":
        return BoolProbe(tag, True, log, raise_on_bool=True)
    raise AssertionError(kind)


VALUE_KINDS = ["obj", "obj", "none", "zero", "empty_list", "empty_str", "list",
               "bool_true", "bool_false", "len_true", "len_false",
               "bool_raises", "raise"]


def run(cls, spec):
    log = []
    counter = {"n": 0}
    handed_out = []

    def factory():
        i = counter["n"]
        counter["n"] += 1
        kind = spec["values"][i % len(spec["values"])]
        log.append(("factory", i, kind))
        if kind == "raise":
            raise Boom("factory %d" % i)
        value = make_value(kind, "v%d" % i, log)
        handed_out.append(value)
        return value

    entry = cls(spec["name"], spec["file_type"], factory)
    log.append(("init", entry.name, entry.file_type, entry._file,
                entry._f_file_content is factory, sorted(vars(entry))))

    def ident(value):
        for idx, known in enumerate(handed_out):
            if known is value:
                return "handed_out[%d]" % idx
        return repr(value)

    for step in spec["script"]:
        if step == "get":
            try:
                got = entry.file
                log.append(("got", ident(got)))
            except Boom as e:
                log.append(("exc", str(e)))
        elif step == "clear":
            entry._file = None
            log.append(("clear",))
        elif step == "preset":
            marker = ("preset", len(handed_out))
            handed_out.append(marker)
            entry._file = marker
            log.append(("preset",))
        log.append(("cache", ident(entry._file), sorted(vars(entry))))
    return log


def make_spec(rng):
    return {
        "name": rng.choice(["A", "SAMPLE 01", ""]),
        "file_type": rng.choice(list(FileType)),
        "values": [rng.choice(VALUE_KINDS) for _ in range(rng.randint(1, 5))],
        "script": [rng.choice(["get", "get", "get", "get", "clear", "preset"])
                   for _ in range(rng.randint(1, 9))],
    }


def end_to_end():
    """Both implementations must hand out the very same object repeatedly
    when fed by a realistic lazy callable (called exactly once)."""
    problems = 0
    for cls in (FileEntry, OrigFileEntry):
        calls = []

        def lazy():
            calls.append(1)
            return {"parsed": len(calls)}

        e = cls("X", list(FileType)[0], lazy)
        first = e.file
        second = e.file
        third = e.file
        if not (first is second is third and len(calls) == 1
                and first == {"parsed": 1}):
            problems += 1
    return problems


def main():
    rng = random.Random(160006)
    specs = []
    for kind in VALUE_KINDS:
        for other in VALUE_KINDS:
            specs.append({
                "name": "N", "file_type": list(FileType)[0],
                "values": [kind, other],
                "script": ["get", "get", "get", "clear", "get", "preset",
                           "get", "get"],
            })
    for _ in range(4000):
        specs.append(make_spec(rng))

    bad = 0
    for i, spec in enumerate(specs):
        live = run(FileEntry, spec)
        ref = run(OrigFileEntry, spec)
        if live != ref:
            bad += 1
            if bad <= 5:
                print("MISMATCH in scenario", i, spec)
                for a, b in zip(live, ref):
                    if a != b:
                        print("  live:", a)
                        print("  ref :", b)
                        break
    bad += end_to_end()
    print("scenarios: %d, mismatches: %d" % (len(specs), bad))
    return 1 if bad else 0


if __name__ == "__main__":
    sys.exit(main())
