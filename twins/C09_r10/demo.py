"""Equivalence demo for r10: alcohol.mdx.is_mdx_image.

The refactoring extracts the try/except around the header parse into a private
helper (_starts_with_mdx_header) returning a bool, renames the locals and drops
the unused `as e`; tell / seek(0) / parse / seek(back) stay in is_mdx_image in
the same order.

Compared against an inline copy of the ORIGINAL: return value, exception,
ordered log of tell/seek/read calls on the shared stream, and the final
position of the stream.  Streams tried: plain BytesIO recorders, MDF sector
streams and MDX windows stacked on recorders, and streams whose n-th
tell/seek/read raises (ConstructError subclasses and foreign exceptions).
"""
import io
import random
import struct
import sys
from io import SEEK_SET

from construct.core import ConstructError
from construct.core import StreamError

from smpl_extract.alcohol import mdx
from smpl_extract.alcohol.mdf import MdfStream
from smpl_extract.alcohol.mdx import MdxHeaderConstruct
from smpl_extract.alcohol.mdx import MdxStream
from smpl_extract.alcohol.mdx import is_mdx_image


def original_is_mdx_image(stream):
    stream_head = stream.tell()
    stream.seek(0, SEEK_SET)

    result = True
    try:
        MdxHeaderConstruct.parse_stream(stream)  # type: ignore
    except ConstructError as e:  # noqa: F841
        result = False

    stream.seek(stream_head, SEEK_SET)

    return result


class Boom(Exception):
    pass


class Recorder(io.BytesIO):
    """BytesIO that logs every call; optionally fails on the n-th operation."""

    def __init__(self, data, fail_at=None, fail_with=Boom):
        super().__init__(data)
        self.log = []
        self.ops = 0
        self.fail_at = fail_at
        self.fail_with = fail_with

    def _maybe_fail(self, what, a):
        self.ops += 1
        if self.fail_at is not None and self.ops == self.fail_at:
            self.log.append((what + "-fail", a))
            raise self.fail_with("injected")

    def tell(self):
        self._maybe_fail("tell", ())
        r = super().tell()
        self.log.append(("tell", r))
        return r

    def seek(self, *a):
        self._maybe_fail("seek", a)
        r = super().seek(*a)
        self.log.append(("seek", a, r))
        return r

    def read(self, *a):
        self._maybe_fail("read", a)
        r = super().read(*a)
        self.log.append(("read", a, r))
        return r


def mdx_header(eof=64, version=b"\x02\x01", copyright_first=0xA9, magic=b"MEDIA DESCRIPTOR",
               pad=b"\xff" * 4, tail=b"\x00" * 8):
    return (magic + version + bytes([copyright_first]) + b" " * 25 + pad
            + struct.pack("<Q", eof) + tail)


def raw_sectors(payload):
    """Wrap payload into MODE1/2352 sectors."""
    out = bytearray()
    payload = payload + bytes(-len(payload) % 2048)
    for n in range(len(payload) // 2048):
        out += b"\x00" + b"\xff" * 10 + b"\x00" + n.to_bytes(3, "big") + b"\x01"
        out += payload[n * 2048:(n + 1) * 2048]
        out += bytes(288)
    return bytes(out)


def run(fn, data, start, wrap=None, fail_at=None, fail_with=Boom):
    base = Recorder(data, fail_at, fail_with)
    stream = base
    try:
        if wrap == "mdf":
            stream = MdfStream(base)
        elif wrap == "mdx":
            stream = MdxStream(base)
        elif wrap == "mdf+mdx":
            stream = MdxStream(MdfStream(base))
    except BaseException as e:  # noqa
        return ("wrap-exc", type(e).__name__), base.log, None, None
    try:
        stream.seek(start, SEEK_SET)
    except BaseException as e:  # noqa
        return ("preseek-exc", type(e).__name__), base.log, None, None
    del base.log[:]
    base.ops = 0
    try:
        out = ("ret", fn(stream))
    except BaseException as e:  # noqa
        out = ("exc", type(e).__name__, str(e))
    try:
        pos = stream.tell() if stream is not base else None
    except BaseException as e:  # noqa
        pos = ("tell-exc", type(e).__name__)
    return out, base.log, io.BytesIO.tell(base), pos


def main():
    rng = random.Random(1010)
    good = mdx_header(eof=64 + 4096) + bytes(rng.randrange(256) for _ in range(4096))
    datas = {
        "empty": b"",
        "one": b"M",
        "magic-only": b"MEDIA DESCRIPTOR",
        "short-63": mdx_header()[:63],
        "exact-64": mdx_header(),
        "good": good,
        "bad-copyright": mdx_header(copyright_first=0x20) + bytes(100),
        "bad-copyright-c": mdx_header(copyright_first=ord("c")) + bytes(100),
        "bad-magic": mdx_header(magic=b"MEDIA DESCRIPTOr") + bytes(100),
        "lower-magic": mdx_header(magic=b"media descriptor") + bytes(100),
        "other-version": mdx_header(version=b"\x09\x09") + bytes(100),
        "other-pad": mdx_header(pad=b"\x00" * 4, tail=b"\x11" * 8) + bytes(100),
        "eof-small": mdx_header(eof=3) + bytes(100),
        "eof-huge": mdx_header(eof=2 ** 64 - 1) + bytes(100),
        "zeros": bytes(5000),
        "akai-ish": bytes(rng.randrange(256) for _ in range(3000)),
        "mdf-of-good": raw_sectors(good),
        "mdf-of-junk": raw_sectors(bytes(rng.randrange(256) for _ in range(5000))),
        "mdf-of-short": raw_sectors(mdx_header()[:40]),
        "mdx-of-mdx": mdx_header(eof=64 + 64 + 10) + mdx_header(eof=64 + 10) + bytes(10),
    }
    for i in range(40):
        head = bytearray(mdx_header(eof=rng.randrange(0, 9000)))
        for _ in range(rng.choice([0, 0, 1, 2])):
            head[rng.randrange(64)] = rng.randrange(256)
        datas["rnd%d" % i] = bytes(head[:rng.choice([64, 64, 64, 50, 17])]) + bytes(rng.randrange(0, 300))

    fails = [None] + [(n, exc) for n in range(1, 12)
                      for exc in (Boom, StreamError, ConstructError, OSError, KeyboardInterrupt)]

    checked = bad = 0
    seen = set()
    for key, data in datas.items():
        for wrap in (None, "mdf", "mdx", "mdf+mdx"):
            starts = sorted({0, 1, 16, 63, 64, 65, len(data), len(data) // 2,
                             rng.randrange(0, len(data) + 10)})
            for start in starts:
                for fail in fails:
                    if fail is not None and rng.random() < 0.8:
                        continue
                    kw = {} if fail is None else {"fail_at": fail[0], "fail_with": fail[1]}
                    a = run(original_is_mdx_image, data, start, wrap, **kw)
                    b = run(is_mdx_image, data, start, wrap, **kw)
                    checked += 1
                    seen.add(a[0][:2] if a[0][0] != "ret" else a[0])
                    if a != b:
                        bad += 1
                        print("MISMATCH", key, wrap, start, fail)
                        print("  orig:", a)
                        print("  new: ", b)

    # sanity: both answers and at least one propagated foreign exception were seen
    assert ("ret", True) in seen and ("ret", False) in seen, seen
    assert ("exc", "Boom") in seen and ("exc", "OSError") in seen, seen
    # precomputed on the unmodified tree
    assert run(is_mdx_image, datas["good"], 77)[0] == ("ret", True)
    assert run(is_mdx_image, datas["good"], 77)[2] == 77
    assert run(is_mdx_image, datas["bad-copyright"], 5)[0] == ("ret", False)
    assert run(is_mdx_image, datas["mdf-of-good"], 100, "mdf")[0] == ("ret", True)
    assert run(is_mdx_image, datas["mdf-of-good"], 100)[0] == ("ret", False)
    assert hasattr(mdx, "is_mdx_image")

    print("checked", checked, "mismatches", bad, "outcomes", sorted(map(str, seen)))
    return 1 if bad else 0


if __name__ == "__main__":
    sys.exit(main())
