"""Equivalence demo for _fast_akai_to_ascii / _fast_akai_to_ascii_byte
(smpl_extract/akai/akai_string.py), the AKAI -> ASCII name decoding that
FileEntryConstruct ("name" / AkaiPaddedString(12)) runs on every record of the
directory table scan; an undecodable name is what turns a record into a
ConstructError that FileEntriesAdapter._parse skips.

Compares the functions of the tree with inline copies of the ORIGINALS:
  * _fast_akai_to_ascii_byte on every integer -300..70000 plus bools, floats
    and non-numbers (value or exception type/arguments);
  * _fast_akai_to_ascii / char_akai_to_ascii on every sequence of length 0..3
    over a representative alphabet (run edges, all five symbols, invalid
    codes) and on 20000 random 12 byte names, passed as bytes, as a list and
    as a logging iterator (compared: the string or the exception, and how many
    items had been pulled from the iterator when it stopped / failed);
  * end to end: AkaiPaddedString(12).parse on random 12 byte fields, and whole
    random directory tables (valid records, records with bad names / unknown
    file types / out of range start sectors, end markers, truncated tails)
    parsed by VolumeBodyConstruct -> FileEntriesAdapter._parse with the tree's
    functions and with the originals patched in (names, file types and number
    of the surviving entries, stream position, exceptions).
Exit 0 when everything agrees, 1 otherwise.
"""
import io
import itertools
import random
import sys

from construct.core import ConstructError
from construct.lib.containers import Container

import smpl_extract.akai.akai_string as akai_string
from smpl_extract.akai.akai_string import AkaiPaddedString
from smpl_extract.akai.data_types import CHAR_MAP_A
from smpl_extract.akai.data_types import CHAR_MAP_MINUS
from smpl_extract.akai.data_types import CHAR_MAP_NINE
from smpl_extract.akai.data_types import CHAR_MAP_PERIOD
from smpl_extract.akai.data_types import CHAR_MAP_PLUS
from smpl_extract.akai.data_types import CHAR_MAP_POUND
from smpl_extract.akai.data_types import CHAR_MAP_SPACE
from smpl_extract.akai.data_types import CHAR_MAP_Z
from smpl_extract.akai.data_types import CHAR_MAP_ZERO
from smpl_extract.akai.data_types import CharFormat
from smpl_extract.akai.data_types import FILE_TABLE_END_FLAG
from smpl_extract.akai.data_types import InvalidCharacter
from smpl_extract.akai.volume import VolumeBodyConstruct
from smpl_extract.util.fat import RequestedInvalidSector


def original_fast_akai_to_ascii_byte(byte_in: int):
    # verbatim copy of the original function
    if CHAR_MAP_ZERO[CharFormat.AKAI] <= byte_in <= CHAR_MAP_NINE[CharFormat.AKAI]:
        return byte_in + CHAR_MAP_ZERO[CharFormat.ASCII] - CHAR_MAP_ZERO[CharFormat.AKAI]

    if CHAR_MAP_A[CharFormat.AKAI] <= byte_in <= CHAR_MAP_Z[CharFormat.AKAI]:
        return byte_in + CHAR_MAP_A[CharFormat.ASCII] - CHAR_MAP_A[CharFormat.AKAI]

    symbol_map = {
        CHAR_MAP_SPACE[CharFormat.AKAI]:   CHAR_MAP_SPACE[CharFormat.ASCII],
        CHAR_MAP_POUND[CharFormat.AKAI]:   CHAR_MAP_POUND[CharFormat.ASCII],
        CHAR_MAP_PLUS[CharFormat.AKAI]:    CHAR_MAP_PLUS[CharFormat.ASCII],
        CHAR_MAP_MINUS[CharFormat.AKAI]:   CHAR_MAP_MINUS[CharFormat.ASCII],
        CHAR_MAP_PERIOD[CharFormat.AKAI]:  CHAR_MAP_PERIOD[CharFormat.ASCII],
    }
    resulting_symbol = symbol_map.get(byte_in)

    if resulting_symbol is None:
        raise InvalidCharacter

    return resulting_symbol


def original_fast_akai_to_ascii(bytes_in):
    # verbatim copy of the original function (calls the original byte helper)
    out_str = list()
    for byte in bytes_in:
        out_str.append(chr(original_fast_akai_to_ascii_byte(byte)))
    return "".join(out_str)


TREE_BYTE = akai_string._fast_akai_to_ascii_byte
TREE_STRING = akai_string._fast_akai_to_ascii


def call(function, *args):
    try:
        return ("ok", function(*args))
    except Exception as e:  # noqa: compared below
        return ("raised", type(e), e.args)


def check_bytes():
    failures = 0
    values = list(range(-300, 70001))
    values += [True, False, 0.0, 5.0, 10.5, 36.0, 40.0, 1e9, None, "a", b"a",
               (1,), [1], 2 ** 70, -2 ** 70, float("nan"), float("inf")]
    for value in values:
        expected = call(original_fast_akai_to_ascii_byte, value)
        actual = call(TREE_BYTE, value)
        if repr(expected) != repr(actual):
            failures += 1
            if failures <= 10:
                print("MISMATCH byte", repr(value), expected, actual)
    print(f"bytes: {len(values)} values, {failures} mismatches")
    return failures


class LoggedIterable:
    def __init__(self, items):
        self.items = list(items)
        self.pulled = 0

    def __iter__(self):
        for item in self.items:
            self.pulled += 1
            yield item


def check_strings():
    failures = 0
    count = 0
    alphabet = [0x00, 0x09, 0x0A, 0x0B, 0x24, 0x25, 0x26, 0x27, 0x28,
                0x29, 0x2A, 0x41, 0x7F, 0xFF]
    cases = []
    for length in range(0, 4):
        cases.extend(itertools.product(alphabet, repeat=length))
    rng = random.Random(4242)
    for _ in range(20000):
        roll = rng.random()
        if roll < 0.5:
            cases.append(tuple(rng.randrange(0, 0x29) for _ in range(12)))
        elif roll < 0.8:
            name = [rng.randrange(0, 0x29) for _ in range(12)]
            name[rng.randrange(12)] = rng.randrange(0x29, 0x100)
            cases.append(tuple(name))
        else:
            cases.append(tuple(rng.randrange(256) for _ in range(12)))
    for case in cases:
        count += 1
        for make in (bytes, list):
            expected = call(original_fast_akai_to_ascii, make(case))
            for function in (TREE_STRING, akai_string.char_akai_to_ascii):
                actual = call(function, make(case))
                if expected != actual:
                    failures += 1
                    if failures <= 10:
                        print("MISMATCH string", case, expected, actual)
        source_a = LoggedIterable(case)
        source_b = LoggedIterable(case)
        expected = (call(original_fast_akai_to_ascii, source_a), source_a.pulled)
        actual = (call(TREE_STRING, source_b), source_b.pulled)
        if expected != actual:
            failures += 1
            if failures <= 10:
                print("MISMATCH iterator", case, expected, actual)
    # a list that carries a non-integer
    for case in ([1, None, 2], [1, "x"], [b"a"], [3.0, 4]):
        expected = call(original_fast_akai_to_ascii, case)
        actual = call(TREE_STRING, case)
        if repr(expected) != repr(actual):
            failures += 1
            print("MISMATCH odd", case, expected, actual)
    print(f"strings: {count} sequences, {failures} mismatches")
    return failures


class FakeSat:
    """stands in for the partition's segment allocation table"""

    def __init__(self, limit):
        self.limit = limit

    def get_segment(self, index):
        if index >= self.limit:
            raise RequestedInvalidSector
        return io.BytesIO(bytes(64))


def random_record(rng):
    roll = rng.random()
    if roll < 0.55:
        name = bytes(rng.randrange(0, 0x29) for _ in range(12))
    elif roll < 0.85:
        raw = [rng.randrange(0, 0x29) for _ in range(12)]
        raw[rng.randrange(12)] = rng.randrange(0x29, 0x100)
        name = bytes(raw)
    else:
        name = bytes(rng.randrange(256) for _ in range(12))
    file_type = rng.choice([0x64, 0x70, 0x71, 0x73, 0x78, 0xF0, 0xF3, 0x00, 0x12])
    size = rng.randrange(0, 1 << 24)
    start = rng.choice([0, 1, 2, 5, 40, 41, 0xFFFF])
    record = name + bytes(4) + bytes([file_type]) + size.to_bytes(3, "little")
    record += start.to_bytes(2, "little") + bytes(2)
    if rng.random() < 0.06:
        record = record[:8] + FILE_TABLE_END_FLAG.to_bytes(2, "little") + record[10:]
    return record


def parse_table(table):
    stream = io.BytesIO(table)
    sat = FakeSat(41)
    try:
        body = VolumeBodyConstruct.parse_stream(
            stream,
            _=Container(sat=sat),
            sat=sat,
            _elem_parent=None,
            _elem_routines={}
        )
    except Exception as e:  # noqa: compared below
        return ("raised", type(e), e.args, stream.tell())
    entries = [(x.name, x.file_type) for x in body.file_entries]
    return ("ok", entries, stream.tell())


def patched(originals, function, *args):
    akai_string._fast_akai_to_ascii_byte = (
        original_fast_akai_to_ascii_byte if originals else TREE_BYTE
    )
    akai_string._fast_akai_to_ascii = (
        original_fast_akai_to_ascii if originals else TREE_STRING
    )
    try:
        return function(*args)
    finally:
        akai_string._fast_akai_to_ascii_byte = TREE_BYTE
        akai_string._fast_akai_to_ascii = TREE_STRING


def parse_name(field):
    try:
        return ("ok", AkaiPaddedString(12).parse(field))
    except ConstructError as e:
        return ("raised", type(e))


def check_end_to_end():
    failures = 0
    rng = random.Random(99)
    fields = [bytes([0x0A] * 12), bytes(12), bytes([0x28] * 12), b""]
    fields += [bytes(rng.randrange(0, 0x2C) for _ in range(12)) for _ in range(4000)]
    fields += [bytes(rng.randrange(256) for _ in range(rng.randrange(0, 14)))
               for _ in range(1000)]
    for field in fields:
        expected = patched(True, parse_name, field)
        actual = patched(False, parse_name, field)
        if expected != actual:
            failures += 1
            if failures <= 10:
                print("MISMATCH field", field, expected, actual)

    tables = []
    survivors = 0
    for _ in range(1500):
        records = [random_record(rng) for _ in range(rng.randrange(0, 12))]
        table = b"".join(records)
        if rng.random() < 0.3:
            table += bytes(rng.randrange(256) for _ in range(rng.randrange(1, 24)))
        tables.append(table)
    for table in tables:
        expected = patched(True, parse_table, table)
        actual = patched(False, parse_table, table)
        if expected[0] == "ok":
            survivors += len(expected[1])
        if expected != actual:
            failures += 1
            if failures <= 10:
                print("MISMATCH table", table.hex())
                print("  expected", expected)
                print("  actual  ", actual)
    print(f"end to end: {len(fields)} name fields, {len(tables)} directory "
          f"tables ({survivors} surviving entries), {failures} mismatches")
    if survivors == 0:
        print("the directory tables produced no entries at all")
        failures += 1
    return failures


def main():
    failures = check_bytes() + check_strings() + check_end_to_end()
    if failures:
        print("FAILED")
        return 1
    print("all agree")
    return 0


if __name__ == "__main__":
    sys.exit(main())
