"""Equivalence demo for the FirFilter.convolve_valid refactoring (fir.pyx).

The .pyx ships pre-built, so the edited text has no runtime effect on the
compiled module.  To still exercise the *edited text*, the pure-Python
`class FirFilter` / `class ChickSysCustomFirFilter` blocks are cut out of
smpl_extract/filters/fir.pyx and exec'd (the cdef kernel is reached through
the compiled class).  They are compared against
  (a) an inline copy of the ORIGINAL class text, and
  (b) the compiled classes,
on direct convolve_valid calls (short / equal / long inputs, several dtypes,
failing inputs) and on block-wise streaming with every split.
Exit 0 when everything agrees, 1 otherwise.
"""
import itertools
import os
import random
import sys
import types
import warnings
from typing import Optional

import numpy as np

import smpl_extract.filters.fir as compiled

warnings.simplefilter("ignore")

PYX = os.path.join(os.path.dirname(os.path.abspath(compiled.__file__)), "fir.pyx")


def _kernel(x, h, k):
    """stand-in for the cdef _c_chicken_sys_convolve_valid(x, h, k)"""
    holder = types.SimpleNamespace(k_gain=k)
    return compiled.ChickSysCustomFirFilter.convolve_valid(holder, x, h)


# ---------------------------------------------------------------- ORIGINAL
class OrigFirFilter:

    def __init__(self, h: np.ndarray, delay_offset: int = 0) -> None:
        self.N = len(h)
        self.h = h
        self.m0 = delay_offset
        self.m1 = self.N - self.m0 - 1
        self.x_prev = np.zeros(self.m1)

    def reset_state(self, **kwargs):
        x_prev = kwargs.get("x_prev", None)
        x_prev = x_prev or np.zeros(self.m1)
        self.x_prev = x_prev

    def convolve_valid(self, x: np.ndarray, h: np.ndarray) -> np.ndarray:
        if np.size(x) < np.size(h):
            return np.asarray([], dtype=x.dtype)
        y = np.convolve(x, h, "valid")
        return y

    def process(self, x: np.ndarray) -> np.ndarray:
        dtype = x.dtype
        x_full = np.concatenate([self.x_prev, x])
        self.x_prev = x[-(self.N - 1):]
        y = self.convolve_valid(x_full, self.h).astype(dtype)
        return y

    def get_remaining(self) -> np.ndarray:
        dtype = self.x_prev.dtype
        x_full = np.concatenate([self.x_prev, np.zeros(self.m0)])
        y = self.convolve_valid(x_full, self.h).astype(dtype)
        self.reset_state()
        return y


class OrigChickSysCustomFirFilter(OrigFirFilter):

    def __init__(self, h: np.ndarray, delay_offset: int = 0, k_gain: int = 1) -> None:
        super().__init__(h, delay_offset)
        self.k_gain = k_gain

    def convolve_valid(self, x: np.ndarray, h: np.ndarray) -> np.ndarray:
        x = x.astype(np.int16)
        result = _kernel(x, h, self.k_gain)
        return result


# ------------------------------------------------- classes from the .pyx text
def _cut_class(lines, name):
    start = next(i for i, l in enumerate(lines) if l.startswith("class " + name))
    end = len(lines)
    for j in range(start + 1, len(lines)):
        l = lines[j]
        if l.strip() and not l[0].isspace():
            end = j
            break
    return "".join(lines[start:end])


def load_text_classes():
    with open(PYX, "r", encoding="utf-8") as fh:
        lines = fh.readlines()
    ns = {"np": np, "Optional": Optional, "_c_chicken_sys_convolve_valid": _kernel}
    exec(compile(_cut_class(lines, "FirFilter"), PYX + ":FirFilter", "exec"), ns)
    exec(compile(_cut_class(lines, "ChickSysCustomFirFilter"),
                 PYX + ":ChickSysCustomFirFilter", "exec"), ns)
    return ns["FirFilter"], ns["ChickSysCustomFirFilter"]


TextFir, TextChick = load_text_classes()

FAILS = []
CHECKS = [0]


def same_value(a, b):
    if isinstance(a, np.ndarray) or isinstance(b, np.ndarray):
        return (isinstance(a, np.ndarray) and isinstance(b, np.ndarray)
                and a.dtype == b.dtype and a.shape == b.shape
                and a.tobytes() == b.tobytes())
    if isinstance(a, float) and isinstance(b, float):
        return repr(a) == repr(b)
    return type(a) is type(b) and a == b


def outcome(fn):
    try:
        return ("ok", fn())
    except BaseException as e:  # noqa
        return ("exc", type(e).__name__, str(e).replace("'Orig", "'"))


def same_outcome(a, b):
    if a[0] != b[0]:
        return False
    if a[0] == "exc":
        return a[1:] == b[1:]
    return same_value(a[1], b[1])


def state(f):
    return {k: (v.copy() if isinstance(v, np.ndarray) else v)
            for k, v in sorted(vars(f).items())}


def same_state(f, g):
    sf, sg = state(f), state(g)
    return sf.keys() == sg.keys() and all(same_value(sf[k], sg[k]) for k in sf)


def check(label, *objs_and_calls):
    """objs_and_calls: (obj, callable) pairs - the first one is the reference."""
    CHECKS[0] += 1
    ref_obj, ref_call = objs_and_calls[0]
    ref_out = outcome(ref_call)
    for obj, call in objs_and_calls[1:]:
        out = outcome(call)
        if not same_outcome(ref_out, out):
            FAILS.append((label, "outcome", ref_out, out))
        elif not same_state(ref_obj, obj):
            FAILS.append((label, "state", state(ref_obj), state(obj)))


rng = random.Random(1909)
nrng = np.random.default_rng(1909)

GENERIC = (OrigFirFilter, TextFir, compiled.FirFilter)
CHICK = (OrigChickSysCustomFirFilter, TextChick, compiled.ChickSysCustomFirFilter)


class SizeSpy:
    """records the order in which np.size() looks at the two operands"""
    log = []

    def __init__(self, name, arr):
        self.name, self.arr, self.dtype = name, arr, arr.dtype

    def __array__(self, dtype=None, copy=None):
        SizeSpy.log.append(self.name)
        return self.arr


def splits(n):
    if n == 0:
        yield []
        return
    if n <= 7:
        for bits in itertools.product([0, 1], repeat=n - 1):
            yield [i + 1 for i, b in enumerate(bits) if b] + [n]
    else:
        for _ in range(5):
            k = rng.randint(0, min(n - 1, 7))
            yield sorted(rng.sample(range(1, n), k)) + [n]


def run_stream(f, x, cuts):
    out = []
    lo = 0
    for hi in cuts:
        out.append(f.process(x[lo:hi]))
        lo = hi
    out.append(f.get_remaining())
    return np.concatenate(out)


def signals(dtype):
    yield np.asarray([], dtype=dtype)
    yield np.asarray([1], dtype=dtype)
    yield np.asarray([32767, -32768, 32767, -32768, 0, 1], dtype=dtype)
    yield np.asarray([32767] * 9, dtype=dtype)
    yield np.asarray([-32768] * 9, dtype=dtype)
    for _ in range(5):
        yield nrng.integers(-32768, 32768, rng.randint(1, 40)).astype(dtype)


def main():
    # 1. direct calls of convolve_valid: every length relation, dtypes, failures
    trio = [c(np.asarray([1.0, 2.0, 3.0]), 1) for c in GENERIC]
    dtypes = (np.int16, np.int32, np.float32, np.float64, np.uint8, np.complex128, np.bool_)
    for n_h in range(0, 6):
        for n_x in range(0, 9):
            for dx in dtypes:
                for dh in (np.float64, np.int16):
                    x = (nrng.integers(-100, 100, n_x)).astype(dx)
                    h = (nrng.integers(-100, 100, n_h)).astype(dh)
                    check("cv %d %d %s %s" % (n_x, n_h, dx.__name__, dh.__name__),
                          *[(f, (lambda f=f: f.convolve_valid(x, h))) for f in trio])
    odd_args = [
        (np.asarray(3.0), np.asarray([1.0])),                 # 0-d input
        (np.asarray([1.0, 2.0]), np.asarray(2.0)),            # 0-d kernel
        (np.asarray(3.0), np.asarray(2.0)),
        (np.zeros((2, 3)), np.asarray([1.0, 1.0])),           # 2-d -> ValueError in convolve
        (np.zeros((2, 3)), np.ones(7)),                       # 2-d but "short" -> empty
        (np.asarray([1.0, 2.0, 3.0]), [1.0, 1.0]),            # list kernel
        ([1.0, 2.0, 3.0], np.asarray([1.0, 1.0])),            # list input, long enough
        ([1.0], np.asarray([1.0, 1.0])),                      # list input, short -> AttributeError
        (np.asarray([1.0, 2.0]), None),
        (None, np.asarray([1.0])),
        (np.asarray(["a", "b"]), np.asarray([1.0])),
        (np.asarray([1.0, np.nan, np.inf, -np.inf]), np.asarray([0.5, 0.5])),
        (np.asarray([1.0, 2.0]), np.asarray([])),             # empty kernel -> ValueError
        (np.asarray([]), np.asarray([])),
        (5, 3), ("abc", "de"),
    ]
    for i, (x, h) in enumerate(odd_args):
        check("odd %d" % i, *[(f, (lambda f=f: f.convolve_valid(x, h))) for f in trio])
    # the two sizes are still taken x first, h second
    orders = []
    for f in trio:
        SizeSpy.log = []
        outcome(lambda: f.convolve_valid(SizeSpy("x", np.ones(4)), SizeSpy("h", np.ones(2))))
        orders.append(list(SizeSpy.log))
    CHECKS[0] += 1
    if any(o != orders[0] for o in orders[1:]):
        FAILS.append(("size order", orders))

    # 2. generic FIR: every delay offset, every block split
    kernels = [np.asarray([1.0]), np.asarray([-1, 2, -1]), np.asarray([0.5, 0.25]),
               np.asarray([0.005066072573015534, 0.315591906491287, 0.6036255989257485,
                           0.07571642200994903, 0.0, 0.0, 0.0, 0.0])]
    for _ in range(5):
        kernels.append(nrng.uniform(-1, 1, rng.randint(1, 7)))
    for h in kernels:
        for m0 in range(0, len(h)):
            for dtype in (np.int16, np.float64):
                for x in signals(dtype):
                    for cuts in splits(len(x)):
                        fs = [c(h, m0) for c in GENERIC]
                        check("stream", *[(f, (lambda f=f: run_stream(f, x, cuts))) for f in fs])
                        check("again", *[(f, (lambda f=f: run_stream(f, x, cuts))) for f in fs])

    # 3. ChickenSys custom FIR overrides convolve_valid: untouched, still agrees
    roland = np.asarray([1, -2, 5, -11, 25, -65, 176, -460, 9981, 32767, 9981,
                         -460, 176, -65, 25, -11, 5, -2, 1], dtype=np.int16)
    for h, m0, k in [(roland, 7, 52067), (roland, 0, 52067), (roland, 18, 52067),
                     (np.asarray([1, 2, 1], dtype=np.int16), 1, 4)]:
        for x in signals(np.int16):
            for cuts in splits(len(x)):
                fs = [c(h, m0, k) for c in CHICK]
                check("chick stream", *[(f, (lambda f=f: run_stream(f, x, cuts))) for f in fs])
        # the base-class method called explicitly on a subclass instance
        fs = [c(h, m0, k) for c in CHICK]
        for n_x in (0, 1, len(h) - 1, len(h), len(h) + 5):
            x = nrng.integers(-3000, 3000, n_x).astype(np.int16)
            check("base on chick", *[
                (f, (lambda f=f, c=c: c.convolve_valid(f, x, h)))
                for f, c in zip(fs, GENERIC)])

    print("checks: %d, failures: %d" % (CHECKS[0], len(FAILS)))
    for f in FAILS[:10]:
        print("FAIL", f)
    return 1 if FAILS else 0


if __name__ == "__main__":
    sys.exit(main())
