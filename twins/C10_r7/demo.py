"""Equivalence demo for r7 (actions.ls_action, not-found reporting).

Runs smpl_extract.actions.ls_action (as currently in the tree) and an inline
copy of the ORIGINAL body side by side and compares, for every scenario,
  - everything written to stdout,
  - the return value or the exception (type, text, type of __context__),
  - the ordered log of calls made on the image / item / info objects
    (including the routines dict: keys, order, values).
Scenarios: recording mock images (found, not found, failures at every
step, odd return values, failing stdout) and real Traversable trees with many
path strings.  Exit 0 when all agree, else 1.
"""
import contextlib
from dataclasses import dataclass
import io
import itertools
import random
import sys
from typing import ClassVar
from typing import Dict

import smpl_extract.actions as actions
from smpl_extract.actions import _wrap_filestream
from smpl_extract.base import ElementTypes
from smpl_extract.elements import LeafElement
from smpl_extract.structural import ErrorInvalidPath
from smpl_extract.structural import Image
from smpl_extract.structural import T_ROUTINE
from smpl_extract.structural import Traversable


# ---- ORIGINAL implementation (verbatim) -----------------------------------
@_wrap_filestream
def orig_ls_action(image: Image, path: str):

    routines: Dict[str, T_ROUTINE] = {
        "make_safe_names": image.make_safe_names_routine,
        "make_export_names": image.make_export_names_routine
    }

    image.set_routines(routines)

    try:
        item = image.parse_path(path)
    except ErrorInvalidPath as e:
        print(e)
        return

    info = item.get_info()
    result_str = info.to_string()
    print(result_str)
# ---------------------------------------------------------------------------


LOG = []


class WeirdInvalidPath(ErrorInvalidPath):
    def __str__(self):
        LOG.append("WeirdInvalidPath.__str__")
        return "weird: " + "|".join(map(str, self.args))


class BadStrInvalidPath(ErrorInvalidPath):
    def __str__(self):
        LOG.append("BadStrInvalidPath.__str__")
        return 5  # str()/print() must fail identically


class MockInfo:
    def __init__(self, behaviour):
        self.behaviour = behaviour

    def to_string(self):
        LOG.append("info.to_string")
        if self.behaviour == "to_string raises":
            raise ErrorInvalidPath("from to_string")
        if self.behaviour == "to_string non-str":
            return ("tuple", 1)
        return "RENDERED <%s>\n" % self.behaviour


class MockItem:
    def __init__(self, behaviour):
        self.behaviour = behaviour

    def get_info(self):
        LOG.append("item.get_info")
        if self.behaviour == "get_info raises invalid path":
            raise ErrorInvalidPath("from get_info")
        if self.behaviour == "get_info raises":
            raise RuntimeError("from get_info")
        if self.behaviour == "get_info none":
            return None
        return MockInfo(self.behaviour)

    def __bool__(self):
        LOG.append("item.__bool__")
        return self.behaviour != "falsy item"


class MockImage:
    """Not an Image subclass on purpose: _wrap_filestream passes any
    non-str object through unchanged."""

    def __init__(self, behaviour):
        self.behaviour = behaviour

    @property
    def make_safe_names_routine(self):
        LOG.append("image.make_safe_names_routine")
        return "SAFE"

    @property
    def make_export_names_routine(self):
        LOG.append("image.make_export_names_routine")
        if self.behaviour == "no export routine":
            raise AttributeError("make_export_names_routine")
        return "EXPORT"

    def set_routines(self, routines):
        LOG.append(("image.set_routines", type(routines).__name__,
                    list(routines.items())))
        if self.behaviour == "set_routines raises":
            raise ErrorInvalidPath("from set_routines")

    def parse_path(self, path):
        LOG.append(("image.parse_path", path))
        b = self.behaviour
        if b == "not found":
            raise ErrorInvalidPath(
                f"The entity \"{path}\" was not found in \"image\"."
            )
        if b == "not found empty":
            raise ErrorInvalidPath()
        if b == "not found two args":
            raise ErrorInvalidPath("a", "b")
        if b == "not found weird":
            raise WeirdInvalidPath(path, 1)
        if b == "not found bad str":
            raise BadStrInvalidPath(path)
        if b == "parse raises other":
            raise KeyError(path)
        if b == "parse raises stop":
            raise StopIteration(path)
        if b == "returns none":
            return None
        if b == "returns false":
            return False
        return MockItem(b)


BEHAVIOURS = [
    "found", "falsy item", "not found", "not found empty",
    "not found two args", "not found weird", "not found bad str",
    "parse raises other", "parse raises stop", "returns none",
    "returns false", "get_info raises invalid path", "get_info raises",
    "get_info none", "to_string raises", "to_string non-str",
    "no export routine", "set_routines raises",
]


class FailingStdout(io.StringIO):
    """Accepts `budget` write() calls, then fails."""

    def __init__(self, budget):
        super().__init__()
        self.budget = budget

    def write(self, text):
        if self.budget <= 0:
            raise OSError("stdout is gone")
        self.budget -= 1
        return super().write(text)


def run(func, image, path, stdout=None):
    del LOG[:]
    buffer = stdout if stdout is not None else io.StringIO()
    try:
        with contextlib.redirect_stdout(buffer):
            value = func(image, path)
        outcome = ("return", repr(value))
    except BaseException as exc:
        outcome = ("raise", type(exc).__name__, str(exc) if not isinstance(
            exc, BadStrInvalidPath) else "<bad str>",
            type(exc.__context__).__name__, type(exc.__cause__).__name__)
    return outcome, buffer.getvalue(), list(LOG)


# ---- real trees -----------------------------------------------------------
@dataclass
class Leaf(LeafElement):
    type_id: ClassVar = ElementTypes.SampleEntry
    name: str = ""
    type_name: str = "Sample"
    pitch: int = 60
    loops: tuple = ()
    note: str = "C4"


def L(name, **kw):
    return ("leaf", name, kw)


def D(name, *kids):
    return ("dir", name, kids)


def realize_spec(kids, ctx):
    """Children are created lazily and inherit the routines, like the
    construct-based parsers of the real images do."""
    out = []
    for kind, name, rest in kids:
        if kind == "leaf":
            out.append(Leaf(name, **rest))
        else:
            out.append(Dir(name, rest, ctx["_elem_routines"]))
    return out


class Dir(Traversable):
    def __init__(self, name, kids, routines):
        self.name = name
        Traversable.__init__(
            self, lambda ctx: realize_spec(kids, ctx), routines,
            type_name="Volume"
        )


TREE = (
    D("A",
        D("VOLUME 001",
            L("STRINGS -L"), L("STRINGS -R", pitch=61),
            L("it's \"quoted\""), L("DUP"), L("DUP"),
            L("DUP (2)"), L(""), L("  "),
            L("A/B"), L("x" * 40, loops=(1, 2, (3, 4)))),
        D("EMPTY"),
        D("EMPTY"),
        L("TOP LEAF")),
    D("B:", L("äöü")),
    L("ROOT LEAF", note=""),
)


class TreeImage(Image):
    name = "Fake Image"
    type_name = "Fake Image"

    def __init__(self):
        Traversable.__init__(self, lambda ctx: realize_spec(TREE, ctx))


def tree_paths():
    names = ["A", "a", "B", "B:", "B", "VOLUME 001", "EMPTY", "EMPTY (2)",
             "TOP LEAF", "ROOT LEAF", "STRINGS -L", "STRINGS -R",
             "its quoted", "it's \"quoted\"", "DUP", "DUP (2)", "DUP (3)",
             "DUP (4)", "", " ", "A B", "A/B", "x" * 40, "äöü", "nope",
             "\U0001f3b9"]
    paths = {"", " ", "/", "\\", "//", "\\\\"}
    for a in names:
        paths.update((a, a + "/", " " + a + " \\", "/" + a))
        for b in names:
            paths.update((a + "/" + b, a + "\\" + b + "\\\\"))
    for a, b, c in itertools.product(names[:12] + names[14:20], repeat=3):
        if a in ("A", "a", "nope"):
            paths.add("/".join((a, b, c)))
    rnd = random.Random(7)
    alphabet = ["/", "\\", " ", "A", "VOLUME 001", "DUP", "EMPTY", "(2)",
                ":", "x", "ä", "TOP LEAF"]
    for _ in range(1500):
        paths.add("".join(
            rnd.choice(alphabet) for _ in range(rnd.randint(0, 7))
        ))
    return sorted(paths)


def main():
    failures = 0
    checked = 0
    current = actions.ls_action

    def compare(label, make_image, path, make_stdout=lambda: None):
        nonlocal failures, checked
        checked += 1
        want = run(orig_ls_action, make_image(), path, make_stdout())
        got = run(current, make_image(), path, make_stdout())
        if want != got:
            failures += 1
            if failures < 20:
                print("MISMATCH", label, repr(path))
                print("   original:", want)
                print("   current :", got)

    mock_paths = ["", "A", "A/VOLUME 001", "no such thing", "  x  ",
                  "ünï/cödé", "\\"]
    for behaviour in BEHAVIOURS:
        for path in mock_paths:
            compare(behaviour, lambda: MockImage(behaviour), path)
            for budget in (0, 1, 2):
                compare(behaviour + " / failing stdout",
                        lambda: MockImage(behaviour), path,
                        lambda: FailingStdout(budget))

    # non-string path objects are handed through untouched
    for path in (None, 3, b"A", ("A",)):
        compare("odd path", lambda: MockImage("found"), path)
        compare("odd path", lambda: MockImage("not found"), path)
        compare("odd path tree", TreeImage, path)

    for path in tree_paths():
        compare("tree", TreeImage, path)
        compare("tree / failing stdout", TreeImage, path,
                lambda: FailingStdout(1))

    # one image listed repeatedly (routines re-installed, cached children)
    img_a, img_b = TreeImage(), TreeImage()
    for path in tree_paths()[::5]:
        checked += 1
        if run(orig_ls_action, img_a, path) != run(current, img_b, path):
            failures += 1
            print("MISMATCH reused image", repr(path))

    # the decorator still hides the return value and keeps the metadata
    checked += 1
    if (current.__name__, current.__wrapped__.__name__) != (
            "ls_action", "ls_action"):
        failures += 1
        print("MISMATCH function metadata")

    print(f"checked {checked} cases, {failures} mismatches")
    return 0 if failures == 0 else 1


if __name__ == "__main__":
    sys.exit(main())
