"""Equivalence demo for r20 (alcohol/mdf.py is_mdf_image: flag -> predicate helper).

The ORIGINAL is_mdf_image is pasted below (it uses the module's own
MdfSectorHeaderConstruct, which the refactoring does not touch).  Live and
original detector are run on twin logging images and must agree on: return
value and type, exception type and text, the cursor left behind, and the
ordered log of tell/seek/read calls made on the image.  Images: valid raw
sector headers, every single corrupted header byte, wrong mode byte, every
truncation length 0..20, empty images, images behind an offset window /
sector stream / chained file stream, streams whose n-th read / seek / tell
raises OSError or a ConstructError subclass, streams returning str / None
from read; each with the cursor at the start, in the middle, at the end and
beyond the end before the call.

Then, as smpl_extract.actions does, the raw-sector view MdfStream is layered
on images the detector accepted (and, for completeness, on rejected ones),
and twin views - one whose image was probed by the live detector, one by the
original - are driven through identical seek/tell/read histories; results,
view state and image logs must be identical and reads must equal the
concatenated 2048-byte user-data areas.  Exit 0 = all agree, 1 = mismatch.
"""
import random
import sys
from io import BytesIO, SEEK_CUR, SEEK_END, SEEK_SET

from construct.core import ConstructError
from construct.core import StreamError

from smpl_extract.alcohol import mdf as live_module
from smpl_extract.alcohol.mdf import MdfSectorHeaderConstruct
from smpl_extract.alcohol.mdf import MdfStream
from smpl_extract.alcohol.mdf import is_mdf_image
from smpl_extract.util.fat import FileStream
from smpl_extract.util.sector import SectorStream
from smpl_extract.util.stream import StreamOffset
from smpl_extract.util.stream import StreamWrapper


def orig_is_mdf_image(stream)->bool:
    """Original, verbatim."""
    stream_head = stream.tell()
    stream.seek(0, SEEK_SET)

    result = True
    try:
        MdfSectorHeaderConstruct.parse_stream(stream)  # type: ignore
    except ConstructError:
        result = False

    stream.seek(stream_head, SEEK_SET)

    return result


class Image(BytesIO):
    """BytesIO that logs every call and can fail / lie on demand."""

    def __init__(self, data, fail=None, read_as=None):
        super().__init__(data)
        self.log = []
        self.fail = fail          # (method, n-th call, exception factory)
        self.read_as = read_as    # None | "str" | "none"
        self.counts = {"tell": 0, "seek": 0, "read": 0}

    def _maybe_fail(self, name):
        self.counts[name] += 1
        if self.fail and self.fail[0] == name and self.fail[1] == self.counts[name]:
            self.log.append((name, "raise"))
            raise self.fail[2]()

    def tell(self):
        self._maybe_fail("tell")
        r = super().tell()
        self.log.append(("tell", r))
        return r

    def seek(self, *a):
        self._maybe_fail("seek")
        r = super().seek(*a)
        self.log.append(("seek", a, r))
        return r

    def read(self, *a):
        self._maybe_fail("read")
        r = super().read(*a)
        self.log.append(("read", a, r))
        if self.read_as == "str":
            return r.decode("latin-1")
        if self.read_as == "none":
            return None
        return r


def call(fn, *a):
    try:
        r = fn(*a)
        return ("ok", type(r).__name__, r)
    except Exception as e:  # noqa: BLE001
        return ("exc", type(e).__name__, str(e))


def state(v):
    out = []
    while isinstance(v, StreamWrapper):
        out.append((v.position, v.true_size, v.end_of_file))
        v = v.substream
    return out


def image_of(v):
    while isinstance(v, StreamWrapper):
        v = v.substream
    return v


def cursor(v):
    return v.position if isinstance(v, StreamWrapper) else BytesIO.tell(v)


MAGIC = b"\x00" + b"\xff" * 10 + b"\x00"


def raw_sector(rng, ident=0, mode=1):
    head = MAGIC + ident.to_bytes(3, "big") + bytes([mode])
    return head + bytes(rng.randrange(256) for _ in range(2352 - 16))


failures = 0
checks = 0


def fail(*what):
    global failures
    failures += 1
    if failures <= 10:
        print("MISMATCH", *what)


def probe(tag, make, start, whence=SEEK_SET):
    """make() -> fresh stream (possibly layered).  Returns the twin streams
    and the common verdict."""
    global checks
    a, b = make(), make()
    for s in (a, b):
        call(s.seek, start, whence)
    before = cursor(a)
    ra = call(is_mdf_image, a)
    rb = call(orig_is_mdf_image, b)
    checks += 1
    if not (ra == rb and cursor(a) == cursor(b) and state(a) == state(b)
            and image_of(a).log == image_of(b).log):
        fail(tag, start, ra, rb)
    if ra[0] == "ok" and cursor(a) != before:
        fail(tag, "cursor not restored", start, before, cursor(a))
    return a, b, ra


def drive(tag, a, b, history, logical=None):
    global checks
    va, vb = MdfStream(a), MdfStream(b)
    for step, (op, args) in enumerate(history):
        before = va.position
        ra = call(getattr(va, op), *args)
        rb = call(getattr(vb, op), *args)
        checks += 1
        ok = (ra == rb and state(va) == state(vb)
              and image_of(va).log == image_of(vb).log)
        if ok and logical is not None and op == "read" and ra[0] == "ok" and args[0] is not None:
            ok = ra[2] == logical[before:before + args[0]]
        if not ok:
            fail(tag, "step", step, op, args, ra, rb)
            return


def main():
    rng = random.Random(2020)

    # the helper must not have replaced the public function's identity
    if live_module.is_mdf_image is not is_mdf_image or not callable(is_mdf_image):
        fail("public name")

    good = raw_sector(rng, 7) + raw_sector(rng, 8) + raw_sector(rng, 9)
    datas = {"good": good, "empty": b"", "zeros": bytes(64), "text": b"MEDIA DESCRIPTOR" * 4}
    for i in range(16):
        broken = bytearray(good)
        broken[i] ^= 0x55
        datas[f"corrupt{i}"] = bytes(broken)
    for mode in (0, 2, 0xFF):
        datas[f"mode{mode}"] = raw_sector(rng, 1, mode) + raw_sector(rng, 2)
    for cut in range(0, 21):
        datas[f"cut{cut}"] = good[:cut]
    datas["onesector"] = good[:2352]
    datas["short_tail"] = good[:2352 * 2 + 100]

    starts = (0, 1, 15, 16, 17, 2352, 5000, 10 ** 6, -1)

    # 1. plain images
    for name, data in datas.items():
        for start in starts:
            probe(name, lambda d=data: Image(d), start)
        for whence in (SEEK_CUR, SEEK_END):
            probe(name + "-whence", lambda d=data: Image(d), 0, whence)

    # 2. failing / lying images
    class Custom(ConstructError):
        pass

    def stream_error():
        return StreamError("boom", path="(x)")

    for name in ("good", "corrupt3", "cut5", "empty"):
        data = datas[name]
        for method in ("tell", "seek", "read"):
            for nth in (1, 2, 3, 4):
                for exc in (lambda: OSError("disk"), lambda: ValueError("closed"),
                            Custom, stream_error, lambda: KeyboardInterruptLike("x")):
                    probe(f"{name}-fail-{method}{nth}",
                          lambda d=data, f=(method, nth, exc): Image(d, fail=f), 3)
        for read_as in ("str", "none"):
            probe(f"{name}-{read_as}", lambda d=data, r=read_as: Image(d, read_as=r), 2)

    # 3. images behind other views (the detector sees a StreamWrapper)
    for name in ("good", "corrupt0", "corrupt15", "cut12", "mode2", "empty", "short_tail"):
        data = datas[name]
        pad = b"\x11" * 5
        layered = {
            "offset": lambda d=data: StreamOffset(Image(pad + d), len(d), 5),
            "offset-short": lambda d=data: StreamOffset(Image(pad + d), max(len(d) - 2340, 0), 5),
            "offset-misaligned": lambda d=data: StreamOffset(Image(pad + d), len(d), 4),
            "sector": lambda d=data: SectorStream(Image(d), len(d), 7),
            "file": lambda d=data: FileStream(
                Image(d[48:96] + d[0:48] + d[96:]), 48, [1, 0] + list(range(2, len(d) // 48))),
            "wrapper-none": lambda d=data: StreamWrapper(Image(d), len(d)),
        }
        for lname, make in layered.items():
            for start in (0, 3, 16, 48, 4000, 10 ** 6):
                a, b, verdict = probe(f"{name}/{lname}", make, start)
                if verdict[0] == "ok" and lname in ("offset", "sector"):
                    history = [("read", (10,)), ("seek", (2040, SEEK_SET)), ("read", (20,)),
                               ("seek", (-5, SEEK_END)), ("read", (10,)), ("tell", ())]
                    drive(f"{name}/{lname}/mdf", a, b, history)

    # 4. the raw-sector view on probed images: long random histories
    for sectors in (0, 1, 2, 4):
        for extra in (0, 1, 500):
            data = b"".join(raw_sector(rng, k) for k in range(sectors)) + bytes(extra)
            logical = b"".join(data[k * 2352 + 16:k * 2352 + 2064] for k in range(sectors))
            for start in (0, 16, 2352, len(data), len(data) + 9):
                for _ in range(6):
                    a, b, verdict = probe("view", lambda d=data: Image(d), start)
                    want = ("ok", "bool", sectors > 0)
                    if verdict != want:
                        fail("verdict", sectors, extra, verdict)
                    history = []
                    for _ in range(30):
                        k = rng.random()
                        if k < 0.4:
                            history.append(("seek", (
                                rng.choice([-1, 0, 1, 2047, 2048, 2049, 4095, 4096, 4097,
                                            len(logical) - 1, len(logical), len(logical) + 5,
                                            rng.randrange(0, len(logical) + 1)]),
                                SEEK_SET)))
                        elif k < 0.5:
                            history.append(("seek", (rng.randrange(-3000, 3000),
                                                     rng.choice([SEEK_CUR, SEEK_END]))))
                        elif k < 0.9:
                            history.append(("read", (rng.choice(
                                [0, 1, 2, 100, 2047, 2048, 2049, 4096, 5000, 10000]),)))
                        else:
                            history.append(("tell", ()))
                    # an empty view does not clip (the property only speaks
                    # about non-empty views): twin comparison only there
                    drive("view", a, b, history, logical if sectors else None)

    print(f"{checks} calls compared, {failures} mismatches")
    return 1 if failures else 0


class KeyboardInterruptLike(Exception):
    """An ordinary exception that is not a ConstructError."""


if __name__ == "__main__":
    sys.exit(main())
