"""Equivalence demo for r9: smpl_extract.transcoder.resize_buffer.

resize_buffer is compared with an inline copy of the ORIGINAL on many
buffers (bytes, bytearray, memoryview, objects that count their len() calls)
and frame sizes (positive, zero, negative, non-int), including the identity
of the returned object and the type/message of any exception.  Then the two
callers (decode_frame and PassthroughTranscoder.__next__) are run end to end
with the original patched in and compared byte for byte.
Exit 0 when everything agrees, 1 otherwise.
"""
from io import BytesIO
import itertools
import sys
from unittest.mock import patch

import numpy as np

import smpl_extract.transcoder as T
from smpl_extract.data_streams import DataStream
from smpl_extract.data_streams import Endianess
from smpl_extract.data_streams import StreamEncoding


def resize_buffer_ORIG(buffer, frame_size):
    if len(buffer) % frame_size != 0:
        num_frames = len(buffer) // frame_size
        true_size = num_frames * frame_size
        buffer = buffer[:true_size]
    return buffer


class Spy:
    """bytes-like wrapper that logs every operation performed on it."""

    def __init__(self, data):
        self.data = data
        self.log = []

    def __len__(self):
        self.log.append("len")
        return len(self.data)

    def __getitem__(self, key):
        self.log.append(("getitem", key.start, key.stop, key.step))
        return self.data[key]


def outcome(f, *args):
    try:
        r = f(*args)
    except BaseException as e:  # noqa
        return ("exc", type(e), str(e)), None
    return ("ok", type(r), bytes(r) if not isinstance(r, Spy) else r.data), r


def run_all(f_decode_resize, streams_spec, dest, block):
    """Run make_transcoder end to end with resize_buffer := f."""
    with patch.object(T, "resize_buffer", f_decode_resize), \
            patch.object(T, "_DEFAULT_BUFFER_SIZE", block):
        # get_num_frames_possible has the default bound at def time
        def gnfp(stream, target_size=block):
            return max(1, target_size // stream.frame_size)
        with patch.object(T, "get_num_frames_possible", gnfp):
            streams = [
                DataStream(BytesIO(data), enc) for data, enc in streams_spec
            ]
            tr = T.make_transcoder(streams, dest)
            out = [bytes(b) for b in tr]
            return type(tr).__name__, out


def main():
    bad = 0
    n = 0
    new = T.resize_buffer

    # 1. unit level
    rng = np.random.default_rng(12)
    lengths = list(range(0, 40)) + [255, 256, 257, 4095, 4096, 4097]
    frame_sizes = [1, 2, 3, 4, 5, 6, 8, 12, 16, 4096, 5000,
                   0, -1, -2, -3, -7, True, 2.0, 2.5, None, "2"]
    for ln in lengths:
        raw = rng.integers(0, 256, ln, dtype=np.uint8).tobytes()
        for fs in frame_sizes:
            for make in (bytes, bytearray, memoryview, Spy):
                a = make(raw)
                b = make(raw)
                oa, ra = outcome(resize_buffer_ORIG, a, fs)
                ob, rb = outcome(new, b, fs)
                n += 1
                if oa != ob:
                    bad += 1
                    print("MISMATCH", ln, fs, make.__name__, oa, ob)
                    continue
                # same identity behaviour: untouched buffer is returned as is
                if (ra is a) != (rb is b):
                    bad += 1
                    print("IDENTITY MISMATCH", ln, fs, make.__name__)
                if make is Spy and a.log != b.log:
                    bad += 1
                    print("OP-ORDER MISMATCH", ln, fs, a.log, b.log)

    # buffer is None / not sized
    for buf in (None, 5, object()):
        for fs in (1, 2, 0):
            oa, _ = outcome(resize_buffer_ORIG, buf, fs)
            ob, _ = outcome(new, buf, fs)
            n += 1
            if oa != ob:
                bad += 1
                print("MISMATCH", buf, fs, oa, ob)

    # 2. end to end through both callers
    orders = [Endianess.LITTLE, Endianess.BIG]
    for width in (1, 2, 4):
        for chans in ([1], [2], [3], [1, 1], [2, 1], [1, 2, 3]):
            total = sum(chans)
            for ords in itertools.islice(
                    itertools.product(orders, repeat=len(chans)), 4):
                for extra in (0, 1, 3):
                    for frames in (0, 1, 7, 33):
                        spec = []
                        for i, (c, o) in enumerate(zip(chans, ords)):
                            nbytes = (frames + i) * c * width + extra
                            data = rng.integers(
                                0, 256, nbytes, dtype=np.uint8).tobytes()
                            spec.append((data, StreamEncoding(
                                o, width, c, True)))
                        dest = StreamEncoding(
                            Endianess.LITTLE, width, total, True)
                        for block in (1, 5, 16, 64, 4096):
                            ra = run_all(resize_buffer_ORIG, spec, dest, block)
                            rb = run_all(new, spec, dest, block)
                            n += 1
                            if ra != rb:
                                bad += 1
                                print("E2E MISMATCH", width, chans, ords,
                                      extra, frames, block)

    print(f"{n} cases, {bad} mismatches")
    return 1 if bad else 0


if __name__ == "__main__":
    sys.exit(main())
