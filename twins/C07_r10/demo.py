"""Equivalence demo for r10: FileStream._get_address_given_sector_index
(smpl_extract/util/fat.py).

`OriginalFileStream` below is a verbatim copy of the ORIGINAL class (it has to
be a class so that the zero-argument super() of the original keeps working).
The module's FileStream (and its subclasses Segment / RolandFile) are compared
with it on

 * every (sector list, sector index, offset) over small lists - in range,
   negative, just past the end, far past the end, ill-typed indices, sector
   lists that are lists / tuples / ranges / dicts / None / missing, and a
   sequence type that counts how it is accessed;
 * the callers: _read_sector, _translate_address and public seek()/read()
   sessions over chains produced by add_to_sector_links + get_path, with the
   trace of seek/read calls on the parent stream compared as well.
"""
import io
import random
import sys
from io import IOBase
from typing import List

from smpl_extract.akai.data_types import AKAI_SECTOR_SIZE
from smpl_extract.akai.sat import Segment
from smpl_extract.akai.sat import SegmentAllocationTable
from smpl_extract.roland.s7xx.data_types import ROLAND_CLUSTER_SIZE
from smpl_extract.roland.s7xx.fat import RolandFile
from smpl_extract.roland.s7xx.fat import RolandFileAllocationTable
from smpl_extract.util.fat import FileStream
from smpl_extract.util.fat import SectorLink
from smpl_extract.util.fat import add_to_sector_links
from smpl_extract.util.sector import SectorStream
from smpl_extract.util.stream import SectorReadError


# ---------------------------------------------------------------- original
class OriginalFileStream(SectorStream):


    def __init__(
            self,
            parent_stream:      IOBase,
            sector_size:        int,
            sector_list:        List[int],
            position:           int = 0,
            buffer_length:      int = 0x1000
    ) -> None:
        super().__init__(
            parent_stream,
            size=(sector_size * len(sector_list)),
            sector_length=sector_size,
            position=position,
            buffer_length=buffer_length
        )
        self.sector_list = sector_list


    def _get_address_given_sector_index(
            self,
            sector_index: int,
            offset: int
        ):
        try:
            sector  = self.sector_list[sector_index]
        except IndexError as e:
            raise SectorReadError(
                f"Sector {sector_index} lies beyond the "
                f"{len(self.sector_list)} sectors of the file."
            ) from e
        result  = super()._get_address_given_sector_index(
            sector,
            offset
        )
        return result


class OriginalSegment(OriginalFileStream):
    def __init__(self, partition_stream, sector_list, position=0,
                 buffer_length=0x1000):
        super().__init__(partition_stream, sector_size=AKAI_SECTOR_SIZE,
                         sector_list=sector_list, position=position,
                         buffer_length=buffer_length)


class OriginalRolandFile(OriginalFileStream):
    def __init__(self, partition_stream, sector_list, position=0,
                 buffer_length=0x1000):
        super().__init__(partition_stream, sector_size=ROLAND_CLUSTER_SIZE,
                         sector_list=sector_list, position=position,
                         buffer_length=buffer_length)


# ---------------------------------------------------------------- harness
class RecordingParent(io.BytesIO):
    def __init__(self, data):
        super().__init__(data)
        self.trace = []

    def seek(self, *args):
        self.trace.append(("seek",) + args)
        return super().seek(*args)

    def read(self, *args):
        self.trace.append(("read",) + args)
        return super().read(*args)


class CountingSequence:
    """Sequence that records how it is accessed."""
    def __init__(self, items):
        self.items = list(items)
        self.log = []

    def __len__(self):
        self.log.append("len")
        return len(self.items)

    def __getitem__(self, index):
        self.log.append(("get", index))
        return self.items[index]


class Weird:
    def __index__(self):
        return 1

    def __repr__(self):
        return "<weird>"

    __str__ = __repr__


def describe(exc):
    if exc is None:
        return None
    # the twin classes differ in name only; do not let that show in messages
    return (type(exc).__name__, str(exc).replace("'Original", "'"))


def outcome(fn):
    try:
        return ("ret", fn())
    except BaseException as exc:  # noqa
        return ("exc", describe(exc), describe(exc.__cause__),
                describe(exc.__context__), exc.__suppress_context__)


checked = 0
bad = 0


def compare(label, new_stream, old_stream, script, extra=lambda s: None):
    global checked, bad
    got = outcome(lambda: script(new_stream))
    want = outcome(lambda: script(old_stream))
    checked += 1
    new_state = (new_stream.position, new_stream.true_size, extra(new_stream))
    old_state = (old_stream.position, old_stream.true_size, extra(old_stream))
    if got != want or new_state != old_state:
        bad += 1
        if bad <= 10:
            print("MISMATCH", label)
            print("   new:", got, new_state)
            print("   old:", want, old_state)


def direct_calls():
    sector_lists = [
        [], [0], [3], [0, 1, 2], [2, 0, 1], [5, 5, 5], [7, 1, 4, 2, 9],
        (), (4, 2), range(0), range(3), range(5, 0, -2),
        {0: 4, 1: 2}, {}, None, "ab", b"\x01\x02", [None, "x", 2.5, [1]],
    ]
    indices = list(range(-8, 9)) + [10 ** 6, -10 ** 6, True, False, None,
                                    1.0, "1", slice(0, 2), slice(None),
                                    (0,), Weird()]
    offsets = [0, 1, 5, -1, 4096, None, 1.5]
    for sector_size in (1, 4, 0x2000):
        for sector_list in sector_lists:
            for index in indices:
                for offset in offsets:
                    streams = []
                    for cls in (FileStream, OriginalFileStream):
                        try:
                            s = cls(None, sector_size,
                                    sector_list if sector_list is not None
                                    else [])
                        except TypeError:
                            s = cls(None, sector_size, [])
                        s.sector_list = sector_list
                        streams.append(s)
                    compare(("direct", sector_size, sector_list, index, offset),
                            streams[0], streams[1],
                            lambda s: s._get_address_given_sector_index(
                                index, offset))
    # access pattern on a counting sequence, and a missing attribute
    for items in ([], [4], [4, 2, 7]):
        for index in range(-5, 6):
            streams = []
            for cls in (FileStream, OriginalFileStream):
                s = cls(None, 8, list(items))
                s.sector_list = CountingSequence(items)
                streams.append(s)
            compare(("counting", items, index), streams[0], streams[1],
                    lambda s: s._get_address_given_sector_index(index, 3),
                    extra=lambda s: s.sector_list.log)
    streams = []
    for cls in (FileStream, OriginalFileStream):
        s = cls(None, 8, [1, 2])
        del s.sector_list
        streams.append(s)
    compare("missing attribute", streams[0], streams[1],
            lambda s: s._get_address_given_sector_index(0, 0))


def callers_small():
    data = bytes(range(200))
    for sector_size in (1, 3, 4):
        for sector_list in ([], [0], [2, 0], [1, 3, 0, 2], [9, 9], [0, 60]):
            span = sector_size * len(sector_list)
            for index in range(-2, len(sector_list) + 3):
                for offset in range(0, sector_size + 1):
                    for size in range(0, sector_size + 2):
                        a = FileStream(RecordingParent(data), sector_size,
                                       list(sector_list))
                        b = OriginalFileStream(RecordingParent(data),
                                               sector_size, list(sector_list))
                        compare(("_read_sector", sector_size, sector_list,
                                 index, offset, size), a, b,
                                lambda s: s._read_sector(index, offset, size),
                                extra=lambda s: s.substream.trace)
            for address in range(-3, span + 4):
                a = FileStream(RecordingParent(data), sector_size,
                               list(sector_list))
                b = OriginalFileStream(RecordingParent(data), sector_size,
                                       list(sector_list))
                compare(("_translate_address", sector_size, sector_list,
                         address), a, b,
                        lambda s: s._translate_address(address))
            for position in range(0, span + 3):
                for size in (None, -1, 0, 1, 2, sector_size, span, span + 2):
                    a = FileStream(RecordingParent(data), sector_size,
                                   list(sector_list), position=position)
                    b = OriginalFileStream(RecordingParent(data), sector_size,
                                           list(sector_list),
                                           position=position)
                    compare(("read", sector_size, sector_list, position,
                             size), a, b, lambda s: s.read(size),
                            extra=lambda s: s.substream.trace)


def sessions(rng, new_cls, old_cls, table_cls, unit, rounds):
    for _ in range(rounds):
        n_entries = rng.randint(1, 12)
        sector_links = [SectorLink()] * n_entries
        chain = rng.sample(range(n_entries), rng.randint(1, min(n_entries, 8)))
        add_to_sector_links(chain, sector_links)
        path = table_cls(None, n_entries, sector_links).get_path(chain[0])
        assert path == chain
        data = (bytes(rng.getrandbits(8) for _ in range(251))
                * ((unit * n_entries) // 251 + 1))
        data = data[:unit * n_entries - rng.choice((0, 0, 0, 1, unit))]
        # sometimes the stream believes in more sectors than the list has
        lie = rng.choice((0, 0, 0, 1, 2))
        ops = []
        for _ in range(rng.randint(1, 8)):
            if rng.random() < 0.6:
                ops.append(("read", rng.choice(
                    (0, 1, unit - 1, unit, unit + 1, 3 * unit, None,
                     rng.randint(0, unit * (len(chain) + 2))))))
            else:
                ops.append(("seek",
                            rng.randint(-unit, unit * (len(chain) + 2)),
                            rng.choice((0, 1, 2))))

        def script(stream):
            stream.end_of_file += lie * unit
            out = []
            for op in ops:
                if op[0] == "read":
                    out.append(stream.read(op[1]))
                else:
                    out.append(stream.seek(op[1], op[2]))
            return out

        compare((new_cls.__name__, chain, lie, ops),
                new_cls(RecordingParent(data), list(path)),
                old_cls(RecordingParent(data), list(path)),
                script, extra=lambda s: s.substream.trace)


def main():
    direct_calls()
    callers_small()
    rng = random.Random(101010)
    sessions(rng, Segment, OriginalSegment, SegmentAllocationTable,
             AKAI_SECTOR_SIZE, 200)
    sessions(rng, RolandFile, OriginalRolandFile, RolandFileAllocationTable,
             ROLAND_CLUSTER_SIZE, 200)
    print(f"checked {checked} cases, {bad} mismatches")
    return 1 if bad else 0


if __name__ == "__main__":
    sys.exit(main())
