"""Equivalence demo for r7: SampleEntryAdapter._decode_element
(smpl_extract/roland/s7xx/sample_entry.py) - the `if A and B: fat = ... else:
raise` became a De-Morgan guard clause and `cluster_offset=` is now passed
positionally to fat.get_file.

Compares the working tree's method against an inline copy of the ORIGINAL on
many contexts (with/without "_", with/without "fat", dict and construct
Container), many FAT layouts (random cluster chains, cluster_top offsets incl.
0, == len, > len, broken chains) and checks the bytes of the resulting stream
against an independent model.  Exit 0 when all agree, 1 otherwise.
"""
import io
import random
import sys
from typing import cast

from construct.lib.containers import Container

from smpl_extract.midi import MidiNote
from smpl_extract.roland.s7xx.data_types import ROLAND_CLUSTER_SIZE
from smpl_extract.roland.s7xx.data_types import RolandLoopMode
from smpl_extract.roland.s7xx.data_types import RolandSampleMode
from smpl_extract.roland.s7xx.fat import RolandFileAllocationTable
from smpl_extract.roland.s7xx.sample_entry import SampleEntry
from smpl_extract.roland.s7xx.sample_entry import SampleEntryAdapter
from smpl_extract.roland.s7xx.sample_entry import SampleParamCommon
from smpl_extract.roland.s7xx.sample_entry import SampleParamLoopPoint
from smpl_extract.roland.s7xx.sample_entry import SampleParamOptionsSection
from smpl_extract.util.constructs import ChildInfo
from smpl_extract.util.dataclass import get_common_field_args
from smpl_extract.util.fat import FatNotPresent
from smpl_extract.util.fat import SectorLink
from construct.core import Pass


# ---------------------------------------------------------------- original --
def original_decode_element(self, obj, child_info, context, path):
    del path  # unused

    container = obj

    parent = child_info.parent
    element_path = child_info.parent_path
    if "_" in context.keys() and "fat" in context["_"].keys():
        fat = cast(RolandFileAllocationTable, context["_"]["fat"])
    else:
        raise FatNotPresent

    name = container.directory.name
    sample_path = element_path + [name]

    data_stream = fat.get_file(
        container.directory.fat_entry,
        cluster_offset=container.parameter.cluster_top
    )

    common_args = get_common_field_args(
        SampleParamCommon,
        container.parameter
    )
    options_args = get_common_field_args(
        SampleParamOptionsSection,
        container.parameter.sample_options
    )

    result = SampleEntry(
        **common_args,
        **options_args,
        directory_name=container.directory.name,
        parameter_name=container.parameter.name,
        index=container.index,
        _data_stream=data_stream,
        _parent=parent,
        _path=sample_path
    )
    return result


# ----------------------------------------------------------------- fixtures --
N_CLUSTERS = 24


def make_partition(rnd):
    """Every cluster filled with a recognisable pattern."""
    data = bytearray()
    for c in range(N_CLUSTERS):
        data += bytes(((c * 7 + i) & 0xFF) for i in range(ROLAND_CLUSTER_SIZE))
    return bytes(data)


def make_fat(partition, chain, broken=None):
    links = [SectorLink() for _ in range(N_CLUSTERS + 8)]
    for a, b in zip(chain, chain[1:]):
        links[a] = SectorLink(next=b, end=False)
    if chain:
        links[chain[-1]] = SectorLink(next=0, end=True)
    size = len(links)
    if broken == "loop" and chain:
        links[chain[-1]] = SectorLink(next=chain[0], end=False)
    if broken == "tiny_size":
        size = 1
    return RolandFileAllocationTable(io.BytesIO(partition), size, links)


class RecordingFat:
    """Same signature as RolandFileAllocationTable.get_file."""

    def __init__(self):
        self.calls = []

    def get_file(self, index, cluster_offset=0):
        self.calls.append((index, cluster_offset))
        return io.BytesIO(b"%d/%d" % (index, cluster_offset))


def make_container(rnd, fat_entry, cluster_top, idx, as_container):
    from types import SimpleNamespace
    kind = Container if as_container else SimpleNamespace
    directory = kind(
        name="SMP%04d" % idx, index=idx, fat_entry=fat_entry,
        num_clusters=rnd.randrange(1, 9),
    )
    options = kind(
        sample_mode=rnd.choice(list(RolandSampleMode)),
        sampling_frequency=rnd.choice([48000, 44100, 24000, 22050, 30000,
                                       15000]),
    )
    parameter = kind(
        name="smp%04d" % idx,
        index=idx,
        sustain_loop_enable=rnd.randrange(2),
        sustain_loop_tune=rnd.randrange(256),
        release_loop_tune=rnd.randrange(256),
        original_key=MidiNote.from_midi_byte(rnd.randrange(21, 109)),
        loop_mode=rnd.choice(list(RolandLoopMode)),
        start_sample=SampleParamLoopPoint(0, rnd.randrange(100)),
        sustain_loop_start=SampleParamLoopPoint(1, rnd.randrange(1000)),
        sustain_loop_end=SampleParamLoopPoint(2, rnd.randrange(1000)),
        release_loop_start=SampleParamLoopPoint(3, rnd.randrange(1000)),
        release_loop_end=SampleParamLoopPoint(4, rnd.randrange(1000)),
        cluster_top=cluster_top,
        num_clusters=rnd.randrange(1, 9),
        sample_options=options,
    )
    return kind(index=idx, directory=directory, parameter=parameter)


def read_stream(stream):
    try:
        stream.seek(0, io.SEEK_SET)
        out = b""
        while True:
            chunk = stream.read(5000)
            if not chunk:
                return ("data", out)
            out += chunk
            if len(out) > 40 * ROLAND_CLUSTER_SIZE:
                return ("runaway", len(out))
    except BaseException as e:  # noqa
        return ("read-exc", type(e).__name__)


def describe(entry: SampleEntry):
    d = dict(vars(entry))
    stream = d.pop("_data_stream")
    d["stream_type"] = type(stream).__name__
    d["sector_list"] = getattr(stream, "sector_list", None)
    d["stream"] = read_stream(stream)
    d["type"] = type(entry).__name__
    return d


def run(f, adapter, obj, child_info, context):
    def keys_of(c):
        return repr(sorted(c.keys())) if hasattr(c, "keys") else None
    before = keys_of(context)
    try:
        res = ("ok", describe(f(adapter, obj, child_info, context, "p")))
    except BaseException as e:  # noqa
        res = ("exc", type(e).__name__, str(e))
    return res, before, keys_of(context)


def main() -> int:
    rnd = random.Random(7)
    partition = make_partition(rnd)
    adapter = SampleEntryAdapter(Pass)
    new_f = SampleEntryAdapter._decode_element
    old_f = original_decode_element
    failures = 0
    checked = 0
    n_ok = 0

    parent = object()
    child_info = ChildInfo(parent=parent, parent_path=["VOL", "PERF", "PATCH",
                                                      "PART"],
                           next_path=["x"], routines={}, name=None)

    # 1. contexts without a usable fat --------------------------------------
    class NoKeys:
        pass
    bad_contexts = [
        lambda: {},
        lambda: {"fat": "top-level fat is not looked at"},
        lambda: {"_": {}},
        lambda: {"_": {"FAT": 1}},
        lambda: Container(),
        lambda: Container(_=Container()),
        lambda: Container(_=Container(_=Container(fat=1))),
        lambda: {"_": NoKeys()},      # AttributeError from .keys()
        lambda: {"_": None},
        lambda: NoKeys(),
    ]
    for make_ctx in bad_contexts:
        obj = make_container(rnd, 3, 0, 1, True)
        a = run(new_f, adapter, obj, child_info, make_ctx())
        b = run(old_f, adapter, obj, child_info, make_ctx())
        checked += 1
        if a != b or a[0][0] != "exc":
            failures += 1
            print("MISMATCH bad context", a, b)

    # 2. real FATs, random chains -------------------------------------------
    for case in range(400):
        length = rnd.choice([1, 1, 2, 3, 5, 8, 13])
        chain = rnd.sample(range(2, N_CLUSTERS), length)
        cluster_top = rnd.choice(
            [0, 0, 1, 2, length - 1, length, length + 1, 50, -1, -3])
        broken = rnd.choice([None] * 8 + ["loop", "tiny_size"])
        start = rnd.choice([chain[0]] * 9 + [N_CLUSTERS + 100])
        as_container = bool(case % 2)
        seed = rnd.randrange(1 << 30)

        results = []
        for f in (new_f, old_f):
            r2 = random.Random(seed)
            obj = make_container(r2, start, cluster_top, case, as_container)
            fat = make_fat(partition, chain, broken)
            if case % 3 == 0:
                ctx = {"_": {"fat": fat, "other": 1}, "x": 2}
            else:
                ctx = Container(_=Container(fat=fat, _dir_version=2), x=2)
            results.append(run(f, adapter, obj, child_info, ctx))
        checked += 1
        if results[0] != results[1]:
            failures += 1
            print("MISMATCH fat case", case, chain, cluster_top, broken)
            continue
        res = results[0][0]
        if res[0] == "ok":
            n_ok += 1
            if broken is None and start == chain[0]:
                exp_chain = chain[cluster_top:] if cluster_top > 0 else chain
                exp = b"".join(
                    partition[c * ROLAND_CLUSTER_SIZE:
                              (c + 1) * ROLAND_CLUSTER_SIZE]
                    for c in exp_chain
                )
                d = res[1]
                # (an empty chain gives a stream whose read raises
                #  SectorReadError in both versions - only compared new/old)
                if d["sector_list"] != exp_chain or (
                        exp_chain and d["stream"] != ("data", exp)):
                    failures += 1
                    print("MISMATCH vs model", case, chain, cluster_top)
                if (d["_parent"] is not parent or d["_path"] !=
                        ["VOL", "PERF", "PATCH", "PART", "SMP%04d" % case]
                        or d["index"] != case
                        or d["directory_name"] != "SMP%04d" % case
                        or d["parameter_name"] != "smp%04d" % case):
                    failures += 1
                    print("MISMATCH meta", case)

    # 3. recording fat: exact arguments handed to get_file ------------------
    for case in range(100):
        fat_entry = rnd.randrange(0, 65536)
        cluster_top = rnd.randrange(0, 40)
        seed = rnd.randrange(1 << 30)
        calls = []
        results = []
        for f in (new_f, old_f):
            fat = RecordingFat()
            obj = make_container(random.Random(seed), fat_entry, cluster_top,
                                 case, True)
            results.append(run(f, adapter, obj, child_info,
                               Container(_=Container(fat=fat))))
            calls.append(fat.calls)
        checked += 1
        if (results[0] != results[1] or calls[0] != calls[1]
                or calls[0] != [(fat_entry, cluster_top)]):
            failures += 1
            print("MISMATCH recording", case, calls)

    # 4. malformed container: same exception, fat check still comes first ---
    for make_ctx, label in ((lambda: {}, "nofat"),
                            (lambda: {"_": {"fat": RecordingFat()}}, "fat")):
        for obj in (Container(), Container(directory=Container(name="x")),
                    Container(directory=Container(name="x", fat_entry=1),
                              parameter=Container())):
            a = run(new_f, adapter, obj, child_info, make_ctx())
            b = run(old_f, adapter, obj, child_info, make_ctx())
            checked += 1
            if a != b or a[0][0] != "exc":
                failures += 1
                print("MISMATCH malformed", label, a, b)

    print("checked %d cases (%d returned a SampleEntry), %d failures"
          % (checked, n_ok, failures))
    if n_ok < 250:
        print("too few successful decodes - demo is not exercising the code")
        return 1
    return 1 if failures else 0


if __name__ == "__main__":
    sys.exit(main())
