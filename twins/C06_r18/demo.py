"""Equivalence demo for Element.path / Element.parent (C06, r18).

The live properties are compared against inline copies of the ORIGINAL bodies
on
 * elements with the attributes set by Element.__init__, set to odd values
   (None, empty, tuples, falsy objects), deleted, never set (object created
   with __new__), supplied as class attributes (Image, dataclass elements),
   supplied as properties that return, raise AttributeError (=> "absent") or
   raise something else (must propagate), and supplied through a logging
   __getattr__ (the sequence of attribute look-ups must be the same);
 * random element trees on which the live Element.export_path() (the path
   assembly the properties feed) is compared against an inline copy of the
   original export_path driven by the original properties, followed by
   ExportManager.make_output_path.
A fresh list must be returned for an absent _path on every call (identity is
checked).  Exit status 0 when everything agrees, 1 otherwise.
"""
import random
import sys

from smpl_extract.base import Element
from smpl_extract.cdda.image import CompactDiskAudioImage
from smpl_extract.generalized.sample import Sample
from smpl_extract.structural import ExportManager
from smpl_extract.structural import Image
from smpl_extract.structural import Traversable


# --------------------------------------------------------------------------
# ORIGINAL implementation (verbatim bodies)
# --------------------------------------------------------------------------
def original_path(self):
    if hasattr(self, "_path"):
        result = self._path
    else:
        result = []
    return result


def original_parent(self):
    if hasattr(self, "_parent"):
        result = self._parent
    else:
        result = None
    return result


def original_export_path(self):
    current_path = original_path(self)
    if len(current_path) <= 0:
        return []
    new_path = []
    current_node = self
    while current_node is not None and len(original_path(current_node)) > 0:
        new_path = [current_node.export_name] + new_path
        current_node = original_parent(current_node)
    return new_path


LIVE_PATH = Element.__dict__["path"].fget
LIVE_PARENT = Element.__dict__["parent"].fget

FAILURES = []
COUNT = [0]


def check(label, left, right):
    COUNT[0] += 1
    if left != right:
        FAILURES.append(label)
        print("MISMATCH", label)
        print("   original:", repr(left)[:400])
        print("   live    :", repr(right)[:400])


def outcome(func, obj):
    try:
        value = func(obj)
    except BaseException as error:  # noqa
        return ("exc", type(error).__name__, str(error))
    return ("ok", repr(value), type(value).__name__, id(value))


class Plain(Element):
    name = "plain"
    type_name = "plain"

    def get_info(self):
        raise NotImplementedError


class Falsy:
    def __bool__(self):
        return False

    def __len__(self):
        return 0

    def __repr__(self):
        return "<Falsy>"


class Unrelated(Exception):
    pass


def with_property(kind):
    class Prop(Plain):
        log = []

        def __init__(self):
            pass

        @property
        def _path(self):
            self.log.append("_path")
            if kind == "attr":
                raise AttributeError("hidden")
            if kind == "other":
                raise Unrelated("boom path")
            if kind == "flip":
                # present on the first look-up, a value on the second
                return ["n%d" % len(self.log)]
            return ["via", "property"]

        @property
        def _parent(self):
            self.log.append("_parent")
            if kind == "attr":
                raise AttributeError("hidden")
            if kind == "other":
                raise Unrelated("boom parent")
            if kind == "flip":
                return "p%d" % len(self.log)
            return None
    return Prop


class Logging(Plain):
    """Attributes come from __getattr__, which logs each look-up."""
    def __init__(self, table):
        object.__setattr__(self, "table", table)
        object.__setattr__(self, "log", [])

    def __getattr__(self, item):
        self.log.append(item)
        if item in self.table:
            value = self.table[item]
            if isinstance(value, type) and issubclass(value, BaseException):
                raise value(item)
            return value
        raise AttributeError(item)


def part_one():
    shared = ["a", "b"]
    objects = []

    for value in (None, [], ["x"], shared, ("t",), "", "str", 0, Falsy()):
        node = Plain(path=value if isinstance(value, list) else None)
        node._path = value
        node._parent = value
        objects.append(("set %r" % (value,), node))

    objects.append(("init default", Plain()))
    objects.append(("init args", Plain(["q", "r"], Plain(["q"]))))

    bare = Plain.__new__(Plain)
    objects.append(("bare", bare))

    deleted = Plain(["d"])
    del deleted._path
    objects.append(("deleted path", deleted))
    deleted2 = Plain(["d"], Plain())
    del deleted2._parent
    objects.append(("deleted parent", deleted2))

    objects.append(("image classvar", Image(lambda context: [])))
    objects.append(("image bare", Image.__new__(Image)))
    objects.append(("cdda image", CompactDiskAudioImage()))
    objects.append(("sample default", Sample(name="s")))
    objects.append(("sample set", Sample(name="s", _path=["A", "s"], _parent=Plain(["A"]))))
    objects.append(("traversable", Traversable(lambda c: [], path=["A", "B"], parent=Plain(["A"]))))

    for label, obj in objects:
        for name, original, live in (
            ("path", original_path, LIVE_PATH),
            ("parent", original_parent, LIVE_PARENT),
        ):
            left = outcome(original, obj)
            right = outcome(live, obj)
            present = hasattr(obj, "_" + name)
            if present:
                # the very same stored object has to come back
                check(f"p1 {label} {name}", left, right)
            else:
                # fresh default each time: compare without the identity
                check(f"p1 {label} {name}", left[:3], right[:3])
                if name == "path":
                    first = live(obj)
                    second = live(obj)
                    check(f"p1 {label} fresh list", (first is second, first), (False, []))
            # through the property object too
            check(
                f"p1 {label} {name} attr",
                outcome(lambda o: getattr(o, name), obj)[:3],
                left[:3]
            )

    for kind in ("attr", "other", "flip", "plain"):
        for name, original, live in (
            ("path", original_path, LIVE_PATH),
            ("parent", original_parent, LIVE_PARENT),
        ):
            cls_a = with_property(kind)
            cls_b = with_property(kind)
            left = outcome(original, cls_a())[:3]
            right = outcome(live, cls_b())[:3]
            check(f"p1 property {kind} {name}", (left, cls_a.log), (right, cls_b.log))

    tables = [
        {}, {"_path": ["g"]}, {"_parent": "P"}, {"_path": [], "_parent": None},
        {"_path": Unrelated, "_parent": Unrelated},
        {"_path": AttributeError, "_parent": AttributeError},
        {"_path": KeyError}, {"_parent": StopIteration},
    ]
    for index, table in enumerate(tables):
        for name, original, live in (
            ("path", original_path, LIVE_PATH),
            ("parent", original_parent, LIVE_PARENT),
        ):
            obj_a = Logging(table)
            obj_b = Logging(table)
            left = outcome(original, obj_a)[:3]
            right = outcome(live, obj_b)[:3]
            check(f"p1 logging {index} {name}", (left, obj_a.log), (right, obj_b.log))


# --------------------------------------------------------------------------
# part two: export_path / make_output_path on random trees
# --------------------------------------------------------------------------
NAMES = ["A", "VOL 1", "KICK", "KICK (2)", "SN L", "0.0", "a b", "x", "träck", "0"]


def build_chain(rng):
    """Return the leaf of a random ancestor chain."""
    depth = rng.randint(0, 5)
    parent = None
    path = []
    node = None
    for level in range(depth + 1):
        name = rng.choice(NAMES)
        style = rng.choice([
            "init", "init", "init", "sample", "sample",
            "bare", "nopath", "noparent", "image"
        ])
        new_path = path + [name]
        if style == "init":
            node = Plain(new_path, parent)
        elif style == "bare":
            node = Plain.__new__(Plain)
        elif style == "nopath":
            node = Plain(new_path, parent)
            del node._path
        elif style == "noparent":
            node = Plain(new_path, parent)
            del node._parent
        elif style == "sample":
            node = Sample(name=name, _path=new_path, _parent=parent)
        else:
            node = Image(lambda context: [])
        if style not in ("sample", "image"):
            node.name = name
        if style == "image":
            node.name = name
        if rng.random() < 0.4 and style != "bare":
            node._export_name = rng.choice(NAMES) + "!"
        if rng.random() < 0.1:
            node._path = rng.choice([[], [name], new_path + ["extra"]])
        parent = node
        path = new_path
    return node


def part_two():
    rng = random.Random(1806)
    manager = ExportManager("dest")
    for trial in range(4000):
        leaf = build_chain(rng)
        try:
            left = ("ok", original_export_path(leaf))
        except BaseException as error:  # noqa
            left = ("exc", type(error).__name__, str(error))
        try:
            right = ("ok", leaf.export_path())
        except BaseException as error:  # noqa
            right = ("exc", type(error).__name__, str(error))
        check(f"p2 export_path {trial}", left, right)
        if left[0] == "ok":
            try:
                assembled = manager.make_output_path(leaf)
            except BaseException as error:  # noqa
                assembled = ("exc", type(error).__name__, str(error))
            check(f"p2 make_output_path {trial}", "/".join(left[1]), assembled)


def main():
    part_one()
    part_two()
    if FAILURES:
        print(f"{len(FAILURES)} of {COUNT[0]} checks differ")
        return 1
    print(f"all {COUNT[0]} checks agree")
    return 0


if __name__ == "__main__":
    sys.exit(main())
