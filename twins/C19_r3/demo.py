"""Equivalence demo for refactoring r3 (circular-buffer IIR code in smpl_extract/filters/iir.pyx:
push_double_cbuffer, inner_prod_double_cbuffer, fill_arr_double_cbuffer, _c_process,
_c_chickensys_process).

The functions are `cdef`/typed Cython, shipped as a pre-built extension (the .pyx text is
not live).  The demo therefore contains two line-by-line pure-Python transliterations of
that code - ORIG (statements exactly as in the original text) and NEW (statements as in the
refactored text: `a -= b` -> `a = a - b`, `a += b` -> `a = a + b`, backslash continuation
-> parenthesised expression) - and drives both, plus the compiled extension, through the
same IirFilter / ChickSysCustomIirFilter wrappers over many signals and block splits.
Python floats are IEEE doubles like the C doubles, so the comparison is bit-exact:
outputs (dtype, shape, bytes) and the saved state x_prev / y_prev after every call.
Exit 0 = everything agrees, 1 otherwise.
"""
import math
import random
import sys

import numpy as np

import smpl_extract.filters.iir as ciir
from smpl_extract.filters import common


# ====================================================================== ORIG ==
class O_cbuffer:
    __slots__ = ("arr", "N", "cur_pos")


def O_init(cbuffer, x, N):
    num_x = len(x)
    if N < num_x:
        N = num_x
    arr = [None] * N
    cbuffer.N = N
    cbuffer.arr = arr
    for i in range(num_x):
        cbuffer.arr[i] = float(x[i])
    for i in range(num_x, N):
        cbuffer.arr[i] = 0.0
    cbuffer.cur_pos = 0


def O_push(cbuffer, a):
    if cbuffer.cur_pos == 0:
        cbuffer.cur_pos = cbuffer.N - 1
    else:
        cbuffer.cur_pos -= 1

    cbuffer.arr[cbuffer.cur_pos] = a


def O_inner_prod(cbuffer, A):
    num_A = len(A)
    buffer_index = cbuffer.cur_pos
    y = 0.0
    for i in range(num_A):
        y += A[i] * cbuffer.arr[buffer_index]
        buffer_index += 1
        if buffer_index >= cbuffer.N:
            buffer_index = 0
    return y


def O_fill_arr(cbuffer, y):
    num_y = len(y)
    assert cbuffer.N >= num_y
    buffer_index = cbuffer.cur_pos
    for i in range(num_y):
        y[i] = cbuffer.arr[buffer_index]
        buffer_index += 1
        if buffer_index >= cbuffer.N:
            buffer_index = 0


def O_c_process(x, y, B, A, x_prev, y_prev):
    num_x = len(x)
    num_y = len(y)
    assert len(A) > 0
    assert len(B) > 0
    assert num_x == num_y
    x_window = O_cbuffer()
    O_init(x_window, x_prev, len(x_prev) + 1)
    y_window = O_cbuffer()
    O_init(y_window, y_prev, len(y_prev))
    A_true = A[1:]
    k_gain = A[0]
    y_cur = 0.0
    assert k_gain != 0.0
    assert x_window.N == len(B)
    assert y_window.N == len(A_true)
    for i in range(num_x):
        O_push(x_window, x[i])
        y_cur = O_inner_prod(x_window, B) \
            - O_inner_prod(y_window, A_true)
        y_cur /= k_gain

        O_push(y_window, y_cur)
        y[i] = y_cur
    O_fill_arr(x_window, x_prev)
    O_fill_arr(y_window, y_prev)


def c_fix_int(x):
    return int(math.trunc(x))


def c_bound(x):
    result = x
    if x > 32767.0:
        result = 32767.0
    elif x < -32767.0:
        result = -32767.0
    return result


def O_c_chickensys_process(x, y, B, A, x_prev, y_prev):
    num_x = len(x)
    num_y = len(y)
    assert len(A) > 0
    assert len(B) > 0
    assert num_x == num_y
    x_window = O_cbuffer()
    O_init(x_window, x_prev, len(x_prev) + 1)
    y_window = O_cbuffer()
    O_init(y_window, y_prev, len(y_prev))
    A_true = A[1:]
    k_gain = A[0]
    assert k_gain != 0.0
    assert x_window.N == len(B)
    assert y_window.N == len(A_true)
    for i in range(num_x):
        x_cur = float(x[i])
        O_push(x_window, x_cur)
        y_cur = O_inner_prod(x_window, B) \
            - O_inner_prod(y_window, A_true)
        y_cur /= k_gain

        y_cur = c_bound(y_cur)
        O_push(y_window, y_cur)

        y_final = c_fix_int(y_cur)
        y[i] = y_final
    O_fill_arr(x_window, x_prev)
    O_fill_arr(y_window, y_prev)


# ======================================================================= NEW ==
def N_push(cbuffer, a):
    if cbuffer.cur_pos == 0:
        cbuffer.cur_pos = cbuffer.N - 1
    else:
        cbuffer.cur_pos = cbuffer.cur_pos - 1

    cbuffer.arr[cbuffer.cur_pos] = a


def N_inner_prod(cbuffer, A):
    num_A = len(A)
    buffer_index = cbuffer.cur_pos
    y = 0.0
    for i in range(num_A):
        y = y + A[i] * cbuffer.arr[buffer_index]
        buffer_index = buffer_index + 1
        if buffer_index >= cbuffer.N:
            buffer_index = 0
    return y


def N_fill_arr(cbuffer, y):
    num_y = len(y)
    assert cbuffer.N >= num_y
    buffer_index = cbuffer.cur_pos
    for i in range(num_y):
        y[i] = cbuffer.arr[buffer_index]
        buffer_index = buffer_index + 1
        if buffer_index >= cbuffer.N:
            buffer_index = 0


def N_c_process(x, y, B, A, x_prev, y_prev):
    num_x = len(x)
    num_y = len(y)
    assert len(A) > 0
    assert len(B) > 0
    assert num_x == num_y
    x_window = O_cbuffer()
    O_init(x_window, x_prev, len(x_prev) + 1)
    y_window = O_cbuffer()
    O_init(y_window, y_prev, len(y_prev))
    A_true = A[1:]
    k_gain = A[0]
    y_cur = 0.0
    assert k_gain != 0.0
    assert x_window.N == len(B)
    assert y_window.N == len(A_true)
    for i in range(num_x):
        N_push(x_window, x[i])
        y_cur = (
            N_inner_prod(x_window, B)
            - N_inner_prod(y_window, A_true)
        )
        y_cur = y_cur / k_gain

        N_push(y_window, y_cur)
        y[i] = y_cur
    N_fill_arr(x_window, x_prev)
    N_fill_arr(y_window, y_prev)


def N_c_chickensys_process(x, y, B, A, x_prev, y_prev):
    num_x = len(x)
    num_y = len(y)
    assert len(A) > 0
    assert len(B) > 0
    assert num_x == num_y
    x_window = O_cbuffer()
    O_init(x_window, x_prev, len(x_prev) + 1)
    y_window = O_cbuffer()
    O_init(y_window, y_prev, len(y_prev))
    A_true = A[1:]
    k_gain = A[0]
    assert k_gain != 0.0
    assert x_window.N == len(B)
    assert y_window.N == len(A_true)
    for i in range(num_x):
        x_cur = float(x[i])
        N_push(x_window, x_cur)
        y_cur = (
            N_inner_prod(x_window, B)
            - N_inner_prod(y_window, A_true)
        )
        y_cur = y_cur / k_gain

        y_cur = c_bound(y_cur)
        N_push(y_window, y_cur)

        y_final = c_fix_int(y_cur)
        y[i] = y_final
    N_fill_arr(x_window, x_prev)
    N_fill_arr(y_window, y_prev)


# ================================================================== wrappers ==
def _tolist(a):
    return [float(v) for v in a]


def make_iir(kernel):
    """IirFilter whose process() runs `kernel` (a python port) instead of the C code."""
    class PortIir(ciir.IirFilter):
        def process(self, x):
            x = x.astype(dtype=np.float64)
            y = np.zeros((x.size,)).astype(np.float64)
            B, A = _tolist(self.B), _tolist(self.A)
            kernel(_tolist(x), y, B, A, self.x_prev, self.y_prev)
            return y
    return PortIir


def make_chick(kernel):
    class PortChick(ciir.ChickSysCustomIirFilter):
        def process(self, x):
            y = np.zeros((x.size,)).astype(np.int16)
            B, A = _tolist(self.B), _tolist(self.A)
            kernel([int(v) for v in x], y, B, A, self.x_prev, self.y_prev)
            y = y.astype(np.int16)
            return y
    return PortChick


IIR_IMPLS = [ciir.IirFilter, make_iir(O_c_process), make_iir(N_c_process)]
CHICK_IMPLS = [ciir.ChickSysCustomIirFilter, make_chick(O_c_chickensys_process),
               make_chick(N_c_chickensys_process)]


def snap(a):
    a = np.asarray(a)
    return (str(a.dtype), a.shape, a.tobytes())


def run(cls, args, blocks, reset_mid=False):
    f = cls(*args)
    trace = [("s0", snap(f.x_prev), snap(f.y_prev))]
    for i, b in enumerate(blocks):
        y = f.process(b.copy())
        trace.append(("y", snap(y), snap(f.x_prev), snap(f.y_prev)))
        if reset_mid and i == 0:
            f.reset_state()
            trace.append(("reset", snap(f.x_prev), snap(f.y_prev)))
    r = f.get_remaining()
    trace.append(("rem", snap(r), snap(f.x_prev), snap(f.y_prev)))
    return trace


CASES = 0
FAIL = 0


def check(impls, args, blocks, **kw):
    global CASES, FAIL
    CASES += 1
    traces = [run(c, args, blocks, **kw) for c in impls]
    if not all(t == traces[0] for t in traces[1:]):
        FAIL += 1
        if FAIL <= 5:
            print("MISMATCH", args, [b.tolist() for b in blocks], kw)


def compositions(n):
    for mask in range(1 << max(0, n - 1)):
        parts, start = [], 0
        for i in range(1, n):
            if mask & (1 << (i - 1)):
                parts.append((start, i))
                start = i
        parts.append((start, n))
        yield parts


def random_split(rnd, x):
    n = len(x)
    cuts = sorted(set(rnd.randint(1, n) for _ in range(rnd.randint(0, 8))) | {n})
    blocks, s = [], 0
    for c in cuts:
        blocks.append(x[s:c])
        s = c
    return blocks


PRESETS = [(0.5923, 0.1516, 0.2560), (0.7071, 0.1213, 0.1716),
           (1.0 * 22082 / 32767, 1.0 * 4967 / 32767, 1.0 * 8411 / 32767)]


def main():
    global CASES, FAIL
    rnd = random.Random(1919)

    # 1. exhaustive splits of short signals: generic IIR (random orders) and presets
    for nb in (1, 2, 3, 4):
        for na in (2, 3, 4):           # len(A) >= 2 (len(A) == 1 is out of contract in C)
            B = np.asarray([rnd.uniform(-1, 1) for _ in range(nb)])
            A = np.asarray([rnd.choice([1.0, 0.5, -2.0, 3.7])] +
                           [rnd.uniform(-0.6, 0.6) for _ in range(na - 1)])
            for n in range(1, 8):
                x = np.asarray([rnd.randint(-32768, 32767) for _ in range(n)], dtype=np.int16)
                xf = np.asarray([rnd.uniform(-1e3, 1e3) for _ in range(n)])
                for parts in compositions(n):
                    check(IIR_IMPLS, (B, A), [x[a:b] for a, b in parts])
                    check(IIR_IMPLS, (B, A), [xf[a:b] for a, b in parts])
    for coeffs in PRESETS:
        for n in range(1, 9):
            for vals in ([rnd.randint(-32768, 32767) for _ in range(n)],
                         [rnd.choice([-32768, 32767]) for _ in range(n)],
                         [32767] * n, [-32768] * n):
                x = np.asarray(vals, dtype=np.int16)
                for parts in compositions(n):
                    check(CHICK_IMPLS, (coeffs,), [x[a:b] for a, b in parts])

    # 2. empty blocks and reset in the middle
    for coeffs in PRESETS:
        x = np.asarray([rnd.randint(-32768, 32767) for _ in range(9)], dtype=np.int16)
        e = x[:0]
        for blocks in ([e], [e, x], [x[:3], e, x[3:]], [x, e]):
            check(CHICK_IMPLS, (coeffs,), blocks)
            check(CHICK_IMPLS, (coeffs,), blocks, reset_mid=True)
            B = np.asarray([0.3, -0.2, 0.1])
            A = np.asarray([2.0, -0.4, 0.25])
            check(IIR_IMPLS, (B, A), blocks)
            check(IIR_IMPLS, (B, A), blocks, reset_mid=True)

    # 3. long random / extreme signals, random splits; saturating coefficients too
    for _ in range(150):
        n = rnd.randint(1, 300)
        if rnd.random() < 0.5:
            vals = [rnd.randint(-32768, 32767) for _ in range(n)]
        else:
            vals = [rnd.choice([-32768, 32767, 32766, -32767, 0]) for _ in range(n)]
        x = np.asarray(vals, dtype=np.int16)
        blocks = random_split(rnd, x)
        for coeffs in PRESETS:
            check(CHICK_IMPLS, (coeffs,), blocks)
        # gain > 1 so that the bound is hit
        check(CHICK_IMPLS, ((rnd.uniform(0.5, 2.0), rnd.uniform(0.1, 1.5), rnd.uniform(0.1, 0.9)),),
              blocks)
        nb, na = rnd.randint(1, 6), rnd.randint(2, 6)
        B = np.asarray([rnd.uniform(-1, 1) for _ in range(nb)])
        A = np.asarray([rnd.uniform(0.5, 2.0)] + [rnd.uniform(-0.3, 0.3) for _ in range(na - 1)])
        check(IIR_IMPLS, (B, A), blocks)

    # 4. the real preset classes of common.py versus ports built from the same coefficients
    for cls, coeffs in zip((common.ChickSysStandardDeemphFilter, common.ChickSysDarkerDeemphFilter,
                            common.ChickSysSpecialDeemphFilter), PRESETS):
        for _ in range(30):
            n = rnd.randint(1, 200)
            x = np.asarray([rnd.randint(-32768, 32767) for _ in range(n)], dtype=np.int16)
            blocks = random_split(rnd, x)
            CASES += 1
            a = run(cls, (), blocks)
            b = run(CHICK_IMPLS[1], (coeffs,), blocks)
            c = run(CHICK_IMPLS[2], (coeffs,), blocks)
            if not (a == b == c):
                FAIL += 1
                print("MISMATCH preset", cls.__name__)

    print("cases:", CASES, "failures:", FAIL)
    return 1 if FAIL else 0


if __name__ == "__main__":
    sys.exit(main())
