"""Equivalence demo for r8: transcoder.pad_channels (append loop rewritten as a
list comprehension with a conditional expression) versus an inline copy of the
ORIGINAL implementation; also checks encode_frame end to end.
Exit 0 when all inputs agree, 1 otherwise.
"""
import random
import sys

import numpy as np

from smpl_extract import transcoder
from smpl_extract.transcoder import encode_frame
from smpl_extract.transcoder import pad_channels


def original_pad_channels(channels):
    target_size = max(map(len, channels))
    result_channels = []
    for channel in channels:
        N = target_size - len(channel)
        if N <= 0:
            result_channels.append(channel)
            continue

        padded_channel = np.pad(
            channel,
            (0, N),
            "linear_ramp",
            end_values=(0, 0)
        )
        result_channels.append(padded_channel)
    return result_channels


def original_encode_frame(channels, dest_dtype):
    channels = original_pad_channels(channels)
    channels = list(x.astype(dest_dtype) for x in channels)
    result = np.vstack(channels).reshape((-1,), order='F').tobytes()
    return result


def describe(result, inputs):
    if not isinstance(result, list):
        return ("not-list", repr(result))
    out = []
    for r in result:
        same = next((i for i, c in enumerate(inputs) if c is r), None)
        arr = np.asarray(r)
        out.append((type(r).__name__, same, str(arr.dtype), arr.shape, arr.tobytes()))
    return out


def run(fn, make_input):
    inputs = make_input()
    keep = list(inputs) if isinstance(inputs, (list, tuple)) else []
    before = [np.asarray(c).tobytes() if hasattr(c, "__len__") else None for c in keep]
    try:
        res = fn(inputs)
        outcome = ("ok", describe(res, keep))
    except Exception as e:
        outcome = ("exc", type(e).__name__, str(e))
    after = [np.asarray(c).tobytes() if hasattr(c, "__len__") else None for c in keep]
    return outcome, before == after


def main():
    rng = random.Random(8)
    dtypes = ["int8", "uint8", "int16", ">i2", "uint16", "int32", "int64", "float32", "float64"]
    makers = []

    def arr(seed, n, dt):
        r = np.random.RandomState(seed)
        info_lo, info_hi = -120, 120
        if np.dtype(dt).kind == "u":
            info_lo = 0
        return r.randint(info_lo, info_hi, size=n).astype(dt)

    for i in range(3000):
        k = rng.randint(1, 4)
        same_dtype = rng.random() < 0.7
        dt0 = rng.choice(dtypes)
        lens = [rng.choice([0, 0, 1, 2, 3, 7, 64, 65, 2048]) for _ in range(k)]
        if rng.random() < 0.3:
            lens = [lens[0]] * k                     # equal lengths: nothing padded
        dts = [dt0 if same_dtype else rng.choice(dtypes) for _ in range(k)]
        seeds = [rng.randint(0, 10 ** 6) for _ in range(k)]
        makers.append(lambda lens=lens, dts=dts, seeds=seeds:
                      [arr(s, n, d) for s, n, d in zip(seeds, lens, dts)])
    # stereo pair edge cases: left longer, right longer, one empty
    for a, b in [(5, 3), (3, 5), (0, 4), (4, 0), (0, 0), (1, 1), (4096, 4095)]:
        makers.append(lambda a=a, b=b: [arr(1, a, "int16"), arr(2, b, "int16")])
    # plain python lists, tuples of channels, one-shot iterators
    makers.append(lambda: [[1, 2, 3], [4]])
    makers.append(lambda: [[], [4, 5]])
    makers.append(lambda: (arr(1, 3, "int16"), arr(2, 1, "int16")))
    makers.append(lambda: iter([arr(1, 3, "int16"), arr(2, 1, "int16")]))
    makers.append(lambda: (x for x in [arr(1, 2, "int8")]))
    # 2-D channel (len() is the first axis)
    makers.append(lambda: [np.zeros((2, 2), dtype="int16"), np.ones((4, 2), dtype="int16")])
    # ill-typed inputs: same exception expected
    makers.append(lambda: [])
    makers.append(lambda: ())
    makers.append(lambda: [3, 4])
    makers.append(lambda: [arr(1, 3, "int16"), None])
    makers.append(lambda: None)
    makers.append(lambda: ["abc", "d"])

    bad = 0
    stats = {"ok": 0, "exc": 0}
    for mk in makers:
        got = run(pad_channels, mk)
        exp = run(original_pad_channels, mk)
        stats[got[0][0]] += 1
        if got != exp or not got[1]:
            bad += 1
            if bad < 4:
                print("MISMATCH pad_channels\n got", got[0][:3], "\n exp", exp[0][:3])

    # encode_frame end to end (this is what interleaves L and R into the WAV data)
    enc = 0
    for mk in makers[:1200]:
        for dest in ("int16", "uint8", "int32"):
            enc += 1
            try:
                g = encode_frame(mk(), np.dtype(dest))
                g = ("ok", g)
            except Exception as e:
                g = ("exc", type(e).__name__, str(e))
            try:
                x = original_encode_frame(mk(), np.dtype(dest))
                x = ("ok", x)
            except Exception as e:
                x = ("exc", type(e).__name__, str(e))
            if g != x:
                bad += 1
                if bad < 4:
                    print("MISMATCH encode_frame", dest)

    # fixed expectation so the demo is not vacuous (linear ramp from the last
    # value down to 0, as the original does)
    l = np.array([10, 20, 30, 40], dtype="int16")
    r = np.array([1, 2], dtype="int16")
    out = pad_channels([l, r])
    if out[0] is not l or out[1].tolist() != [1, 2, 1, 0] or out[1].dtype != np.dtype("int16"):
        print("SANITY FAILED", out)
        bad += 1
    if encode_frame([l, r], np.dtype("int16")) != np.array(
            [10, 1, 20, 2, 30, 1, 40, 0], dtype="int16").tobytes():
        print("SANITY FAILED encode")
        bad += 1
    print("pad cases:", len(makers), stats, "encode cases:", enc, "mismatches:", bad)
    return 1 if bad else 0


if __name__ == "__main__":
    sys.exit(main())
