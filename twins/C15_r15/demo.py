"""Equivalence demo for r15: smpl_extract/akai/partition.py PartitionParser.

The anonymous `lambda this: this.header.total_size - ...sizeof() ...` that
gives the length of the volume data area (the `Lazy(Bytes(...))` inside
PartitionParser, which decides how far the image stream is advanced after a
partition header was parsed, i.e. where AkaiImageParser._load_partitions looks
for the next partition header) became the named module-level function
_get_volume_area_size(context).

The demo re-creates the ORIGINAL PartitionParser verbatim
(`PartitionParserOrig`, built from the live PartitionAdapter / header / volume
/ SAT constructs) and compares it with the live one on
  * the length callable itself (dug out of the construct tree) for many
    contexts, including contexts that lack the fields (same exception),
  * sizeof() of the parsers (same error),
  * parse_stream over synthetic AKAI images with 1..4 partitions of various
    sizes, complete, cut at many byte positions (inside the header, the
    volume table, the allocation table, the data area, on sector boundaries),
    with bad magic / zero size / invalid names / active volume entries /
    random garbage: outcome (exception type and text), stream position after
    each partition, partition names / paths / SAT / volumes (or the
    exception realising them), and the exact sequence of seek/tell/read calls
    on the image stream,
  * the same through AkaiImageParser.partitions with the module's
    PartitionParser swapped for the original one.
Exit 0 when everything agrees, 1 otherwise.
"""
from io import BytesIO
from io import SEEK_SET
import random
import sys

from construct.core import Bytes
from construct.core import ConstructError
from construct.core import Int16ul
from construct.core import Lazy
from construct.core import Struct
from construct.expr import this
from construct.lib.containers import Container

from smpl_extract.akai import image as image_mod
from smpl_extract.akai import partition as partition_mod
from smpl_extract.akai.data_types import AKAI_PARTITION_MAGIC
from smpl_extract.akai.data_types import AKAI_SAT_ENTRY_CNT
from smpl_extract.akai.data_types import AKAI_SECTOR_SIZE
from smpl_extract.akai.data_types import AKAI_VOLUME_ENTRY_CNT
from smpl_extract.akai.image import AkaiImageParser
from smpl_extract.akai.partition import PartitionAdapter
from smpl_extract.akai.partition import PartitionHeaderConstruct
from smpl_extract.akai.partition import PartitionParser
from smpl_extract.akai.sat import SegmentAllocationTableAdapter
from smpl_extract.akai.volume import VolumeEntryConstruct
from smpl_extract.akai.volume import VolumesAdapter


# --------------------------------------------------------------------------
# ORIGINAL definition (verbatim copy)
# --------------------------------------------------------------------------
PartitionParserOrig = PartitionAdapter(
    Struct(
        "header" / PartitionHeaderConstruct,
        "volume_entries" / VolumeEntryConstruct[AKAI_VOLUME_ENTRY_CNT],
        "sat" / SegmentAllocationTableAdapter(
            this.header.partition_stream,
            Int16ul[AKAI_SAT_ENTRY_CNT]  # type: ignore
        ),
        "volumes" / Lazy(VolumesAdapter(
            this.volume_entries,
            this.sat,  # type: ignore
            Lazy(Bytes(  # type: ignore
            lambda this: this.header.total_size \
                - PartitionHeaderConstruct.sizeof() \
                - VolumeEntryConstruct[AKAI_VOLUME_ENTRY_CNT].sizeof() \
                - Int16ul[AKAI_SAT_ENTRY_CNT].sizeof()
            )),
        ))
    )
).compile()


# --------------------------------------------------------------------------
failures = 0
checks = 0


def check(cond, what):
    global failures, checks
    checks += 1
    if not cond:
        failures += 1
        if failures <= 20:
            print("MISMATCH:", what)


def outcome(f):
    try:
        return ("ok", f())
    except BaseException as e:  # noqa
        return ("exc", type(e).__name__, str(e))


def length_callable(parser):
    struct = parser.defersubcon.subcon
    volumes = [x for x in struct.subcons if x.name == "volumes"][0]
    #   Renamed -> Lazy -> VolumesAdapter -> Lazy -> Bytes
    return volumes.subcon.subcon.subcon.subcon.length


def test_tree_shape():
    def shape(con, depth=0):
        out = [(depth, type(con).__name__, getattr(con, "name", None))]
        for sub in getattr(con, "subcons", []) or []:
            out += shape(sub, depth + 1)
        sub = getattr(con, "subcon", None)
        if sub is not None:
            out += shape(sub, depth + 1)
        return out

    a = shape(PartitionParserOrig.defersubcon)
    b = shape(PartitionParser.defersubcon)
    check(a == b, "construct tree shape differs")
    check(callable(length_callable(PartitionParser)), "length not callable")


def test_length(rng: random.Random):
    fa = length_callable(PartitionParserOrig)
    fb = length_callable(PartitionParser)
    sizes = list(range(0, 70)) + [127, 128, 129, 255, 256, 1000, 0xFFFF]
    sizes += [rng.randint(0, 0xFFFF) for _ in range(300)]
    for size in sizes:
        ctx = Container(header=Container(
            size=size, total_size=size * AKAI_SECTOR_SIZE
        ))
        ra = outcome(lambda: fa(ctx))
        rb = outcome(lambda: fb(ctx))
        check(ra == rb and ra[0] == "ok", f"length size={size}: {ra} {rb}")
    odd = [
        Container(),
        Container(header=Container()),
        Container(header=None),
        Container(header=Container(total_size=None)),
        Container(header=Container(total_size="x")),
        Container(header=Container(total_size=1.5)),
        Container(header=Container(total_size=-5)),
        {"header": {"total_size": 5}},
        None,
    ]
    for i, ctx in enumerate(odd):
        ra = outcome(lambda: fa(ctx))
        rb = outcome(lambda: fb(ctx))
        check(ra == rb, f"length odd ctx {i}: {ra} != {rb}")
    ra = outcome(lambda: PartitionParserOrig.sizeof())
    rb = outcome(lambda: PartitionParser.sizeof())
    check(ra == rb, f"sizeof: {ra} != {rb}")


class LoggedFile:
    def __init__(self, data, log):
        self.inner = BytesIO(data)
        self.log = log

    def seek(self, offset, whence=SEEK_SET):
        res = self.inner.seek(offset, whence)
        self.log.append(("seek", offset, whence, res))
        return res

    def tell(self):
        res = self.inner.tell()
        self.log.append(("tell", res))
        return res

    def read(self, size=-1):
        pos = self.inner.tell()
        res = self.inner.read(size)
        self.log.append(("read", size, pos, len(res)))
        return res


def header(size, declared=None):
    x = size // 128 - 1
    declared = size if declared is None else declared
    return (
        declared.to_bytes(2, "little") + b"\0\0" + AKAI_PARTITION_MAGIC
        + bytes([0x55 if x % 2 == 0 else 0xD5, (x // 2 + 0xBA) & 0xFF])
        + b"\x2f\x00"
    )


def volume_entry(rng, kind):
    if kind == "inactive":
        return b"\0" * 16
    if kind == "badname":
        return b"\xFF" * 12 + b"\0" * 4
    name = bytes(rng.choice([10, 11, 12, 13, 14, 27, 28, 29, 0, 1, 2])
                 for _ in range(12))
    vtype = rng.choice([1, 3])
    start = rng.randint(0, 20)
    return name + vtype.to_bytes(2, "little") + start.to_bytes(2, "little")


def partition(rng, size, bad=None, volumes="inactive", sat="zero",
              declared=None):
    body = header(size, declared)
    if bad == "magic":
        body = body[:50] + b"\xEE" + body[51:]
    elif bad == "zero":
        body = b"\0\0" + body[2:]
    elif bad == "tail":
        body = body[:-1] + b"\x01"
    entries = []
    for i in range(AKAI_VOLUME_ENTRY_CNT):
        if volumes == "inactive":
            entries.append(volume_entry(rng, "inactive"))
        elif volumes == "badname" and i == 0:
            entries.append(volume_entry(rng, "badname"))
        elif volumes == "active" and i < 3:
            entries.append(volume_entry(rng, "active"))
        else:
            entries.append(volume_entry(rng, "inactive"))
    body += b"".join(entries)
    if sat == "zero":
        body += b"\0" * (2 * AKAI_SAT_ENTRY_CNT)
    else:
        values = [0x0000, 0x4000, 0x8000, 0xC000, 1, 2, 3, 4, 5, 6, 7, 8, 30]
        body += b"".join(
            rng.choice(values).to_bytes(2, "little")
            for _ in range(AKAI_SAT_ENTRY_CNT)
        )
    total = size * AKAI_SECTOR_SIZE
    if len(body) > total:
        return body[:total]
    filler = bytes(rng.getrandbits(8) for _ in range(64))
    pad = total - len(body)
    return body + (filler * (pad // 64 + 1))[:pad]


def describe_partition(part):
    out = [type(part).__name__, part.name, part.path]
    out.append(outcome(lambda: part.sat))  # (the property itself)
    sat = part._f_sat  # the parsed allocation table object
    out.append(outcome(lambda: (
        sat.size,
        len(sat.sector_links),
        [(x.next, x.end) for x in sat.sector_links[:64]],
        type(sat.parent_stream).__name__,
        sat.parent_stream.offset,
        sat.parent_stream.end_of_file,
    )))
    out.append(outcome(lambda: [
        (v.name, str(v.volume_type), v.path, len(v.file_entries))
        for v in part.volumes
    ]))
    return out


def scan(parser, data, max_partitions=8):
    """What AkaiImageParser._load_partitions does, with a given parser."""
    log = []
    file = LoggedFile(data, log)
    size = len(data)
    out = []
    cnt = 0
    parts = []
    while file.inner.tell() < size and cnt < max_partitions:
        name = chr(ord("A") + cnt)
        try:
            part = parser.parse_stream(
                file, _elem_name=name, _elem_parent=None, _elem_routines={}
            )
        except BaseException as e:  # noqa
            out.append(("exc", type(e).__name__, str(e), file.inner.tell()))
            break
        out.append(("parsed", name, file.inner.tell()))
        parts.append(part)
        cnt += 1
    # realise lazily parsed parts afterwards (as the exporter does)
    for part in parts:
        out.append(describe_partition(part))
    out.append(("final-pos", file.inner.tell()))
    return out, log


def scan_image(parser, data):
    saved = image_mod.PartitionParser
    image_mod.PartitionParser = parser
    try:
        log = []
        file = LoggedFile(data, log)
        image = AkaiImageParser(file)
        out = [outcome(lambda: [
            (p.name, p.path, p.parent is image) for p in image.partitions
        ])]
        out.append(outcome(lambda: [
            [(v.name, v.path) for v in p.volumes] for p in image.partitions
        ]))
        out.append(file.inner.tell())
        return out, log
    finally:
        image_mod.PartitionParser = saved


def test_images(rng: random.Random):
    S = AKAI_SECTOR_SIZE
    images = {
        "empty": b"",
        "one-3": partition(rng, 3),
        "one-1": partition(rng, 1),
        "sizes-1-2-5": partition(rng, 1) + partition(rng, 2)
        + partition(rng, 5),
        "two": partition(rng, 3) + partition(rng, 4),
        "four": partition(rng, 3) + partition(rng, 4) + partition(rng, 3)
        + partition(rng, 3),
        "declared-bigger": partition(rng, 3, declared=5) + partition(rng, 3),
        "declared-smaller": partition(rng, 4, declared=2)
        + partition(rng, 3),
        "two+garbage": partition(rng, 3) + partition(rng, 3)
        + bytes(rng.getrandbits(8) for _ in range(5000)),
        "bad-magic-second": partition(rng, 3) + partition(rng, 3, "magic")
        + partition(rng, 3),
        "bad-tail-first": partition(rng, 3, "tail") + partition(rng, 3),
        "zero-size-second": partition(rng, 4) + partition(rng, 3, "zero"),
        "bad-name-first": partition(rng, 3, volumes="badname")
        + partition(rng, 3),
        "active-volumes": partition(rng, 4, volumes="active", sat="random")
        + partition(rng, 3, volumes="active", sat="random"),
        "active-volumes-2": partition(rng, 6, volumes="active", sat="random")
        + partition(rng, 3),
        "random-sat": partition(rng, 3, sat="random")
        + partition(rng, 3, sat="random"),
        "garbage": bytes(rng.getrandbits(8) for _ in range(30000)),
        "zeros": b"\0" * 30000,
    }
    head = 202
    vol_end = head + 16 * AKAI_VOLUME_ENTRY_CNT
    sat_end = vol_end + 2 * AKAI_SAT_ENTRY_CNT
    interesting = [
        0, 1, 2, 3, 4, 100, head - 1, head, head + 1, head + 16, vol_end - 1,
        vol_end, vol_end + 1, vol_end + 2, sat_end - 2, sat_end - 1, sat_end,
        sat_end + 1, S - 1, S, S + 1, 2 * S, 3 * S - 1, 3 * S, 3 * S + 1,
        3 * S + 2, 3 * S + head, 3 * S + vol_end, 3 * S + sat_end,
        3 * S + sat_end + 1, 4 * S, 5 * S, 7 * S - 1, 7 * S, 7 * S + 1,
    ]

    scenarios = list(images.items())
    for label in ("two", "four", "sizes-1-2-5", "active-volumes",
                  "declared-bigger"):
        data = images[label]
        cuts = set(c for c in interesting if c < len(data))
        cuts.update(rng.randrange(len(data)) for _ in range(15))
        for cut in sorted(cuts):
            scenarios.append((f"{label} cut at {cut}", data[:cut]))

    for label, data in scenarios:
        ra = scan(PartitionParserOrig, data)
        rb = scan(PartitionParser, data)
        check(ra[0] == rb[0], f"scan {label}: results differ\n  {ra[0]}\n  {rb[0]}")
        check(ra[1] == rb[1], f"scan {label}: stream op log differs")
        ra = scan_image(PartitionParserOrig, data)
        rb = scan_image(PartitionParser, data)
        check(ra[0] == rb[0], f"image {label}: results differ")
        check(ra[1] == rb[1], f"image {label}: stream op log differs")

    # sanity: the complete images really yield the partitions we built
    full = scan(PartitionParser, images["sizes-1-2-5"])[0]
    check(
        [x for x in full if x[0] == "parsed"]
        == [("parsed", "A", S), ("parsed", "B", 3 * S), ("parsed", "C", 8 * S)],
        f"sanity: unexpected partition positions {full[:4]}"
    )


def main():
    rng = random.Random(0xC15D15)
    test_tree_shape()
    test_length(rng)
    test_images(rng)
    print(f"{checks} checks, {failures} mismatches")
    return 0 if failures == 0 else 1


if __name__ == "__main__":
    sys.exit(main())
