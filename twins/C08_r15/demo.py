"""Equivalence demo for r15 (smpl_extract/util/fat.py add_to_sector_links).

The ORIGINAL add_to_sector_links is pasted below.  Both versions are run on
  (a) every link list of length 0..4 over the indices -n-1..n+1 for every
      table size n = 0..4 (tables pre-filled, like the callers do, with ONE
      shared default SectorLink repeated n times), as list, tuple and
      one-shot generator;
  (b) random larger tables: several chains written one after the other,
      chains that overwrite each other, indices outside the table;
and compared on: return value, exception type / text / cause, the table
afterwards (values, entry types), and the *identity pattern* of the entries
(which slots still hold the shared default object, that every written slot
holds its own fresh object, and that no slot aliases an object of the other
run or a module-level object of smpl_extract.util.fat).  Mutating one written
entry must not affect any other slot.
  (c) For well-formed chains the table is walked with
      FileAllocationTable.get_path and a chained FileStream over the result is
      driven through seek/read histories against the logical content, for both
      versions.
Exit 0 = all agree, 1 = mismatch.
"""
import itertools
import random
import sys
from io import BytesIO, SEEK_CUR, SEEK_END, SEEK_SET
from typing import List

import smpl_extract.util.fat as fat_module
from smpl_extract.util.fat import FileAllocationTable
from smpl_extract.util.fat import FileStream
from smpl_extract.util.fat import InvalidFatDefinition
from smpl_extract.util.fat import SectorLink
from smpl_extract.util.fat import add_to_sector_links


def orig_add_to_sector_links(
        links_arg:      List[int],
        sector_links:   List[SectorLink]
    ):
    """Original, verbatim."""

    links_iter = iter(links_arg)
    prev_link = next(links_iter)
    try:
        for link in links_iter:
            sector_links[prev_link] = SectorLink(next=link, end=False)
            prev_link = link
        sector_links[prev_link] = SectorLink(next=0, end=True)

    except IndexError as e:
        raise InvalidFatDefinition(
            f"FAT entry {prev_link} exceeds total "
            f"number of FAT entries {len(sector_links)}."
        ) from e


def call(fn, *a):
    try:
        return ("ok", fn(*a))
    except Exception as e:  # noqa: BLE001
        return ("exc", type(e).__name__, str(e), type(e.__cause__).__name__)


MODULE_OBJECT_IDS = {id(v) for v in vars(fat_module).values()}


def identity_pattern(table, shared):
    """Slots holding the shared default -> 'D'; every other object gets a number
    by first appearance (so aliasing between slots would show up)."""
    seen = {}
    out = []
    for entry in table:
        if entry is shared:
            out.append("D")
        else:
            out.append(seen.setdefault(id(entry), len(seen)))
    return out


def as_kind(links, kind):
    if kind == "list":
        return list(links)
    if kind == "tuple":
        return tuple(links)
    return (x for x in links)


def compare(n, chains, kind, label):
    shared_new, shared_old = SectorLink(), SectorLink()
    t_new = [shared_new] * n
    t_old = [shared_old] * n
    ok = True
    for links in chains:
        r_new = call(add_to_sector_links, as_kind(links, kind), t_new)
        r_old = call(orig_add_to_sector_links, as_kind(links, kind), t_old)
        ok = ok and r_new == r_old
    ok = ok and t_new == t_old and len(t_new) == n
    ok = ok and all(type(e) is SectorLink for e in t_new)
    ok = ok and all(type(e.next) is type(f.next) and type(e.end) is type(f.end)
                    for e, f in zip(t_new, t_old))
    ok = ok and identity_pattern(t_new, shared_new) == identity_pattern(t_old, shared_old)
    ok = ok and shared_new == SectorLink() and shared_old == SectorLink()
    # written entries are private to the table: not module-level objects ...
    ok = ok and not any(id(e) in MODULE_OBJECT_IDS for e in t_new)
    # ... and independent of each other
    if ok:
        snapshot = [(e.next, e.end) for e in t_new]
        for i, e in enumerate(t_new):
            if e is shared_new:
                continue
            e.next, e.end = e.next + 1000, not e.end
            after = [(x.next, x.end) for x in t_new]
            expect = list(snapshot)
            expect[i] = (snapshot[i][0] + 1000, not snapshot[i][1])
            # the same object may legitimately sit in only one slot
            ok = ok and after == expect
            e.next, e.end = snapshot[i]
        ok = ok and t_new == t_old
    if not ok:
        print("MISMATCH", label, n, chains, kind, t_new, t_old)
    return ok, t_new, t_old


def apply(view, op):
    if op[0] == "seek":
        return call(view.seek, op[1], op[2])
    if op[0] == "tell":
        return call(view.tell)
    return call(view.read, op[1])


def walk_and_read(rng, n, chains, t_new, t_old):
    """(c): tables -> get_path -> FileStream, histories against the content."""
    ok = True
    sl = rng.randint(1, 5)
    data = bytes(rng.randrange(256) for _ in range(sl * n))
    for chain in chains:
        p_new = call(FileAllocationTable(BytesIO(data), n, t_new).get_path, chain[0])
        p_old = call(FileAllocationTable(BytesIO(data), n, t_old).get_path, chain[0])
        if p_new != p_old:
            print("MISMATCH path", chain, p_new, p_old)
            return False
        if p_new[0] != "ok":
            continue
        if len(chain) < n and p_new[1] != chain:    # well-formed chain shorter than the table
            print("WRONG path", chain, p_new)
            return False
        logical = b"".join(data[s * sl:(s + 1) * sl] for s in p_new[1])
        v_new = FileStream(BytesIO(data), sl, p_new[1])
        v_old = FileStream(BytesIO(data), sl, p_old[1])
        for _ in range(12):
            kind = rng.choice(["seek", "read", "read", "tell"])
            if kind == "seek":
                op = ("seek", rng.randint(-3, len(logical) + 3), rng.choice([SEEK_SET, SEEK_CUR, SEEK_END]))
            elif kind == "read":
                op = ("read", rng.choice([0, 1, 2, sl, sl + 1, 3 * sl, None]))
            else:
                op = ("tell",)
            before = v_new.position
            r_new, r_old = apply(v_new, op), apply(v_old, op)
            good = r_new == r_old and v_new.position == v_old.position
            if good and op[0] == "read" and r_new[0] == "ok":
                want = logical[before:] if op[1] is None else logical[before:before + op[1]]
                good = r_new[1] == want
            if not good:
                print("MISMATCH history", chain, op, r_new, r_old)
                ok = False
                break
    return ok


def main():
    ok = True
    count = 0
    rng = random.Random(1515)

    # (a) exhaustive tiny cases
    for n in range(0, 5):
        indices = range(-n - 1, n + 2)
        for length in range(0, 5):
            if n == 4 and length == 4:
                indices = range(-1, n + 1)
            for links in itertools.product(indices, repeat=length):
                for kind in ("list", "tuple", "gen"):
                    good, _, _ = compare(n, [list(links)], kind, "tiny")
                    ok &= good
                    count += 1

    # (b) + (c) random larger tables
    for trial in range(3000):
        n = rng.randint(1, 40)
        flavour = rng.choice(["disjoint", "disjoint", "overlap", "wild"])
        chains = []
        if flavour == "disjoint":
            free = list(range(n))
            rng.shuffle(free)
            free = free[:rng.randint(1, n)]
            while free:
                k = rng.randint(1, len(free))
                chains.append(free[:k])
                free = free[k:]
        elif flavour == "overlap":
            for _ in range(rng.randint(1, 4)):
                chains.append([rng.randrange(n) for _ in range(rng.randint(1, 8))])
        else:
            for _ in range(rng.randint(1, 4)):
                chains.append([rng.randint(-n - 3, n + 3) for _ in range(rng.randint(0, 6))])
        good, t_new, t_old = compare(n, chains, rng.choice(["list", "tuple", "gen"]), flavour)
        ok &= good
        count += 1
        if good and flavour == "disjoint":
            ok &= walk_and_read(rng, n, chains, t_new, t_old)

    print(f"{count} tables compared: {'all agree' if ok else 'MISMATCH'}")
    return 0 if ok else 1


if __name__ == "__main__":
    sys.exit(main())
