"""Equivalence demo for r8 (listing rendering: Traversable.get_info and
InfoTable.print_table).

Compares the functions as currently in the tree with inline copies of the
ORIGINAL code:
  * print_table / to_string on thousands of tables: empty, ragged rows, rows
    longer or shorter than the header, wide cells, custom column width and
    delimiter, cells with CR / LF / unicode, str subclasses, and ill-typed
    cells (same exception type and text);
  * get_info on directories of recording children: same header, same rows,
    same types, same defaults, and the same order of attribute reads on the
    children (also when a read fails half way);
  * the rendered text of get_info().to_string() end to end.
Exit 0 when all agree, else 1.
"""
from io import StringIO
import itertools
import random
import sys
from typing import List
from typing import Mapping
from typing import Tuple

from smpl_extract.base import Printable
from smpl_extract.info import InfoTable
from smpl_extract.structural import Traversable


# ---- ORIGINAL implementations (verbatim, as free functions) ---------------
def orig_print_table(self):

    # if empty
    if len(self.rows) <= 0:
        result = "(*empty*)"
        return result

    str_buffer = StringIO(newline="\n")

    # calc total number of columns and the widths of each
    num_columns = 0
    column_widths: Mapping[int, int] = {}
    rows = self.rows + [self.header]
    for row in rows:
        for i, column_value in enumerate(row):
            # total number of cols
            if i + 1 > num_columns:
                num_columns = i + 1
            # width of ith column
            width = len(column_value)
            if i not in column_widths.keys():
                column_widths[i] = max(width, self.column_width)
            elif width > column_widths[i]:
                column_widths[i] = width

    # total width is sum of column widths and the number of delimiters
    total_width = sum(column_widths.values()) + num_columns - 1


    def make_line(
            row: Tuple[str, ...],
            column_widths: Mapping[int, int] = column_widths
    )->str:
        result = self.column_delimiter.join(map(
            lambda i: row[i].ljust(column_widths[i]),
            range(len(row))
        ))
        return result


    # print the table
    str_buffer.write(make_line(self.header) + "\n")  # header
    str_buffer.write(("-" * total_width) + "\n")  # divider
    for row in self.rows:
        str_buffer.write(make_line(row) + "\n")

    result = str_buffer.getvalue()
    return result


def orig_get_info(self) -> Printable:
    entries: List[Tuple[str, ...]] = []
    for child in self.children:
        name = child.safe_name
        type_name = child.type_name
        entries.append((name, type_name))

    result = InfoTable(
        ("Item", "Type"),
        entries
    )
    return result
# ---------------------------------------------------------------------------


def outcome(func, *args):
    try:
        value = func(*args)
        return ("ok", type(value).__name__, value)
    except BaseException as exc:
        return ("raise", type(exc).__name__, str(exc),
                type(exc.__context__).__name__)


class S(str):
    """A str subclass with a surprising ljust, to pin down which method
    the renderer calls on the cells."""

    def ljust(self, width, fill=" "):
        return "<" + str.ljust(self, max(width - 2, 0), fill) + ">"


def tables():
    cells = ["", "a", "Item", "x" * 19, "x" * 20, "x" * 21, "x" * 45,
             " lead", "trail ", "äöü", "\U0001f3b9\U0001f3b9", "a\nb", "a\rb",
             "a\r\nb", "\r", "\n", "tab\t", "ß" * 25, S("sub"), S("y" * 30),
             "\udc80"]
    headers = [("Item", "Type"), ("",), (), ("A", "B", "C"), ("H" * 30, "T"),
               ("only",), (S("Item"), "Type")]
    rnd = random.Random(88)
    # systematic small ones
    for header in headers:
        yield header, [], {}
        for a in cells:
            yield header, [(a,)], {}
            yield header, [(a, "Sample")], {}
            yield header, [("DUP", a), (a, a, a)], {}
            yield header, [(), (a,)], {}
    # random shapes and parameters
    for _ in range(4000):
        header = tuple(
            rnd.choice(cells) for _ in range(rnd.randint(0, 4))
        )
        rows = [
            tuple(rnd.choice(cells) for _ in range(rnd.randint(0, 5)))
            for _ in range(rnd.randint(0, 6))
        ]
        kwargs = {}
        if rnd.random() < 0.5:
            kwargs["column_width"] = rnd.choice([0, 1, 5, 20, 33, -4])
        if rnd.random() < 0.5:
            kwargs["column_delimiter"] = rnd.choice(
                [" ", "", " | ", "\t", "\n", "--"]
            )
        yield header, rows, kwargs
    # rows given as lists / mixed sequences, header given as list
    yield ["Item", "Type"], [["a", "b"], ("c", "d")], {}
    yield ("Item", "Type"), [("a", "b")] * 300, {}
    # ill-typed content: must fail the same way
    yield ("Item", "Type"), [("a", 5)], {}
    yield ("Item", "Type"), [("a", None)], {}
    yield ("Item", "Type"), [("a", ["l", "i"])], {}
    yield ("Item", "Type"), [("a", b"bytes")], {}
    yield ("Item", 7), [("a", "b")], {}
    yield ("Item", "Type"), [None], {}
    yield ("Item", "Type"), [("a", "b")], {"column_delimiter": 3}
    yield ("Item", "Type"), [("a", "b")], {"column_delimiter": b" "}
    yield ("Item", "Type"), [("a", "b")], {"column_width": "20"}
    yield ("Item", "Type"), [("a", "b")], {"column_width": 2.5}
    yield ("Item", "Type"), (("a", "b"),), {}     # rows as a tuple
    yield ("Item", "Type"), None, {}
    yield None, [("a", "b")], {}


# ---- recording children for get_info --------------------------------------
LOG = []


class Child:
    def __init__(self, uid, name, type_name, fail=None):
        self.uid = uid
        self._name = name
        self._type_name = type_name
        self.fail = fail

    @property
    def safe_name(self):
        LOG.append((self.uid, "safe_name"))
        if self.fail == "safe_name":
            raise LookupError("safe_name of %s" % self.uid)
        if self.fail == "stop":
            raise StopIteration(self.uid)
        return self._name

    @property
    def type_name(self):
        LOG.append((self.uid, "type_name"))
        if self.fail == "type_name":
            raise LookupError("type_name of %s" % self.uid)
        return self._type_name

    @property
    def name(self):
        LOG.append((self.uid, "name"))
        return "RAW " + self._name


class Dir(Traversable):
    name = "dir"

    def __init__(self, kids, fail_children=False):
        self.fail_children = fail_children

        def realize(ctx):
            LOG.append(("dir", "realize"))
            if fail_children:
                raise OSError("cannot read directory")
            return kids
        Traversable.__init__(self, realize, type_name="Volume")


def directories():
    names = ["", " ", "STRINGS -L", "x" * 30, "äöü", "DUP", "DUP (2)",
             "a\nb", S("sub")]
    types = ["Sample", "Program", "Volume", "", "T" * 25]
    yield lambda: Dir([])
    yield lambda: Dir([], fail_children=True)
    yield lambda: Dir(iter([Child(0, "from iterator", "Sample")]))
    yield lambda: Dir(tuple([Child(0, "from tuple", "Sample")]))
    rnd = random.Random(5)
    for size in list(range(1, 8)) * 12:
        spec = [
            (rnd.choice(names), rnd.choice(types),
             rnd.choice([None] * 12 + ["safe_name", "type_name", "stop"]))
            for _ in range(size)
        ]
        yield lambda spec=spec: Dir([
            Child(i, n, t, f) for i, (n, t, f) in enumerate(spec)
        ])
    yield lambda: Dir([Child(0, 5, None), Child(1, None, 7)])


def describe_info(info):
    return (
        type(info).__name__, type(info.header).__name__, info.header,
        type(info.rows).__name__, info.rows,
        [type(r).__name__ for r in info.rows],
        info.column_width, info.column_delimiter,
        sorted(vars(info)),
    )


def observe_get_info(func, make_dir):
    del LOG[:]
    directory = make_dir()
    try:
        info = func(directory)
        first = ("ok", describe_info(info))
        rendered = outcome(lambda: info.to_string())
        # a second call uses the cached children
        second = describe_info(func(directory))
        result = (first, rendered, second)
    except BaseException as exc:
        result = ("raise", type(exc).__name__, str(exc),
                  type(exc.__context__).__name__)
    return result, list(LOG)


def main():
    failures = 0
    checked = 0

    for header, rows, kwargs in tables():
        checked += 1
        table = InfoTable(header, rows, **kwargs)
        snapshot = (header, list(rows) if isinstance(rows, list) else rows)
        want = outcome(orig_print_table, table)
        got = outcome(InfoTable.print_table, table)
        via_to_string = outcome(table.to_string)
        if not (want == got == via_to_string):
            failures += 1
            if failures < 20:
                print("MISMATCH print_table", header, rows, kwargs)
                print("   original:", want)
                print("   current :", got)
        # rendering must not modify the table
        after = (table.header,
                 list(table.rows) if isinstance(table.rows, list) else table.rows)
        if after != snapshot:
            failures += 1
            print("table modified by rendering", header, rows)

    for make_dir in directories():
        checked += 1
        want = observe_get_info(orig_get_info, make_dir)
        got = observe_get_info(Traversable.get_info, make_dir)
        if want != got:
            failures += 1
            if failures < 20:
                print("MISMATCH get_info")
                print("   original:", want)
                print("   current :", got)

    print(f"checked {checked} cases, {failures} mismatches")
    return 0 if failures == 0 else 1


if __name__ == "__main__":
    sys.exit(main())
