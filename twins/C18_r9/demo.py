"""Equivalence demo for r9: MidiNote.to_int_a0 with its (degree, sharp) ->
semitone table hoisted to a module-level constant and the result returned
directly.  Compares against an inline copy of the ORIGINAL method body, and
re-checks the note-number round trip of property C18 through the public
from_*/to_* helpers."""
import itertools
import sys
from typing import Dict, Tuple

from smpl_extract.midi import AKAI_SAMPLE_A0, MIDI_A0, NOTES_IN_OCTAVE
from smpl_extract.midi import MidiNote, ScaleDegree


def orig_to_int_a0(self) -> int:

    scale_table: Dict[Tuple[ScaleDegree, bool], int] = {
        (ScaleDegree.A, False):    0x00,
        (ScaleDegree.A, True):     0x01,
        (ScaleDegree.B, False):    0x02,
        (ScaleDegree.B, True):     0x03,   # B# = C
        (ScaleDegree.C, False):    0x03,
        (ScaleDegree.C, True):     0x04,
        (ScaleDegree.D, False):    0x05,
        (ScaleDegree.D, True):     0x06,
        (ScaleDegree.E, False):    0x07,
        (ScaleDegree.E, True):     0x08,   # E# = F
        (ScaleDegree.F, False):    0x08,
        (ScaleDegree.F, True):     0x09,
        (ScaleDegree.G, False):    0x0A,
        (ScaleDegree.G, True):     0x0B
    }

    byte_out = scale_table[(self.scale_degree, self.is_sharp)] \
        + (NOTES_IN_OCTAVE * self.octave)

    return byte_out


def outcome(fn, *args):
    try:
        value = fn(*args)
        return ("ok", type(value).__name__, repr(value))
    except BaseException as exc:  # noqa: BLE001
        return ("exc", type(exc).__name__, repr(exc.args))


FAIL = 0
CHECKED = 0


def same(a, b, what):
    global FAIL, CHECKED
    CHECKED += 1
    if a != b:
        FAIL += 1
        if FAIL < 20:
            print("MISMATCH", what, a, b)


class SubNote(MidiNote):
    pass


class Loud:
    """octave whose multiplication is observable (records the call)."""
    log = []

    def __rmul__(self, other):
        Loud.log.append(("rmul", other))
        return 1000


def main():
    # 1. every degree x sharp x octave, also odd field values (ints instead
    #    of enum members, truthy non-bools, unhashable and unknown keys).
    degrees = list(ScaleDegree) + [0, 1, 6, 7, -1, 2.0, "A", None, [1]]
    sharps = [False, True, 0, 1, 2, None, "", "#", 1.0, [0]]
    octaves = list(range(-3, 23)) + [None, "4", 2.5, 10 ** 20, [1], True]
    for cls in (MidiNote, SubNote):
        for d, s, o in itertools.product(degrees, sharps, octaves):
            note = cls(d, s, o)
            same(outcome(orig_to_int_a0, note), outcome(cls.to_int_a0, note),
                 ("to_int_a0", cls.__name__, d, s, o))

    # 2. table look-up happens before the octave multiplication in both.
    for d, s in ((ScaleDegree.C, True), (ScaleDegree.C, 5), ("zz", False)):
        Loud.log.clear()
        a = outcome(orig_to_int_a0, MidiNote(d, s, Loud()))
        log_a = list(Loud.log)
        Loud.log.clear()
        b = outcome(MidiNote.to_int_a0, MidiNote(d, s, Loud()))
        log_b = list(Loud.log)
        same((a, log_a), (b, log_b), ("order", d, s))

    # 3. repeated calls do not interfere with each other (shared table is
    #    never mutated): call twice, compare again.
    for d, s, o in itertools.product(ScaleDegree, (False, True), range(0, 22)):
        note = MidiNote(d, s, o)
        first = MidiNote.to_int_a0(note)
        second = MidiNote.to_int_a0(note)
        same(first, second, ("stable", d, s, o))
        same(first, orig_to_int_a0(note), ("stable-orig", d, s, o))

    # 4. property C18: note number -> note -> note number, all byte values
    #    (and a margin on both sides), through every public entry point.
    for n in range(-64, 320):
        same(n, MidiNote.from_int_a0(n).to_int_a0(), ("rt a0", n))
        same(n, MidiNote.from_akai_byte(n).to_akai_byte(), ("rt akai", n))
        same(n, MidiNote.from_midi_byte(n).to_midi_byte(), ("rt midi", n))
        note = MidiNote.from_int_a0(n)
        same(orig_to_int_a0(note) + AKAI_SAMPLE_A0, note.to_akai_byte(),
             ("akai off", n))
        same(orig_to_int_a0(note) + MIDI_A0, note.to_midi_byte(),
             ("midi off", n))

    # 5. text form round trip for octaves 0-9.
    for d, s, o in itertools.product(ScaleDegree, (False, True), range(10)):
        note = MidiNote(d, s, o)
        back = MidiNote.from_string(note.to_string())
        same(note, back, ("text rt", d, s, o))
        same(orig_to_int_a0(back), back.to_int_a0(), ("text rt int", d, s, o))

    print("checked", CHECKED, "mismatches", FAIL)
    return 1 if FAIL else 0


if __name__ == "__main__":
    sys.exit(main())
