"""Equivalence demo for r3: pad_channels / encode_frame (pad-and-interleave).
Compares smpl_extract.transcoder.pad_channels and encode_frame against inline
copies of the ORIGINAL implementations (values, dtypes, identity of channels
that need no padding, exceptions), then runs whole transcodes of unequal-length
sources and compares the yielded bytes with a pipeline built from the original
functions.  Exit 0 = all agree.
"""
from io import BytesIO
import random
import sys
from typing import List

import numpy as np

from smpl_extract import transcoder as T
from smpl_extract.data_streams import DataStream
from smpl_extract.data_streams import Endianess
from smpl_extract.data_streams import StreamEncoding


# ---------------------------------------------------------------- original
def orig_pad_channels(channels: List[np.ndarray]) -> List[np.ndarray]:
    target_size = max(map(len, channels))
    result_channels = []
    for channel in channels:
        N = target_size - len(channel)
        if N <= 0:
            result_channels.append(channel)
            continue

        padded_channel = np.pad(
            channel,
            (0, N),
            "linear_ramp",
            end_values=(0, 0)
        )
        result_channels.append(padded_channel)
    return result_channels


def orig_encode_frame(channels: List[np.ndarray], dest_dtype: np.dtype) -> bytes:
    channels = orig_pad_channels(channels)
    channels = list(x.astype(dest_dtype) for x in channels)
    result = np.vstack(channels).reshape((-1,), order='F').tobytes()
    return result


failures = 0
cases = 0


def fail(*msg):
    global failures
    failures += 1
    if failures <= 5:
        print("MISMATCH", *msg)


def call_pad(fn, channels):
    src = list(channels) if isinstance(channels, list) else None
    try:
        res = fn(channels)
    except Exception as e:  # noqa: BLE001
        return ("exc", type(e).__name__, str(e))
    desc = []
    for r in res:
        same_as = [i for i, c in enumerate(src or []) if r is c]
        if isinstance(r, np.ndarray):
            desc.append((r.dtype.str, r.shape, r.tobytes(), same_as))
        else:
            desc.append((repr(r), same_as))
    return ("ok", type(res).__name__, desc)


def call_enc(fn, channels, dtype):
    try:
        return ("ok", fn(channels, dtype))
    except Exception as e:  # noqa: BLE001
        return ("exc", type(e).__name__, str(e))


rng = random.Random(1203)
dtypes = ("int8", "uint8", "int16", "uint16", "int32", "uint32", "int64",
          ">i2", ">i4", "float32", "float64")


def rand_channel(n, dt):
    info_max = 100
    return np.array([rng.randrange(0, info_max) for _ in range(n)], dtype=dt)


# ---- 1. pad_channels / encode_frame, random shapes
for _ in range(4000):
    n = rng.randint(1, 6)
    mode = rng.random()
    base = rng.randint(0, 12)
    lens = [base if mode < 0.4 else rng.randint(0, 12) for _ in range(n)]
    same_dt = rng.choice(dtypes)
    chans = [rand_channel(k, same_dt if rng.random() < 0.8 else rng.choice(dtypes))
             for k in lens]
    cases += 1
    if call_pad(orig_pad_channels, chans) != call_pad(T.pad_channels, chans):
        fail("pad", lens)
    dest = np.dtype(rng.choice(("int8", "int16", "int32", "uint8", "uint16")))
    if call_enc(orig_encode_frame, chans, dest) != \
            call_enc(T.encode_frame, chans, dest):
        fail("encode", lens, dest)

# ---- 2. edge cases and error paths
edge = [
    [],                                                   # max() of empty
    [np.zeros(0, "int16")],
    [np.zeros(0, "int16"), np.zeros(0, "int16")],
    [np.zeros(0, "int16"), np.arange(5, dtype="int16")],  # pad an empty one
    [np.arange(5, dtype="int16"), np.zeros(0, "int16")],
    [np.arange(1, 4, dtype="int8"), np.arange(1, 9, dtype="int8")],
    [np.array([127, -128], "int8"), np.array([1, 2, 3, 4, 5, 6, 7], "int8")],
    [np.array([65535], "uint16"), np.arange(10, dtype="uint16")],
    [np.array([2**31 - 1], "int32"), np.arange(6, dtype="int32")],
    [[1, 2, 3], [1]],                                     # plain lists
    [(1, 2), np.arange(4)],
    [np.arange(6).reshape(2, 3), np.arange(5)],           # 2-d element
    [np.arange(3), 7],                                    # no len()
    [None],
    ["abc", "a"],
]
for chans in edge:
    cases += 1
    if call_pad(orig_pad_channels, chans) != call_pad(T.pad_channels, chans):
        fail("pad edge", chans)
    for dest in (np.dtype("int16"), np.dtype("int8")):
        if call_enc(orig_encode_frame, chans, dest) != \
                call_enc(T.encode_frame, chans, dest):
            fail("encode edge", chans)

# non-list iterables (generator is consumed by max(map(len, ..)))
for make in (lambda: (x for x in [np.arange(3), np.arange(5)]),
             lambda: (np.arange(3), np.arange(5)),
             lambda: None, lambda: 5):
    cases += 1
    if call_pad(orig_pad_channels, make()) != call_pad(T.pad_channels, make()):
        fail("pad iterable")


# ---- 3. whole transcodes with unequal sources (padding really happens)
def orig_pipeline(streams, dest):
    """PipelineTranscoder loop rebuilt from the original encode step."""
    for s in streams:
        s.stream.seek(0)
    sizes = T.get_buffer_sizes(streams)
    swaps = [x.encoding.endianess != T.system_byte_order
             for x in streams
             for _ in range(max(1, x.encoding.num_interleaved_channels))]
    out = []
    while True:
        channels = T.decode_frame(streams, sizes)
        if any(len(x) <= 0 for x in channels):
            break
        channels = [c.byteswap() if s else c for c, s in zip(channels, swaps)]
        if dest.endianess != T.system_byte_order:
            channels = [c.byteswap() for c in channels]
        out.append(orig_encode_frame(channels, dest.dtype))
    return out


for _ in range(800):
    width = rng.choice((1, 2, 4))
    signed = rng.random() < 0.7
    nstreams = rng.randint(2, 3)
    specs = []
    for _i in range(nstreams):
        nch = rng.randint(1, 3)
        nbytes = rng.choice((rng.randint(0, 200), nch * width * rng.randint(0, 40),
                             rng.randint(4000, 9000)))
        specs.append((bytes(rng.randrange(256) for _ in range(nbytes)),
                      rng.choice((Endianess.LITTLE, Endianess.BIG)), nch))
    total = sum(n for _, _, n in specs)
    dest = StreamEncoding(rng.choice((Endianess.LITTLE, Endianess.BIG)),
                          width, total, signed)

    def mk():
        return [DataStream(BytesIO(d), StreamEncoding(o, width, n, signed))
                for d, o, n in specs]

    cases += 1
    got = list(T.make_transcoder(mk(), dest))
    exp = orig_pipeline(mk(), dest)
    if got != exp:
        fail("e2e", [(len(d), o, n) for d, o, n in specs], width)

print(f"{cases} cases, {failures} mismatches")
sys.exit(1 if failures else 0)
