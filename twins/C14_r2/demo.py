"""Equivalence demo for r2 (Volume._realize_files, smpl_extract/akai/volume.py).

Compares the live Volume._realize_files / Volume.files against an inline copy
of the ORIGINAL _realize_files on
  * synthetic file entries whose `.file` returns objects / None / falsy values
    or raises swallowed (InvalidFileEntry, ConstructError and subclasses) or
    non-swallowed (ValueError, KeyError, RequestedInvalidSector,
    KeyboardInterrupt ...) exceptions, in every arrangement of up to 4 entries
    plus random longer ones,
  * real FileEntry objects produced by FileEntriesAdapter from random file
    tables over a fake segment allocation table.
Checked: resulting list (object identity and order), _is_files_realized,
propagated exception type, partial state left behind by a propagated
exception, order in which entries are touched, identity of the _files list.
Exit code 0 when everything agrees, 1 otherwise.
"""
import io
import itertools
import random
import sys

from construct.core import ConstructError, StreamError, Struct, MappingError
from construct.expr import this

from smpl_extract.akai.file_entry import (
    FileEntriesAdapter, FileEntry, FileEntryConstruct, InvalidFileEntry,
)
from smpl_extract.akai.volume import Volume
from smpl_extract.util.fat import RequestedInvalidSector


# --------------------------------------------------------------------------
# inline copy of the ORIGINAL implementation
# --------------------------------------------------------------------------
def orig_realize_files(self):
    for file_entry in self.file_entries:
        try:
            file = file_entry.file
        except (InvalidFileEntry, ConstructError) as e:
            file = None

        if file is not None:
            self._files.append(file)
    self._is_files_realized = True


class OrigVolume(Volume):
    _realize_files = orig_realize_files


# --------------------------------------------------------------------------
# harness
# --------------------------------------------------------------------------
class SubInvalid(InvalidFileEntry):
    pass


class Obj:
    def __init__(self, tag):
        self.tag = tag

    def __repr__(self):
        return f"Obj({self.tag})"


BEHAVIOURS = [
    ("obj", None), ("none", None), ("zero", None), ("empty", None),
    ("false", None),
    ("raise", InvalidFileEntry), ("raise", SubInvalid),
    ("raise", ConstructError), ("raise", StreamError), ("raise", MappingError),
    ("raise", ValueError), ("raise", KeyError),
    ("raise", RequestedInvalidSector), ("raise", KeyboardInterrupt),
]


class FakeEntry:
    def __init__(self, index, behaviour, log):
        self.index = index
        self.kind, self.exc = behaviour
        self.log = log
        self.value = {
            "obj": Obj(index), "none": None, "zero": 0, "empty": "",
            "false": False, "raise": None,
        }[self.kind]
        self.name = f"E{index}"

    @property
    def file(self):
        self.log.append(self.index)
        if self.kind == "raise":
            raise self.exc(f"entry {self.index}")
        return self.value


def outcome(volume_cls, behaviours, via_property, routines):
    log = []
    entries = [FakeEntry(i, b, log) for i, b in enumerate(behaviours)]
    volume = volume_cls(name="V", file_entries=entries, routines=routines)
    files_list_before = volume._files
    try:
        if via_property:
            returned = volume.files
            again = volume.files          # second access must not re-realise
            ret = ("ok", [id_of(entries, f) for f in returned],
                   returned is again)
        else:
            returned = volume._realize_files()
            ret = ("ok", returned)
    except BaseException as exc:
        ret = ("exc", type(exc).__name__, str(exc))
    state = (
        [id_of(entries, f) for f in volume._files],
        volume._is_files_realized,
        volume._files is files_list_before,
        list(log),
    )
    return ret, state


def id_of(entries, file_obj):
    for e in entries:
        if e.value is file_obj and e.kind != "raise":
            return (e.index, repr(file_obj))
    return ("?", repr(file_obj))


def reverse_routine(files):
    return list(reversed(files))


def drop_first_routine(files):
    return files[1:]


ROUTINE_SETS = [
    None,
    {"rev": reverse_routine},
    {"rev": reverse_routine, "drop": drop_first_routine},
]


def synthetic_cases():
    for n in range(0, 4):
        for combo in itertools.product(BEHAVIOURS, repeat=n):
            yield list(combo)
    rng = random.Random(14)
    for _ in range(600):
        yield [rng.choice(BEHAVIOURS) for _ in range(rng.randrange(4, 12))]
    # mostly-good lists with one bad entry at each position
    for pos in range(6):
        for bad in BEHAVIOURS:
            case = [("obj", None)] * 6
            case[pos] = bad
            yield case


# ---- real FileEntry objects ------------------------------------------------
class FakeSat:
    def get_segment(self, start):
        if start >= 0x4000 or start % 5 == 0:
            raise RequestedInvalidSector
        rng = random.Random(start)
        return io.BytesIO(bytes(rng.randrange(256) for _ in range(512)))


BODY = Struct("file_entries" / FileEntriesAdapter(this._.sat, FileEntryConstruct))
VALID_TYPES = [0x64, 0x70, 0x71, 0x73, 0x78, 0xF0, 0xF3]


def real_entries(seed):
    rng = random.Random(seed)
    parts = []
    for _ in range(rng.randrange(0, 10)):
        name = bytes(rng.randrange(0x29) for _ in range(12))
        ftype = rng.choice(VALID_TYPES)
        size = rng.choice([0, 10, 150, 400, 512, 70000])
        start = rng.choice([1, 2, 3, 4, 6, 7, 10, 99, 0x4000])
        parts.append(name + b"\0" * 4 + bytes([ftype])
                     + size.to_bytes(3, "little")
                     + start.to_bytes(2, "little") + b"\0\0")
    table = b"".join(parts) + b"\0" * 48
    return BODY.parse_stream(io.BytesIO(table), sat=FakeSat()).file_entries


def real_outcome(volume_cls, seed):
    entries = real_entries(seed)
    volume = volume_cls(name="V", file_entries=entries)
    try:
        files = volume.files
        ret = ("ok", [(type(f).__name__, getattr(f, "name", None)) for f in files])
    except BaseException as exc:
        ret = ("exc", type(exc).__name__)
    return ret, len(volume._files), volume._is_files_realized, \
        [(e.name, int(e.file_type)) for e in entries]


def main():
    failures = 0
    count = 0
    for case in synthetic_cases():
        for via_property in (False, True):
            for routines in (ROUTINE_SETS if via_property else [None]):
                count += 1
                got = outcome(Volume, case, via_property, routines)
                want = outcome(OrigVolume, case, via_property, routines)
                if got != want:
                    failures += 1
                    if failures <= 5:
                        print("MISMATCH", case, via_property, routines)
                        print("  live:", got)
                        print("  orig:", want)
    for seed in range(400):
        count += 1
        got = real_outcome(Volume, seed)
        want = real_outcome(OrigVolume, seed)
        if got != want:
            failures += 1
            if failures <= 5:
                print("MISMATCH real seed", seed)
                print("  live:", got)
                print("  orig:", want)
    print(f"{count} cases compared, {failures} mismatches")
    return 1 if failures else 0


if __name__ == "__main__":
    sys.exit(main())
