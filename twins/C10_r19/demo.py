"""Equivalence demo for r19 (the default per-image normalisation of a path
token and of the child names it is compared with:
structural.Traversable._sanitize_string, which the refactoring moves into a
small base class of the same module; AkaiImageParser keeps its own override).

Compared with an inline copy of the ORIGINAL method (and, for the AKAI image,
of its original override):
  * `_sanitize_string` looked up on instances and on the classes
    Traversable, Image, AkaiImageParser, RolandS7xxImage,
    CompactDiskAudioImage, Partition, Volume, VolumeEntry, PatchEntry and on
    fresh subclasses (one overriding it and calling super(), one overriding
    it on an Image subclass, one with an extra unrelated mixin), applied to
    ~900 strings (ASCII and unicode blanks on either side, inner blanks,
    colons, separators, empty, control characters, str subclasses) and to
    non-strings (None, bytes, bytearray, int, list, an object with its own
    strip()): same value and type or the same exception type and message;
  * what other code can see of the classes: the public part of the MRO of
    every class above, issubclass / isinstance relations, no abstract
    methods left on Traversable, Traversable[...] subscription, the
    methods and attributes every Traversable offers (dir() without
    underscore-led module-private class names);
  * end to end: ls_action on a synthetic Image tree, on a CDDA bin/cue image
    and on an AKAI image with duplicated volume names, for printed names,
    variations (ASCII / unicode blanks around tokens, case, trailing
    separators, `A:` forms) and unrelated paths, with the original method
    patched onto Traversable versus the tree as it is: same stdout.
Exit 0 when all agree, else 1.
"""
import contextlib
from dataclasses import dataclass
import io
import itertools
import os
import shutil
import sys
import tempfile
from typing import Generic

import smpl_extract.actions as actions
from smpl_extract.akai.data_types import AKAI_PARTITION_MAGIC
from smpl_extract.akai.data_types import AKAI_SAT_ENTRY_CNT
from smpl_extract.akai.data_types import AKAI_SECTOR_SIZE
from smpl_extract.akai.data_types import AKAI_VOLUME_ENTRY_CNT
from smpl_extract.akai.data_types import FILE_TABLE_END_FLAG
from smpl_extract.akai.image import AkaiImageParser
from smpl_extract.akai.partition import Partition
from smpl_extract.akai.volume import Volume
from smpl_extract.base import Element
from smpl_extract.base import ElementTypes
from smpl_extract.cdda.image import CompactDiskAudioImage
from smpl_extract.elements import LeafElement
from smpl_extract.roland.s7xx.image import RolandS7xxImage
from smpl_extract.roland.s7xx.patch_entry import PatchEntry
from smpl_extract.roland.s7xx.volume_entry import VolumeEntry
from smpl_extract.structural import Image
from smpl_extract.structural import Traversable


# ---- ORIGINAL implementations (verbatim) ----------------------------------
def orig_sanitize_string(self, input_str: str):
    result = input_str.strip()
    return result


def orig_akai_sanitize_string(
        self,
        input_str: str
):
    result = input_str.upper().strip()
    if len(result) > 0 and result[-1] == ":":
        result = result[:-1]
    return result


_MISSING = object()


@contextlib.contextmanager
def original_world():
    """The original method sits on Traversable itself again."""
    saved = Traversable.__dict__.get("_sanitize_string", _MISSING)
    Traversable._sanitize_string = orig_sanitize_string
    try:
        yield
    finally:
        if saved is _MISSING:
            del Traversable._sanitize_string
        else:
            Traversable._sanitize_string = saved


class Boom(Exception):
    pass


class StrSub(str):
    pass


class OwnStrip:
    def strip(self):
        return "own strip"

    def upper(self):
        return self


@dataclass
class FakeLeaf(LeafElement):
    name: str = ""
    type_name: str = "Leaf"
    size: int = 7
    type_id = ElementTypes.SampleEntry


BLANKS = ["", " ", "  ", "\t", "\n", "\r\n", "\x0b", "\x0c", "\x1c", "\x1f",
          "\x85", "\xa0", "\u2003", "\u3000", "\u200b", "\ufeff", "\x00"]
CORES = ["", "A", "a", "A:", "a:", ":", "::", "A::", "A :", "A: ", ":A",
         "VOL 2", "VOL  2", "First (2)", "\xdf", "\u01c6", "\u2603", "x/y", "x\\y", "\u0130",
         "\ufb01", "a\u0301"]


def strings():
    for left, core, right in itertools.product(BLANKS, CORES, BLANKS[:8]):
        if (len(left) + len(right)) % 3 == 0 or core in ("A:", "", "VOL 2"):
            yield left + core + right
    yield StrSub(" sub: ")
    yield StrSub("")


NON_STRINGS = [None, b" bytes: ", bytearray(b" ba "), 5, [" x "], (" y ",),
               OwnStrip(), 1.5, object]


class Dummy:
    """`self` is not used by the method."""


def make_subclasses():
    class Suffixing(Traversable):
        def _sanitize_string(self, input_str):
            return super()._sanitize_string(input_str) + "|sub"

    class LowerImage(Image):
        name = "Lower"
        type_name = "Lower"

        def _sanitize_string(self, input_str):
            return input_str.lower()

    class Unrelated:
        def helper(self):
            return "helper"

    class Mixed(Unrelated, Traversable):
        pass

    class AkaiChild(AkaiImageParser):
        pass

    return [Suffixing, LowerImage, Mixed, AkaiChild]


PACKAGE_CLASSES = [Traversable, Image, AkaiImageParser, RolandS7xxImage,
                   CompactDiskAudioImage, Partition, Volume, VolumeEntry,
                   PatchEntry]


def expected_for(cls, value):
    """What the ORIGINAL tree computes for cls._sanitize_string(value)."""
    try:
        if cls.__name__ in ("AkaiImageParser", "AkaiChild"):
            result = orig_akai_sanitize_string(None, value)
        elif cls.__name__ == "Suffixing":
            result = orig_sanitize_string(None, value) + "|sub"
        elif cls.__name__ == "LowerImage":
            result = value.lower()
        else:
            result = orig_sanitize_string(None, value)
        return ("ok", type(result).__name__, repr(result))
    except BaseException as exc:  # noqa: B902
        return ("exc", type(exc).__name__, str(exc))


def actual_for(cls, value, through_instance):
    try:
        if through_instance:
            holder = object.__new__(cls)
            result = holder._sanitize_string(value)
        elif cls.__name__ == "Suffixing":
            # zero-argument super() needs a real instance
            result = cls._sanitize_string(object.__new__(cls), value)
        else:
            result = cls._sanitize_string(Dummy(), value)
        return ("ok", type(result).__name__, repr(result))
    except BaseException as exc:  # noqa: B902
        return ("exc", type(exc).__name__, str(exc))


def public_mro(cls):
    return [
        base.__module__ + "." + base.__qualname__ for base in cls.__mro__
        if not (base.__module__ == "smpl_extract.structural"
                and base.__name__.startswith("_"))
    ]


EXPECTED_TRAVERSABLE_MRO = [
    "smpl_extract.structural.Traversable",
    "smpl_extract.base.Element",
    "typing.Generic",
    "builtins.object",
]

# everything a Traversable offered before the change (dir() of the class,
# dunder names left out)
EXPECTED_TRAVERSABLE_API = [
    "_TOKENIZE_PATH_REGEX", "_abc_impl", "_sanitize_string",
    "children", "export_name", "export_path", "export_samples", "get_info",
    "parent", "parse_path", "path", "safe_name", "set_routines", "type_id",
]


def structure_report():
    report = []
    report.append(("mro", public_mro(Traversable)))
    report.append(("image-mro", public_mro(Image)[:2]))
    for cls in PACKAGE_CLASSES:
        report.append((cls.__name__, issubclass(cls, Traversable),
                       issubclass(cls, Element), issubclass(cls, Generic),
                       public_mro(cls).index(
                           "smpl_extract.structural.Traversable")
                       < public_mro(cls).index("smpl_extract.base.Element")))
    report.append(("abstract", sorted(Traversable.__abstractmethods__)))
    report.append(("subscript", repr(Traversable[Element]).replace(
        "smpl_extract.structural.", "")))
    report.append(("params", len(Traversable.__parameters__)))
    report.append(("api", sorted(
        n for n in dir(Traversable)
        if not (n.startswith("__") and n.endswith("__")))))
    node = Traversable(lambda ctx: [])
    report.append(("instance", isinstance(node, Element),
                   node._sanitize_string(" x "), node.children, node.path))
    own = "_sanitize_string" in AkaiImageParser.__dict__
    report.append(("akai-owns-override", own))
    return report


EXPECTED_STRUCTURE_HEAD = [
    ("mro", EXPECTED_TRAVERSABLE_MRO),
    ("image-mro", ["smpl_extract.structural.Image",
                   "smpl_extract.structural.Traversable"]),
]


# ---- end to end ------------------------------------------------------------
class FakeImage(Image):
    name = "Fake Image"
    type_name = "Fake Image"
    type_id = ElementTypes.DirectoryEntry

    def __init__(self, spec):
        Traversable.__init__(self, lambda ctx: self._make(spec, ctx, self))

    @staticmethod
    def _make(spec, ctx, parent):
        routines = ctx["_elem_routines"]
        made = []
        for entry in spec:
            if isinstance(entry, tuple):
                raw, sub = entry
                node = Traversable(
                    (lambda sub: lambda c: FakeImage._make(sub, c, None))(sub),
                    routines=routines, path=[raw], parent=parent,
                    type_name="Dir",
                )
                node.name = raw
            else:
                node = FakeLeaf(name=entry)
            made.append(node)
        return made


RAW_SPEC = [
    ("VOL", ["KICK", "KICK", "KICK (2)", "KICK", "SNARE L", "SNARE L",
             "SNARE (2) L", "SNARE R"]),
    ("VOL", ["x", "x", "x", "x (2)", "x (3)", "x (5)", "x"]),
    ("VOL (2)", ["a'b", "ab", "a b", "a:b", "a/b"]),
    ("vol", ["", "", " ", "''"]),
    "VOL",
    "LEAF",
    "LEAF",
    "LEAF (2)",
    "LEAF (2)",
    "it's",
    "  padded  ",
]


def printed_names(listing):
    names = []
    rows = listing.splitlines()[2:]
    if listing.endswith("\n\n") and rows and rows[-1] == "":
        rows = rows[:-1]
    for line in rows:
        names.append(line[:20].rstrip() if len(line) >= 20 else line.rstrip())
    return names


def ls_text(image, path):
    buf = io.StringIO()
    with contextlib.redirect_stdout(buf):
        actions.ls_action(image, path)
    return buf.getvalue()


def ls_paths(image_factory):
    top = printed_names(ls_text(image_factory(), ""))
    paths = ["", " ", "/", "\\", "nope", "VOL (9)", "LEAF (3)", "(2)", "\u2603"]
    for name in top:
        paths += [name, " " + name + " ", name + "/", name.lower(),
                  name + "/nope", name[:-1], name + " (2)"]
        listing = ls_text(image_factory(), name)
        if listing[:4] == "Item":
            for child in printed_names(listing):
                paths += [name + "/" + child, name + "\\" + child + "\\",
                          name + "/" + child + " (2)"]
    return paths


def run_ls(image, path):
    buf = io.StringIO()
    try:
        with contextlib.redirect_stdout(buf):
            actions.ls_action(image, path)
        return ("ok", buf.getvalue())
    except BaseException as exc:  # noqa: B902
        return ("exc", type(exc).__name__, str(exc), buf.getvalue())


def akai_name(text):
    out = []
    for ch in text.ljust(12)[:12]:
        if ch.isdigit():
            out.append(ord(ch) - ord("0"))
        elif "A" <= ch <= "Z":
            out.append(0x0B + ord(ch) - ord("A"))
        else:
            out.append({" ": 0x0A, "#": 0x25, "+": 0x26, "-": 0x27,
                        ".": 0x28}[ch])
    return bytes(out)


def make_partition(sectors, volumes=()):
    header = (
        sectors.to_bytes(2, "little") + b"\x00\x00" + AKAI_PARTITION_MAGIC
        + bytes([0x55, 0xBA]) + b"\x2f\x00"
    )
    sat = [0] * AKAI_SAT_ENTRY_CNT
    entries = b""
    bodies = {}
    next_sector = 4
    for n in range(AKAI_VOLUME_ENTRY_CNT):
        if n < len(volumes):
            name, vtype = volumes[n]
            entries += (
                akai_name(name) + vtype.to_bytes(2, "little")
                + next_sector.to_bytes(2, "little")
            )
            sat[next_sector] = 0xC000
            body = bytearray(AKAI_SECTOR_SIZE)
            body[8:10] = FILE_TABLE_END_FLAG.to_bytes(2, "little")
            bodies[next_sector] = bytes(body)
            next_sector += 1
        else:
            entries += bytes([0x0A] * 12) + b"\x00\x00\x00\x00"
    for s in range(4):
        sat[s] = 0x4000
    sat_bytes = b"".join(v.to_bytes(2, "little") for v in sat)
    blob = bytearray(sectors * AKAI_SECTOR_SIZE)
    head = header + entries + sat_bytes
    blob[:len(head)] = head
    for sector, body in bodies.items():
        blob[sector * AKAI_SECTOR_SIZE:(sector + 1) * AKAI_SECTOR_SIZE] = body
    return bytes(blob)


def write_files(root):
    vols = (("VOL", 1), ("VOL", 3), ("VOL  2", 1), ("VOL", 3), ("LONE", 1))
    files = {
        "akai.img": make_partition(10, vols) + make_partition(4, vols[:2]),
        "audio.bin": bytes(2352 * 75 * 3),
        "audio.cue": (
            b"FILE \"audio.bin\" BINARY\n  TRACK 01 AUDIO\n"
            b"    TITLE \"First\"\n    INDEX 01 00:00:00\n"
            b"  TRACK 02 AUDIO\n    INDEX 01 00:01:00\n"
            b"  TRACK 03 AUDIO\n    TITLE \"First\"\n    INDEX 01 00:02:00\n"
        ),
    }
    for name, data in files.items():
        with open(os.path.join(root, name), "wb") as handle:
            handle.write(data)


FILE_PATHS = {
    "audio.cue": [
        "", "/", "First", " First ", "First/", "first", "First (2)",
        "First (2)\\", "First (3)", "Untitled Track 2", "Untitled Track 2/x",
        "Untitled Track 9", "nope", "\u2603",
    ],
    "akai.img": [
        "", "A", "a:", "B:/", "A/VOL", "A/VOL (2)/", "A/VOL (3)", "A/VOL (4)",
        "A/VOL  2", "a/lone", "B/VOL (2)", "B/VOL (3)", "C", "A/VOL (2)/x",
        "A:/vol (2)", ":", "A::",
    ],
}


UNICODE_WRAPS = [("", ""), (" ", " "), ("\t", "\n"), ("\xa0", "\u2003"),
                 ("\u3000", ""), ("", "\x1f"), ("\u200b", ""), ("", "\ufeff")]


def wrapped(paths):
    out = []
    for n, path in enumerate(paths):
        out.append(path)
        left, right = UNICODE_WRAPS[n % len(UNICODE_WRAPS)]
        out.append(left + path + right)
        if "/" in path:
            head, tail = path.split("/", 1)
            out.append(head + right + "/" + left + tail)
    return out


def main():
    failures = 0
    checked = 0

    def note(label, detail, expected, actual):
        nonlocal failures
        failures += 1
        if failures <= 5:
            print("MISMATCH", label, detail)
            print("  expected", expected)
            print("  actual  ", actual)

    values = list(strings()) + NON_STRINGS
    classes = PACKAGE_CLASSES + make_subclasses()
    kinds = set()
    for cls in classes:
        for value in values:
            expected = expected_for(cls, value)
            kinds.add(expected[:2])
            for through_instance in (False, True):
                actual = actual_for(cls, value, through_instance)
                checked += 1
                if expected != actual:
                    note("sanitize", (cls.__name__, repr(value),
                                      through_instance), expected, actual)
            # and with the original method put back on Traversable
            with original_world():
                patched = actual_for(cls, value, True)
            if expected != patched:
                note("sanitize (original world)", (cls.__name__, repr(value)),
                     expected, patched)
    if len(kinds) < 4:
        print("outcomes too uniform:", sorted(kinds))
        failures += 1

    actual_structure = structure_report()
    with original_world():
        original_structure = structure_report()
    checked += 1
    if actual_structure != original_structure:
        note("structure", "tree vs original world", original_structure,
             actual_structure)
    if actual_structure[:2] != EXPECTED_STRUCTURE_HEAD:
        note("structure", "public MRO", EXPECTED_STRUCTURE_HEAD,
             actual_structure[:2])
    api = dict((row[0], row[1:]) for row in actual_structure)["api"][0]
    if api != EXPECTED_TRAVERSABLE_API:
        note("structure", "api", EXPECTED_TRAVERSABLE_API, api)
    for row in actual_structure:
        if row[0] in [c.__name__ for c in PACKAGE_CLASSES]:
            if row[1:] != (True, True, True, True):
                note("structure", row[0], (True, True, True, True), row[1:])
    if dict((r[0], r[1:]) for r in actual_structure)["abstract"] != ([],):
        note("structure", "abstract", [], actual_structure)
    if not dict((r[0], r[1:]) for r in actual_structure)[
            "akai-owns-override"][0]:
        note("structure", "akai override", True, False)

    with original_world():
        paths = wrapped(ls_paths(lambda: FakeImage(RAW_SPEC)))
    saw_found = saw_not_found = 0
    for path in paths:
        with original_world():
            expected = run_ls(FakeImage(RAW_SPEC), path)
        actual = run_ls(FakeImage(RAW_SPEC), path)
        checked += 1
        if "was not found" in expected[-1]:
            saw_not_found += 1
        elif expected[0] == "ok":
            saw_found += 1
        if expected != actual:
            note("ls", repr(path), expected, actual)
    if saw_found < 40 or saw_not_found < 40:
        print("synthetic tree paths:", saw_found, "found,", saw_not_found,
              "not found - too few")
        failures += 1

    root_dir = tempfile.mkdtemp()
    try:
        write_files(root_dir)
        for file_name, file_paths in FILE_PATHS.items():
            target = os.path.join(root_dir, file_name)
            found = 0
            for path in wrapped(file_paths):
                with original_world():
                    expected = run_ls(target, path)
                actual = run_ls(target, path)
                checked += 1
                if expected[0] == "ok" and "was not found" not in expected[1]:
                    found += 1
                if expected != actual:
                    note("file ls", (file_name, path), expected, actual)
            if found < 10:
                print(file_name, "resolved only", found, "paths")
                failures += 1
    finally:
        shutil.rmtree(root_dir, ignore_errors=True)

    print(f"checked {checked} cases, {failures} mismatches")
    return 1 if failures else 0


if __name__ == "__main__":
    sys.exit(main())
