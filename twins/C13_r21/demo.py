"""Equivalence demo for the FatAreaStruct declaration
(smpl_extract/roland/s7xx/fat.py), the construct that reads the 65536 FAT
words walked by the `while True` link loop of FatAreaAdapter._decode.

An inline copy of the ORIGINAL declaration (the Union literal written with
"name" / subcon, Int16ul[N] and an inline lambda) is compared with the
FatAreaStruct of the tree
  * structurally: sizeof(), names and classes of all (nested) sub-constructs,
    array count, padding length, parsefrom;
  * by parsing: empty / truncated / exact / oversized streams, at several start
    positions, with random and edge-case words - compared are every parsed
    field, the data sub-stream (class, offset, window size, position, wrapped
    stream identity, bytes read through it), the position of the stream
    afterwards and the exception (type and text);
  * end to end through FatAreaAdapter: well formed chains, cycles, ERROR /
    RESERVED / FREE flags inside chains, bad identifiers and version flags,
    random tables - compared are version, free clusters, every sector link,
    cluster paths and file bytes, or the exception.
Exit 0 when everything agrees, 1 otherwise.
"""
import io
import random
import struct
import sys

from construct.core import Int16ul
from construct.core import Padding
from construct.core import Struct
from construct.core import Union

import smpl_extract.roland.s7xx.fat as fat_module
from smpl_extract.roland.s7xx.data_types import DATA_FAT_OFFSET
from smpl_extract.roland.s7xx.data_types import FAT_AREA_ID
from smpl_extract.roland.s7xx.data_types import FAT_NUM_ENTRIES
from smpl_extract.roland.s7xx.fat import FatAreaAdapter
from smpl_extract.roland.s7xx.fat import FatAreaParser
from smpl_extract.util.stream import StreamOffset
from smpl_extract.util.stream import StreamSizeConstruct
from smpl_extract.util.stream import SubStreamConstruct


# verbatim copy of the original declaration
OriginalFatAreaStruct = Union(
    0,
    "fat_entries" / Int16ul[FAT_NUM_ENTRIES],
    "metadata" / Struct(
        "fat_id" / Int16ul,
        "num_unused_clusters" / Int16ul,
        Padding(2 * (FAT_NUM_ENTRIES-4)),
        "version_flag_1" / Int16ul,
        "version_flag_2" / Int16ul
    ),
    "stream_size" / StreamSizeConstruct,
    "fat_data_stream"  / SubStreamConstruct(
        StreamOffset,
        size=(lambda this: this.stream_size-DATA_FAT_OFFSET),
        offset=DATA_FAT_OFFSET
    ),
)
OriginalFatAreaParser = FatAreaAdapter(OriginalFatAreaStruct)

TreeFatAreaStruct = fat_module.FatAreaStruct

failures = 0
checked = 0


def report(label, new, old):
    global failures, checked
    checked += 1
    if new != old:
        failures += 1
        if failures < 10:
            print("MISMATCH", label)
            print("   new", str(new)[:400])
            print("   old", str(old)[:400])


def describe_exception(e):
    return ("raise", type(e), str(e), type(e.__cause__), type(e.__context__))


# -------------------------------------------------------------- structure
def shape(con, depth=0):
    """class / name / parameters of a construct and of what it wraps"""
    item = [type(con).__name__, getattr(con, "name", None)]
    for attribute in ("count", "length", "parsefrom", "fmtstr", "offset"):
        if hasattr(con, attribute):
            value = getattr(con, attribute)
            item.append((attribute, value if not callable(value) else "callable"))
    if isinstance(con, SubStreamConstruct):
        item.append(con.substream_class)
        item.append(len(con.args))
        item.append(sorted(con.kwargs))
        item.append(con.kwargs["offset"])
    if hasattr(con, "subcons"):
        item.append([shape(sub, depth + 1) for sub in con.subcons])
    elif hasattr(con, "subcon") and depth < 8:
        item.append(shape(con.subcon, depth + 1))
    return item


def structural_checks():
    report("shape", shape(TreeFatAreaStruct), shape(OriginalFatAreaStruct))
    for name, con in (("tree", TreeFatAreaStruct), ("orig", OriginalFatAreaStruct)):
        try:
            size = con.sizeof()
        except Exception as e:  # noqa
            size = describe_exception(e)
        if name == "tree":
            tree_size = size
        else:
            report("sizeof", tree_size, size)
    report("module parser wraps module struct",
           FatAreaParser.subcon is TreeFatAreaStruct, True)
    for ctx_size in (-5, 0, DATA_FAT_OFFSET - 1, DATA_FAT_OFFSET, 10 ** 9):
        class Ctx:
            stream_size = ctx_size
        new = TreeFatAreaStruct.subcons[3].subcon.kwargs["size"](Ctx)
        old = OriginalFatAreaStruct.subcons[3].subcon.kwargs["size"](Ctx)
        report("size callable %d" % ctx_size, new, old)


# ---------------------------------------------------------------- parsing
def struct_outcome(con, data, start, probe):
    stream = io.BytesIO(data)
    stream.seek(start)
    try:
        result = con.parse_stream(stream)
    except BaseException as e:  # noqa
        return describe_exception(e) + (stream.tell(),)
    window = result.fat_data_stream
    outcome = [
        "ok",
        sorted(k for k in result.keys()),
        list(result.fat_entries) == list(
            struct.unpack_from("<%dH" % FAT_NUM_ENTRIES, data, start)),
        hash(tuple(result.fat_entries)),
        dict((k, v) for k, v in result.metadata.items() if k != "_io"),
        result.stream_size,
        type(window), window.offset, window.end_of_file, window.position,
        window.buffer_length, window.substream is stream,
        stream.tell(),
    ]
    if probe:
        window.seek(probe[0], 0)
        outcome.append(window.read(probe[1]))
        outcome.append(window.tell())
    return outcome


def table_bytes(words):
    words = list(words)[:FAT_NUM_ENTRIES]
    words += [0] * (FAT_NUM_ENTRIES - len(words))
    return struct.pack("<%dH" % FAT_NUM_ENTRIES, *words)


def parse_cases(rng):
    full = 2 * FAT_NUM_ENTRIES
    random_table = bytes(rng.getrandbits(8) for _ in range(4096)) * (full // 4096)
    yield "empty", b"", 0, None
    for cut in (1, 2, 3, 4, 5, 100, full - 4, full - 3, full - 2, full - 1):
        yield "cut %d" % cut, random_table[:cut], 0, None
    yield "exact", random_table, 0, None
    yield "exact zeros", bytes(full), 0, None
    yield "exact ones", b"\xff" * full, 0, None
    yield "trailing", random_table + b"tail" * 10, 0, None
    for start in (1, 2, 7, 513):
        yield "start %d" % start, bytes(start) + random_table + b"xyz", start, None
        yield "start %d short" % start, bytes(start) + random_table[:-1], start, None
    yield "start beyond end", random_table, full + 10, None
    for n in range(12):
        words = [rng.choice((0, 1, 0xFFF7, 0xFFF8, 0xFFFF, 0xFFFA, 0xFFFE,
                             rng.randrange(0x10000))) for _ in range(FAT_NUM_ENTRIES)]
        yield "random words %d" % n, table_bytes(words) + bytes(rng.randrange(50)), 0, None
    # big enough to own a data area: read through the window
    big = bytearray(DATA_FAT_OFFSET + 5000)
    big[0:full] = random_table
    for k in range(DATA_FAT_OFFSET - 16, len(big)):
        big[k] = (k * 7 + 3) & 0xFF
    big = bytes(big)
    for probe in ((0, 16), (10, 100), (4990, 100), (5000, 3), (6000, 3), (0, 0)):
        yield "window %r" % (probe,), big, 0, probe
    yield "window at boundary", big[:DATA_FAT_OFFSET], 0, (0, 4)
    yield "window one byte", big[:DATA_FAT_OFFSET + 1], 0, (0, 4)
    yield "window start 3", b"abc" + big, 3, (2, 8)


# ------------------------------------------------------------- end to end
def adapter_outcome(parser, data, read_files):
    stream = io.BytesIO(data)
    try:
        area = parser.parse_stream(stream)
    except BaseException as e:  # noqa
        return describe_exception(e) + (stream.tell(),)
    fat = area.fat
    outcome = [
        "ok", type(area), area.version, area.num_remaining_clusters,
        type(fat), fat.size, type(fat.parent_stream), fat.parent_stream.offset,
        fat.parent_stream.end_of_file, fat.parent_stream.substream is stream,
        hash(tuple((link.next, link.end) for link in fat.sector_links)),
        stream.tell(),
    ]
    for index in (0, 1, 2, 3, 4, 5, 10, 11, 100, 0xFFF0, 0xFFFF, 0x10000):
        try:
            outcome.append(fat.get_path(index))
        except BaseException as e:  # noqa
            outcome.append(describe_exception(e))
    for index in read_files:
        try:
            outcome.append(fat.get_file(index).read(40))
        except BaseException as e:  # noqa
            outcome.append(describe_exception(e))
    return outcome


def fat_table(chains=(), overrides=(), fat_id=FAT_AREA_ID, unused=1234,
              flags=(0xFFFF, 0xFFFF)):
    words = [0] * FAT_NUM_ENTRIES
    for chain in chains:
        for here, there in zip(chain, chain[1:]):
            words[here] = there
        words[chain[-1]] = 0xFFFF
    for index, value in overrides:
        words[index] = value
    words[0] = fat_id
    words[1] = unused
    words[-2], words[-1] = flags
    return table_bytes(words)


def adapter_cases(rng):
    yield "no files", fat_table(), ()
    yield "one chain", fat_table([[2, 3, 4]]), ()
    yield "two chains", fat_table([[2, 5, 3], [4, 10, 11, 12]]), ()
    yield "backwards chain", fat_table([[9, 8, 7, 6]]), ()
    yield "cycle 2", fat_table(overrides=[(2, 3), (3, 2)]), ()
    yield "self cycle", fat_table(overrides=[(5, 5)]), ()
    yield "long cycle", fat_table(overrides=[(k, k + 1) for k in range(2, 400)] + [(400, 2)]), ()
    yield "error flag", fat_table([[2, 3, 4]], overrides=[(3, 0xFFF7)]), ()
    yield "reserved inside", fat_table([[2, 3, 4]], overrides=[(3, 1)]), ()
    yield "free inside", fat_table([[2, 3, 4]], overrides=[(3, 0)]), ()
    yield "reserved alone", fat_table(overrides=[(6, 1)]), ()
    yield "end markers", fat_table(overrides=[(2, 0xFFF8), (3, 0xFFF9), (4, 0xFFFE)]), ()
    yield "link to tail", fat_table(overrides=[(2, 0xFFF6)]), ()
    yield "bad id", fat_table(fat_id=0xFFFB), ()
    yield "zero id", fat_table(fat_id=0), ()
    yield "version 2 first", fat_table([[2, 3]], flags=(0xFFFE, 0xFFFF)), ()
    yield "version 2 second", fat_table([[2, 3]], flags=(0xFFFF, 0xFFFE)), ()
    yield "version unknown", fat_table(flags=(0x1234, 0xFFFF)), ()
    yield "version unknown second", fat_table(flags=(0xFFFF, 0)), ()
    yield "truncated", fat_table([[2, 3]])[:-1], ()
    yield "truncated hard", fat_table([[2, 3]])[:777], ()
    yield "empty", b"", ()
    for n in range(15):
        overrides = [(rng.randrange(2, 3000),
                      rng.choice((0, 1, 0xFFF7, 0xFFF8, 0xFFFF, rng.randrange(2, 3000))))
                     for _ in range(rng.randrange(1, 2000))]
        yield "random %d" % n, fat_table([[2, 3, 4]], overrides=overrides), ()
    for n in range(10):
        clusters = rng.sample(range(2, 0xFFF0), rng.randrange(2, 600))
        chains = []
        while clusters:
            length = rng.randrange(1, 40)
            chains.append(clusters[:length])
            clusters = clusters[length:]
        yield "random chains %d" % n, fat_table(chains), ()
    # with a data area, so that files can be read through the FAT
    table = fat_table([[2, 4, 3], [5]])
    data = bytearray(DATA_FAT_OFFSET + 6 * 0x2400)
    data[:len(table)] = table
    for k in range(DATA_FAT_OFFSET, len(data), 97):
        data[k] = (k // 97) & 0xFF
    yield "files", bytes(data), (2, 4, 3, 5, 6, 0, 70000)
    yield "files short", bytes(data[:DATA_FAT_OFFSET + 0x2400 * 3 + 11]), (2, 4, 3, 5)


def main():
    rng = random.Random(21)
    structural_checks()
    for label, data, start, probe in parse_cases(rng):
        report(label,
               struct_outcome(TreeFatAreaStruct, data, start, probe),
               struct_outcome(OriginalFatAreaStruct, data, start, probe))
    for label, data, read_files in adapter_cases(rng):
        report(label,
               adapter_outcome(FatAreaParser, data, read_files),
               adapter_outcome(OriginalFatAreaParser, data, read_files))
    print("checked", checked, "failures", failures)
    return 1 if failures else 0


if __name__ == "__main__":
    sys.exit(main())
