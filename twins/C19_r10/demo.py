"""Equivalence demo for the ChickSysRolandDeemphFilter refactoring
(smpl_extract/filters/common.py: the 19-tap kernel is spelled as
flank + centre + mirrored flank, and the base constructor is called with
keyword instead of positional arguments).

The preset is compared with an inline copy of the ORIGINAL definition
(literal 19-entry table, positional super().__init__ call): module constants,
instance attributes after construction / reset, and the output of block-wise
streaming for every split of short signals and random splits of long,
random and extreme-valued int16 signals.
Exit 0 when everything agrees, 1 otherwise.
"""
import itertools
import random
import sys
import warnings

import numpy as np

import smpl_extract.filters.common as common
from smpl_extract.filters.fir import ChickSysCustomFirFilter

warnings.simplefilter("ignore")

# ---------------------------------------------------------------- ORIGINAL
_orig_h = np.asarray(
    [
        1,
       -2,
        5,
      -11,
       25,
      -65,
      176,
     -460,
     9981,
    32767,
     9981,
     -460,
      176,
      -65,
       25,
      -11,
        5,
       -2,
        1
    ],
    dtype=np.int16
)
_orig_k_gain = 52067
_orig_delay_offset = 7


class OrigChickSysRolandDeemphFilter(ChickSysCustomFirFilter):

    def __init__(self) -> None:
        super().__init__(
            _orig_h,
            _orig_delay_offset,
            _orig_k_gain
        )


New = common.ChickSysRolandDeemphFilter
Orig = OrigChickSysRolandDeemphFilter

FAILS = []
CHECKS = [0]


def same_value(a, b):
    if isinstance(a, np.ndarray) or isinstance(b, np.ndarray):
        return (isinstance(a, np.ndarray) and isinstance(b, np.ndarray)
                and a.dtype == b.dtype and a.shape == b.shape
                and a.flags.c_contiguous == b.flags.c_contiguous
                and a.tobytes() == b.tobytes())
    return type(a) is type(b) and a == b


def expect(label, ok, *info):
    CHECKS[0] += 1
    if not ok:
        FAILS.append((label,) + info)


def outcome(fn):
    try:
        return ("ok", fn())
    except BaseException as e:  # noqa
        return ("exc", type(e).__name__, str(e).replace("Orig", ""))


def same_outcome(a, b):
    if a[0] != b[0]:
        return False
    if a[0] == "exc":
        return a[1:] == b[1:]
    return same_value(a[1], b[1])


def state(f):
    return {k: (v.copy() if isinstance(v, np.ndarray) else v)
            for k, v in sorted(vars(f).items())}


def same_state(f, g):
    sf, sg = state(f), state(g)
    return sf.keys() == sg.keys() and all(same_value(sf[k], sg[k]) for k in sf)


def both(label, fo, fn, call):
    a = outcome(lambda: call(fo))
    b = outcome(lambda: call(fn))
    expect(label, same_outcome(a, b), a, b)
    expect(label + " state", same_state(fo, fn), state(fo), state(fn))


rng = random.Random(1910)
nrng = np.random.default_rng(1910)


def splits(n):
    if n == 0:
        yield []
        return
    if n <= 9:
        for bits in itertools.product([0, 1], repeat=n - 1):
            yield [i + 1 for i, b in enumerate(bits) if b] + [n]
    else:
        yield [n]
        yield list(range(1, n + 1))
        for _ in range(6):
            k = rng.randint(0, min(n - 1, 12))
            yield sorted(rng.sample(range(1, n), k)) + [n]


def run_stream(f, x, cuts):
    out = []
    lo = 0
    for hi in cuts:
        out.append(f.process(x[lo:hi]))
        lo = hi
    out.append(f.get_remaining())
    return np.concatenate(out)


def signals():
    for n in range(0, 10):
        yield nrng.integers(-32768, 32768, n).astype(np.int16)
    yield np.asarray([32767] * 40, dtype=np.int16)
    yield np.asarray([-32768] * 40, dtype=np.int16)
    yield np.asarray([32767, -32768] * 25, dtype=np.int16)
    yield np.asarray([0] * 30, dtype=np.int16)
    for _ in range(12):
        yield nrng.integers(-32768, 32768, rng.randint(10, 300)).astype(np.int16)
    for _ in range(4):
        yield nrng.choice(np.asarray([-32768, -32767, -1, 0, 1, 32766, 32767], dtype=np.int16),
                          rng.randint(20, 80))


def main():
    # 1. module-level constants: precomputed expected values
    h = common._chick_sys_roland_deemph_h
    expect("h type", type(h) is np.ndarray)
    expect("h value", same_value(h, _orig_h), h)
    expect("h writeable/owndata", h.flags.writeable == _orig_h.flags.writeable
           and h.flags.owndata == _orig_h.flags.owndata)
    expect("h list", h.tolist() == [1, -2, 5, -11, 25, -65, 176, -460, 9981, 32767, 9981,
                                    -460, 176, -65, 25, -11, 5, -2, 1])
    expect("h symmetric", h.tolist() == h.tolist()[::-1])
    expect("sum", int(np.sum(h.astype(np.int64))) == 52067)
    expect("k_gain", same_value(common._chick_sys_roland_deemph_k_gain, 52067))
    expect("delay", same_value(common._chick_sys_roland_deemph_delay_offset, 7))
    expect("mro", [c.__name__ for c in New.__mro__] ==
           ["ChickSysRolandDeemphFilter", "ChickSysCustomFirFilter", "FirFilter", "object"])
    # the other presets of the module are untouched
    expect("cdx", common._cdxtract_roland_deemph_h.tobytes().hex() ==
           "a600538029c0743f" "a2ca5065a832d43f" "9b43cda1e650e33f" "9b884dc42662b33f"
           + "00" * 32, common._cdxtract_roland_deemph_h.tobytes().hex())
    for name, b, a in [("ChickSysStandardDeemphFilter", [0.5923, 0.1516], [1.0, -0.2560]),
                       ("ChickSysDarkerDeemphFilter", [0.7071, 0.1213], [1.0, -0.1716]),
                       ("ChickSysSpecialDeemphFilter", [22082 / 32767, 4967 / 32767],
                        [1.0, -(8411 / 32767)])]:
        f = getattr(common, name)()
        expect(name, f.B.tolist() == b and f.A.tolist() == a, f.B, f.A)

    # 2. construction: same attributes, the kernel object is the shared constant
    fo, fn = Orig(), New()
    expect("ctor state", same_state(fo, fn), state(fo), state(fn))
    expect("attrs", sorted(vars(fn)) == ["N", "h", "k_gain", "m0", "m1", "x_prev"], sorted(vars(fn)))
    expect("values", (fn.N, fn.m0, fn.m1, fn.k_gain) == (19, 7, 11, 52067))
    expect("h identity", fn.h is common._chick_sys_roland_deemph_h and New().h is fn.h)
    expect("no-arg only", outcome(lambda: New(1))[:2] == outcome(lambda: Orig(1))[:2] == ("exc", "TypeError"))
    expect("no-kw only", outcome(lambda: New(h=1))[:2] == outcome(lambda: Orig(h=1))[:2] == ("exc", "TypeError"))

    # 3. streaming: every split of short signals, random splits of long ones
    for x in signals():
        for cuts in splits(len(x)):
            fo, fn = Orig(), New()
            both("stream", fo, fn, lambda f: run_stream(f, x, cuts))
            # and once more on the flushed filters
            both("stream again", fo, fn, lambda f: run_stream(f, x, cuts))

    # 4. step by step, state compared after every call; reset variants
    for _ in range(40):
        fo, fn = Orig(), New()
        for _ in range(rng.randint(1, 8)):
            op = rng.choice(["p", "p", "p", "r", "g", "bad"])
            if op == "p":
                x = nrng.integers(-32768, 32768, rng.randint(0, 30)).astype(np.int16)
                both("process", fo, fn, lambda f: f.process(x))
            elif op == "g":
                both("get_remaining", fo, fn, lambda f: f.get_remaining())
            elif op == "r":
                kw = rng.choice([{}, {"x_prev": None}, {"x_prev": np.asarray([3], dtype=np.int16)},
                                 {"x_prev": np.asarray([1.0, 2.0])}, {"x_prev": []}])
                both("reset", fo, fn, lambda f: f.reset_state(**kw))
            else:
                x = rng.choice([np.asarray([1.5, 2.5]), np.asarray(3), [1, 2], None,
                                np.zeros((2, 2), dtype=np.int16)])
                both("bad input", fo, fn, lambda f: f.process(x))

    print("checks: %d, failures: %d" % (CHECKS[0], len(FAILS)))
    for f in FAILS[:10]:
        print("FAIL", f)
    return 1 if FAILS else 0


if __name__ == "__main__":
    sys.exit(main())
