"""Equivalence demo for the IirFilter.reset_state refactoring (iir.pyx).

The .pyx is shipped pre-built, so the edited text has no runtime effect on
the compiled module.  To still exercise the *edited text*, the pure-Python
`class IirFilter` / `class ChickSysCustomIirFilter` blocks are cut out of
smpl_extract/filters/iir.pyx and exec'd with the compiled kernels
(_c_process / _c_chickensys_process) bound in their namespace.  The result
is compared against
  (a) an inline copy of the ORIGINAL class text, and
  (b) the compiled classes.
Exit 0 when everything agrees, 1 otherwise.
"""
import itertools
import os
import random
import sys
import warnings
from typing import Tuple

import numpy as np

import smpl_extract.filters.iir as compiled

warnings.simplefilter("ignore")

HERE = os.path.dirname(os.path.abspath(compiled.__file__))
PYX = os.path.join(HERE, "iir.pyx")


# ---------------------------------------------------------------- ORIGINAL
class OrigIirFilter:

    def __init__(self, B: np.ndarray, A: np.ndarray) -> None:
        self.B = B
        self.A = A
        self.n_x_prev = max(0, len(B) - 1)
        self.n_y_prev = max(0, len(A) - 1)
        self.reset_state()

    def reset_state(
            self,
            **kwargs
    ):
        x_prev = kwargs.get("x_prev", None)
        y_prev = kwargs.get("y_prev", None)
        x_prev = x_prev or np.zeros(self.n_x_prev, dtype=np.float64)
        y_prev = y_prev or np.zeros(self.n_y_prev, dtype=np.float64)
        self.x_prev = x_prev.astype(np.float64)
        self.y_prev = y_prev.astype(np.float64)

    def process(self, x: np.ndarray) -> np.ndarray:
        x = x.astype(dtype=np.float64)
        y = np.zeros((x.size,)).astype(np.float64)
        compiled._c_process(
            x,
            y,
            self.B,
            self.A,
            self.x_prev,
            self.y_prev
        )
        return y

    def get_remaining(self) -> np.ndarray:
        y = np.zeros((0,), dtype=np.float64)
        self.reset_state()
        return y


class OrigChickSysCustomIirFilter(OrigIirFilter):

    def __init__(self, coeffs: Tuple[float, float, float]) -> None:
        B = np.asarray([coeffs[0], coeffs[1]])
        A = np.asarray([1.0, -coeffs[2]])
        super().__init__(B, A)

    def process(self, x: np.ndarray) -> np.ndarray:
        y = np.zeros((x.size,)).astype(np.int16)
        compiled._c_chickensys_process(
            x,
            y,
            self.B,
            self.A,
            self.x_prev,
            self.y_prev
        )
        y = y.astype(np.int16)
        return y


# ------------------------------------------------- classes from the .pyx text
def _cut_class(lines, name):
    start = next(i for i, l in enumerate(lines) if l.startswith("class " + name))
    end = len(lines)
    for j in range(start + 1, len(lines)):
        l = lines[j]
        if l.strip() and not l[0].isspace():
            end = j
            break
    return "".join(lines[start:end])


def load_text_classes():
    with open(PYX, "r", encoding="utf-8") as fh:
        lines = fh.readlines()
    ns = {
        "np": np,
        "Tuple": Tuple,
        "_c_process": compiled._c_process,
        "_c_chickensys_process": compiled._c_chickensys_process,
    }
    exec(compile(_cut_class(lines, "IirFilter"), PYX + ":IirFilter", "exec"), ns)
    exec(compile(_cut_class(lines, "ChickSysCustomIirFilter"),
                 PYX + ":ChickSysCustomIirFilter", "exec"), ns)
    return ns["IirFilter"], ns["ChickSysCustomIirFilter"]


TextIir, TextChick = load_text_classes()

FAILS = []
CHECKS = [0]


def same_value(a, b):
    if isinstance(a, np.ndarray) or isinstance(b, np.ndarray):
        return (isinstance(a, np.ndarray) and isinstance(b, np.ndarray)
                and a.dtype == b.dtype and a.shape == b.shape
                and a.tobytes() == b.tobytes())
    return type(a) is type(b) and a == b


def outcome(fn):
    try:
        return ("ok", fn())
    except BaseException as e:  # noqa
        # the inline copies are called Orig...; ignore that in messages
        return ("exc", type(e).__name__, str(e).replace("'Orig", "'"))


def same_outcome(a, b):
    if a[0] != b[0]:
        return False
    if a[0] == "exc":
        return a[1:] == b[1:]
    return same_value(a[1], b[1])


def state(f):
    return {k: (v.copy() if isinstance(v, np.ndarray) else v)
            for k, v in sorted(vars(f).items())}


def same_state(f, g):
    sf, sg = state(f), state(g)
    return sf.keys() == sg.keys() and all(same_value(sf[k], sg[k]) for k in sf)


def check(label, *objs_and_calls):
    """objs_and_calls: list of (obj, callable) - first one is the reference."""
    CHECKS[0] += 1
    ref_obj, ref_call = objs_and_calls[0]
    ref_out = outcome(ref_call)
    for obj, call in objs_and_calls[1:]:
        out = outcome(call)
        if not same_outcome(ref_out, out):
            FAILS.append((label, "outcome", ref_out, out))
        elif not same_state(ref_obj, obj):
            FAILS.append((label, "state", state(ref_obj), state(obj)))


# ---------------------------------------------------------------- scenarios
rng = random.Random(1905)
nrng = np.random.default_rng(1905)


def coeff_sets():
    # NB: len(A) == 1 is deliberately not used: with an empty feedback
    # window the compiled kernel writes out of bounds (pre-existing, and
    # unrelated to this refactoring), which would abort the interpreter.
    yield np.asarray([1.0]), np.asarray([1.0, 0.0])
    yield np.asarray([0.5, 0.25]), np.asarray([1.0, -0.5])
    yield np.asarray([1.0, -1.0, 0.5]), np.asarray([2.0, 0.5])
    yield np.asarray([0.25]), np.asarray([1.0, 0.3, -0.2, 0.1])
    for _ in range(12):
        nb, na = rng.randint(1, 5), rng.randint(2, 5)
        A = nrng.uniform(-0.4, 0.4, na)
        A[0] = rng.choice([1.0, 2.0, -1.5, 0.5])
        yield nrng.uniform(-1, 1, nb), A


def reset_kwargs(n_x, n_y):
    """kwargs for reset_state, edge cases included."""
    yield {}
    yield {"x_prev": None}
    yield {"y_prev": None}
    yield {"x_prev": None, "y_prev": None, "unused": 3}
    # size-1 arrays: truthiness is the value's truthiness
    yield {"x_prev": np.asarray([2.5])}
    yield {"x_prev": np.asarray([0.0])}          # falsy -> replaced by zeros
    yield {"y_prev": np.asarray([-1.0])}
    yield {"y_prev": np.asarray([0.0])}
    yield {"x_prev": np.asarray([3], dtype=np.int16), "y_prev": np.asarray([7], dtype=np.int32)}
    yield {"x_prev": np.float64(1.5), "y_prev": np.float32(2.5)}   # numpy scalars have astype
    yield {"x_prev": np.float64(0.0)}
    # longer arrays: truth value is ambiguous -> ValueError, state untouched
    yield {"x_prev": np.asarray([1.0, 2.0])}
    yield {"y_prev": np.asarray([1.0, 2.0])}
    yield {"x_prev": np.asarray([1.0]), "y_prev": np.asarray([1.0, 2.0])}
    yield {"x_prev": np.asarray([1.0, 2.0]), "y_prev": np.asarray([1.0])}
    yield {"x_prev": np.zeros(n_x), "y_prev": np.zeros(n_y)}
    yield {"x_prev": np.asarray([])}
    yield {"y_prev": np.asarray([])}
    # non-arrays: falsy ones are replaced, truthy ones fail on .astype
    yield {"x_prev": []}
    yield {"x_prev": [1.0]}
    yield {"y_prev": [1.0]}
    yield {"x_prev": [1.0], "y_prev": [2.0]}
    yield {"x_prev": 0, "y_prev": 0.0}
    yield {"x_prev": 1.0}
    yield {"y_prev": "abc"}
    yield {"x_prev": (), "y_prev": ""}


def signals():
    yield np.asarray([], dtype=np.int16)
    yield np.asarray([1], dtype=np.int16)
    yield np.asarray([32767, -32768, 32767, -32768, 0, 1], dtype=np.int16)
    yield np.asarray([32767] * 9, dtype=np.int16)
    yield np.asarray([-32768] * 9, dtype=np.int16)
    for _ in range(6):
        n = rng.randint(1, 40)
        yield nrng.integers(-32768, 32768, n).astype(np.int16)


def splits(n):
    if n == 0:
        yield []
        return
    if n <= 5:
        for bits in itertools.product([0, 1], repeat=n - 1):
            cuts = [i + 1 for i, b in enumerate(bits) if b] + [n]
            yield cuts
    else:
        for _ in range(4):
            k = rng.randint(0, min(n - 1, 6))
            yield sorted(rng.sample(range(1, n), k)) + [n]


def run_stream(f, x, cuts):
    out = []
    lo = 0
    for hi in cuts:
        out.append(f.process(x[lo:hi]))
        lo = hi
    out.append(f.get_remaining())
    return np.concatenate(out) if out else np.asarray([])


def main():
    # 1. generic IIR: constructor, reset_state with many kwargs, streaming
    for B, A in coeff_sets():
        trio = [OrigIirFilter(B, A), TextIir(B, A), compiled.IirFilter(B, A)]
        check("init", *[(f, (lambda f=f: None)) for f in trio])
        for kw in reset_kwargs(trio[0].n_x_prev, trio[0].n_y_prev):
            # dirty the state first so that "state untouched on error" is visible
            warm = nrng.integers(-1000, 1000, 7).astype(np.int16)
            check("warm", *[(f, (lambda f=f: f.process(warm))) for f in trio])
            check("reset %r" % (sorted(kw),),
                  *[(f, (lambda f=f: f.reset_state(**kw))) for f in trio])
            x = nrng.integers(-32768, 32768, 11).astype(np.int16)
            check("after-reset process",
                  *[(f, (lambda f=f: f.process(x))) for f in trio])
            check("get_remaining",
                  *[(f, (lambda f=f: f.get_remaining())) for f in trio])
        for x in signals():
            for cuts in splits(len(x)):
                check("stream", *[(f, (lambda f=f: run_stream(f, x, cuts))) for f in trio])
            # reset makes the filter behave like a new one
            fresh = [OrigIirFilter(B, A), TextIir(B, A), compiled.IirFilter(B, A)]
            for f in trio:
                f.process(x)
                f.reset_state()
            check("reset==new", (fresh[0], lambda: fresh[0].process(x)),
                  *[(f, (lambda f=f: f.process(x))) for f in trio])

    # 2. ChickenSys custom IIR (inherits reset_state)
    presets = [(0.5923, 0.1516, 0.2560), (0.7071, 0.1213, 0.1716),
               (1.0 * 22082 / 32767, 1.0 * 4967 / 32767, 1.0 * 8411 / 32767),
               (1.0, 0.0, 0.0), (1.9, 0.9, 0.99)]
    for c in presets:
        trio = [OrigChickSysCustomIirFilter(c), TextChick(c), compiled.ChickSysCustomIirFilter(c)]
        for kw in reset_kwargs(1, 1):
            check("chick reset", *[(f, (lambda f=f: f.reset_state(**kw))) for f in trio])
            x = nrng.integers(-32768, 32768, 9).astype(np.int16)
            check("chick process", *[(f, (lambda f=f: f.process(x))) for f in trio])
        for x in signals():
            for cuts in splits(len(x)):
                check("chick stream", *[(f, (lambda f=f: run_stream(f, x, cuts))) for f in trio])

    print("checks: %d, failures: %d" % (CHECKS[0], len(FAILS)))
    for f in FAILS[:10]:
        print("FAIL", f)
    return 1 if FAILS else 0


if __name__ == "__main__":
    sys.exit(main())
