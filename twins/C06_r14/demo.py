"""Equivalence demo for ExportManager.make_output_path (C06, r14).

The live method is compared against an inline copy of the ORIGINAL body on
 * fake samples whose export_path() returns lists, tuples, generators, str,
   str subclasses, empty sequences, hostile components ('/', '..', '', NUL),
   non-string components, None, or raises - results, result types,
   exceptions and the number of export_path() calls are compared;
 * generalized Sample objects hanging off a chain of parents;
 * a complete in-memory image tree (directories three levels deep with
   colliding, hostile names) exported through Traversable.export_samples /
   ExportManager.export_samples into a fresh temporary directory with a
   recording export_wav, once with the live method and once with the
   ORIGINAL patched in: stdout, export_wav calls and the tree are compared;
 * subclasses of ExportManager and instances are checked to have no state
   that differs (vars()).
Exit status 0 when everything agrees, 1 otherwise.
"""
import contextlib
import io
import os
import random
import shutil
import sys
import tempfile

import smpl_extract.structural as structural
from smpl_extract.base import Element
from smpl_extract.generalized.sample import Sample
from smpl_extract.structural import ExportManager
from smpl_extract.structural import Image
from smpl_extract.structural import SampleElement
from smpl_extract.structural import Traversable


# --------------------------------------------------------------------------
# ORIGINAL implementation (verbatim)
# --------------------------------------------------------------------------
def original_make_output_path(self, sample):
    components = sample.export_path()
    result = "/".join(components)
    return result


LIVE = ExportManager.__dict__["make_output_path"]

FAILURES = []


def check(label, left, right):
    if left != right:
        FAILURES.append(label)
        print("MISMATCH", label)
        print("   original:", repr(left)[:400])
        print("   live    :", repr(right)[:400])


def outcome(func, *args):
    try:
        value = func(*args)
        return ("ok", type(value).__name__, value)
    except BaseException as error:  # noqa: BLE001 - compared, not hidden
        return ("raised", type(error).__name__, str(error))


# --------------------------------------------------------------------------
# part 1: fake samples
# --------------------------------------------------------------------------
class Shout(str):
    def __str__(self):
        return "SHOUT"

    def __format__(self, spec):
        return "SHOUT"


class FakeSample:
    def __init__(self, make):
        self.make = make
        self.calls = 0

    def export_path(self):
        self.calls += 1
        return self.make()


def raiser():
    raise LookupError("no export path")


COMPONENT_POOL = [
    "Kick", "Kick (2)", "Snare -L", "", " ", ".", "..", "/", "a/b", "\\", "a\\b",
    "\x00", "C:", "~", "0", "été", "录音", "x" * 300, "name.", " lead",
    Shout("quiet"),
]


def fake_factories():
    factories = [
        ("empty list", lambda: []),
        ("empty tuple", lambda: ()),
        ("one", lambda: ["A"]),
        ("two", lambda: ["A", "B"]),
        ("tuple", lambda: ("A", "B", "C")),
        ("generator", lambda: (c for c in ["A", "B", "C"])),
        ("iterator", lambda: iter(["A", "B"])),
        ("string", lambda: "ABC"),
        ("shout string", lambda: Shout("ABC")),
        ("dict", lambda: {"k1": 1, "k2": 2}),
        ("set one", lambda: {"only"}),
        ("none", lambda: None),
        ("int", lambda: 5),
        ("int member", lambda: ["A", 5]),
        ("none member", lambda: ["A", None]),
        ("bytes member", lambda: [b"A", b"B"]),
        ("raises", raiser),
    ]
    rng = random.Random(14)
    for number in range(300):
        picked = [rng.choice(COMPONENT_POOL) for _ in range(rng.randint(0, 6))]
        factories.append((f"random {number}", lambda picked=picked: list(picked)))
    return factories


class SubManager(ExportManager):
    pass


class SlashlessManager(ExportManager):
    """Overrides the method and calls up, like a caller-side customisation."""
    def make_output_path(self, sample):
        return super().make_output_path(sample).replace("/", "|")


def part_fakes():
    for manager_cls in (ExportManager, SubManager):
        for label, factory in fake_factories():
            results = []
            for impl in (original_make_output_path, LIVE):
                manager = manager_cls("dest", {})
                sample = FakeSample(factory)
                before = dict(vars(manager))
                result = outcome(impl, manager, sample)
                results.append((result, sample.calls, before == vars(manager)))
            check(f"fake {manager_cls.__name__}: {label}", results[0], results[1])
    # super() dispatch through an overriding subclass (live only has one body,
    # so patch the ORIGINAL into the base class for the reference run)
    for label, factory in fake_factories()[:40]:
        live = outcome(SlashlessManager("d").make_output_path, FakeSample(factory))
        ExportManager.make_output_path = original_make_output_path
        try:
            reference = outcome(SlashlessManager("d").make_output_path, FakeSample(factory))
        finally:
            ExportManager.make_output_path = LIVE
        check(f"override: {label}", reference, live)


# --------------------------------------------------------------------------
# part 2: generalized samples with parent chains
# --------------------------------------------------------------------------
class Node(Traversable):
    def __init__(self, name, path, parent, export_name=None):
        super().__init__(lambda additions: [], path=path, parent=parent)
        self.name = name
        self._export_name = export_name


def part_samples():
    rng = random.Random(141)
    for number in range(200):
        depth = rng.randint(0, 5)
        parent = None
        path = []
        for level in range(depth):
            name = rng.choice(COMPONENT_POOL)
            path = path + [name]
            export_name = rng.choice([None, None, rng.choice(COMPONENT_POOL)])
            parent = Node(name, path, parent, export_name)
        leaf_name = rng.choice(COMPONENT_POOL)
        sample = Sample(
            name=leaf_name,
            _parent=parent,
            _path=rng.choice([path + [leaf_name], [], [leaf_name]]),
            _export_name=rng.choice([None, rng.choice(COMPONENT_POOL)]),
        )
        manager = ExportManager("dest")
        check(f"sample chain {number}",
              outcome(original_make_output_path, manager, sample),
              outcome(LIVE, manager, sample))


# --------------------------------------------------------------------------
# part 3: whole export of an in-memory image tree
# --------------------------------------------------------------------------
class MemSample(SampleElement):
    type_name = "Mem Sample"

    def __init__(self, name, path, parent):
        Element.__init__(self, path, parent)
        self.name = name

    def to_generalized(self):
        return Sample(
            name=self.name,
            _parent=self.parent,
            _path=self.path,
            _safe_name=self.safe_name,
            _export_name=self.export_name,
        )


class MemDirectory(Traversable):
    def __init__(self, name, path, parent, spec, routines):
        super().__init__(self._realize, routines=routines, path=path, parent=parent)
        self.name = name
        self.spec = spec

    def _realize(self, additions):
        return build_children(self.spec, self.path, self, additions["_elem_routines"])


class MemImage(Image):
    name = "Mem Image"
    type_name = "Mem Image"

    def __init__(self, spec):
        super().__init__(self._realize)
        self.spec = spec

    def _realize(self, additions):
        return build_children(self.spec, self.path, self, additions["_elem_routines"])


def build_children(spec, path, parent, routines):
    children = []
    for entry in spec:
        if isinstance(entry, tuple):
            name, inner = entry
            children.append(MemDirectory(name, path + [name], parent, inner, routines))
        else:
            children.append(MemSample(entry, path + [entry], parent))
    return children


def random_spec(rng, depth):
    names = ["Kick", "Kick", "kick!", "Kick?", "Snare -L", "Snare -R", "Snare",
             "a/b", "a\\b", "..", ".", "", "'q'", "x:y", "Kick (2)", "Pad L",
             "Pad R", "name.", "-lead", "#1", "été", "Bass-L", "Bass-R"]
    spec = []
    for _ in range(rng.randint(1, 7)):
        name = rng.choice(names)
        if depth < 3 and rng.random() < 0.35:
            spec.append((name, random_spec(rng, depth + 1)))
        else:
            spec.append(name)
    return spec


def tree(root):
    found = {}
    for directory, _, files in os.walk(root):
        for file_name in files:
            full = os.path.join(directory, file_name)
            with open(full, "rb") as handle:
                found[os.path.relpath(full, root)] = handle.read()
    return found


def export_run(spec, destination, use_original):
    calls = []

    def fake_export_wav(sample, total_path):
        calls.append((sample.name, os.path.relpath(total_path, destination)))
        with open(total_path, "ab") as handle:
            handle.write(sample.name.encode("utf-8") + b"\n")

    saved_wav = structural.export_wav
    structural.export_wav = fake_export_wav
    if use_original:
        ExportManager.make_output_path = original_make_output_path
    captured = io.StringIO()
    try:
        image = MemImage(spec)
        image.set_routines({
            "make_safe_names": image.make_safe_names_routine,
            "make_export_names": image.make_export_names_routine,
        })
        manager = ExportManager(destination, {"combine_stereo": image.combine_stereo_routine})
        with contextlib.redirect_stdout(captured):
            result = outcome(image.export_samples, manager)
    finally:
        structural.export_wav = saved_wav
        ExportManager.make_output_path = LIVE
    return result, captured.getvalue(), calls, tree(destination)


def part_export(root):
    rng = random.Random(1414)
    exported = 0
    for number in range(60):
        spec = random_spec(rng, 0)
        runs = []
        for use_original in (True, False):
            destination = os.path.join(root, f"out{number}_{int(use_original)}", "a", "b", "c", "d")
            os.makedirs(destination)
            runs.append(export_run(spec, destination, use_original))
        exported += len(runs[1][2])
        check(f"export {number}", runs[0], runs[1])
    if exported < 100:
        FAILURES.append("export part exported too little to be meaningful")
        print("only", exported, "samples exported")


def main():
    root = tempfile.mkdtemp(prefix="r14demo_")
    try:
        part_fakes()
        part_samples()
        part_export(root)
    finally:
        shutil.rmtree(root, ignore_errors=True)
    if FAILURES:
        print(f"{len(FAILURES)} mismatches")
        return 1
    print("all scenarios agree")
    return 0


if __name__ == "__main__":
    sys.exit(main())
