"""Equivalence demo for r7: IdAreaAdapter._decode (table + for/append loop
replaced by an extracted _require_match helper called three times in the same
order; groups()[n] -> group(n+1)).

Compares the live IdAreaAdapter against an inline copy of the ORIGINAL adapter
both by calling _decode on hand-made containers and by parsing 512-byte ID
areas through the full construct; also checks is_roland_s7xx_image.
"""
import io
import itertools
import random
import re
import struct
import sys
from typing import List, Match, cast

from construct.core import Adapter
from construct.core import ConstructError
from construct.core import Container

from smpl_extract.roland.s7xx.image import IdArea
from smpl_extract.roland.s7xx.image import IdAreaAdapter
from smpl_extract.roland.s7xx.image import IdAreaContainer
from smpl_extract.roland.s7xx.image import IdAreaStruct
from smpl_extract.roland.s7xx.image import is_roland_s7xx_image


class OriginalIdAreaAdapter(Adapter):

    _S7XX_REGEX = re.compile(r"\s*S7\d\d\s+MR25A", flags=re.I)
    _VERSION_REGEX = re.compile(
        r"\s*([Ss][A-z]*-\d+)\s+([A-z\s\-]*?Disk)\s?([A-z\s]*?)\s+Ver\.?\s*(\d(\.\d+)?[\w-]*)\s*",
        flags=re.I
    )
    _COPYRIGHT_REGEX = re.compile(r"\s*Copyright\s+Roland", flags=re.I)

    def _decode(self, obj, context, path) -> IdArea:
        del context, path  # unused

        container = cast(IdAreaContainer, obj)

        verifications = (
            (container.s7xx_str, self._S7XX_REGEX),
            (container.version_str, self._VERSION_REGEX),
            (container.copyright_str, self._COPYRIGHT_REGEX)
        )
        match_results: List[Match[str]] = []

        for test_str, regex in verifications:
            match_result = regex.match(test_str)
            if not match_result:
                raise ConstructError

            match_results.append(match_result)

        model_version = match_results[1].groups()[0]
        disk_type = match_results[1].groups()[1]
        disk_version = match_results[1].groups()[3]

        result = IdArea(
            revision=container.revision,
            model_version=model_version,
            disk_type=disk_type,
            disk_version=disk_version,
            disk_name=container.disk_name,
            disk_capacity=container.disk_capacity,
            num_volumes=container.num_volumes,
            num_performances=container.num_performances,
            num_patches=container.num_patches,
            num_partials=container.num_partials,
            num_samples=container.num_samples
        )

        return result

    def _encode(self, obj, context, path):
        raise NotImplementedError


NEW = IdAreaAdapter(IdAreaStruct)
OLD = OriginalIdAreaAdapter(IdAreaStruct)


def outcome(fn):
    try:
        return ("ret", fn())
    except BaseException as e:  # noqa
        return ("exc", type(e).__name__, str(e), type(e).__mro__[1].__name__)


S7XX = ["S770 MR25A", "  S750   MR25A", "s772 mr25a", "S77 MR25A", "S770MR25A",
        "S770 MR25", "", "X", "S7a0 MR25A", "\tS700\nMR25Axyz", "S7700 MR25A", None]
VERSION = [
    "S-770 Hard Disk Ver. 2.24", "S-770 Sampler Disk  Ver 1.0", "S-750 Utility Disk Ver.1.03a",
    "s-7 DISK System ver 3", "SP-700 CD-ROM Disk Sound Library Ver. 1.00-b2",
    "  SR-JV80-01   Hard Disk   Ver.  2.", "S-770 Hard Disk Ver. x", "S-770 Hard Ver. 2.24",
    "770 Hard Disk Ver. 2.24", "S-770 Hard Disk 2.24", "", "S-770  Disk Ver.2",
    "S[x]-1 a-b Disk Ver 1.2.3", "S-770 Hard Disk A B C  Ver.9.99_z-1 trailing", "S_^-12 `Disk Ver 0",
    "S-770\tHard\nDisk\rVer.\n7", "S-770 Disk1 Ver 1", 5,
]
COPYRIGHT = ["Copyright Roland", " copyright   ROLAND Corp. 1990", "CopyrightRoland",
             "Copyleft Roland", "", "(c) Roland", "Copyright\tRoland", None]


def make(s, v, c, **over):
    d = dict(revision=7, s7xx_str=s, empty_str="", version_str=v, copyright_str=c,
             disk_name="DISK NAME", disk_capacity=123456, num_volumes=1,
             num_performances=2, num_patches=3, num_partials=4, num_samples=5)
    d.update(over)
    return Container(**d)


def pad(text, n):
    b = text.encode("ascii", "replace") if isinstance(text, str) else text
    return b[:n].ljust(n, b"\x00")


def id_area_bytes(s, v, c, name="NAME", nums=(1, 2, 3, 4, 5)):
    out = struct.pack("<I", 9)
    out += pad(s, 10) + b"\x00" * 2
    out += pad("", 15) + b"\x00"
    out += pad(v, 31) + b"\x00"
    out += pad(c, 31) + b"\x00"
    out += b"\x00" * 160
    out += pad(name, 16)
    out += struct.pack("<I", 77777)
    out += struct.pack("<5H", *nums)
    return out.ljust(512, b"\x00")


def main():
    rng = random.Random(77)
    checked = bad = 0

    def check(label, a, b):
        nonlocal checked, bad
        checked += 1
        if a != b:
            bad += 1
            if bad < 10:
                print("MISMATCH", label, a, b)

    # 1. direct _decode on containers (all combinations)
    for s, v, c in itertools.product(S7XX, VERSION, COPYRIGHT):
        obj = make(s, v, c)
        check(("decode", s, v, c),
              outcome(lambda: OLD._decode(obj, {}, "p")),
              outcome(lambda: NEW._decode(obj, {}, "p")))

    # 2. containers with a field missing (attribute errors must surface identically)
    full = dict(make(S7XX[0], VERSION[0], COPYRIGHT[0]))
    for missing in list(full) + [None]:
        for s, v, c in ((S7XX[0], VERSION[0], COPYRIGHT[0]), ("bad", VERSION[0], COPYRIGHT[0]),
                        (S7XX[0], "bad", COPYRIGHT[0]), (S7XX[0], VERSION[0], "bad"),
                        ("bad", "bad", "bad")):
            d = dict(make(s, v, c))
            if missing:
                del d[missing]
            obj = Container(**d)
            check(("missing", missing, s, v, c),
                  outcome(lambda: OLD._decode(obj, {}, "p")),
                  outcome(lambda: NEW._decode(obj, {}, "p")))

    # 3. full parse of byte images + is_roland_s7xx_image
    str_s = [x for x in S7XX if isinstance(x, str)] + [b"S770 MR25\xC1"]
    str_v = [x for x in VERSION if isinstance(x, str)] + [b"S-770 Hard Disk Ver. 2\xFF"]
    str_c = [x for x in COPYRIGHT if isinstance(x, str)] + [b"Copyright Roland \x80"]
    for s, v, c in itertools.product(str_s, str_v, str_c):
        data = id_area_bytes(s, v, c)
        a = outcome(lambda: OLD.parse(data))
        b = outcome(lambda: NEW.parse(data))
        check(("parse", s, v, c), a, b)
        st = io.BytesIO(data + b"tail")
        st.seek(5)
        want = a[0] == "ret"
        check(("is_roland", s, v, c), (want, 5), (is_roland_s7xx_image(st), st.tell()))

    # 4. random / truncated byte images
    good = id_area_bytes(S7XX[0], VERSION[0], COPYRIGHT[0])
    for _ in range(600):
        d = bytearray(good)
        for _ in range(rng.randrange(0, 4)):
            d[rng.randrange(0, 100)] = rng.choice([0, 32, 65, 0x80, 0xFF, rng.getrandbits(8)])
        data = bytes(d[:rng.choice([512, 512, 512, 300, 286, 285, 100, 0])])
        check(("rand", data[:100]), outcome(lambda: OLD.parse(data)), outcome(lambda: NEW.parse(data)))

    # sanity
    r = NEW.parse(good)
    assert (r.model_version, r.disk_type, r.disk_version) == ("S-770", "Hard Disk", "2.24"), r
    assert outcome(lambda: NEW.parse(id_area_bytes("nope", VERSION[0], COPYRIGHT[0])))[1] == "ConstructError"

    print("checked", checked, "mismatches", bad)
    return 1 if bad else 0


if __name__ == "__main__":
    sys.exit(main())
