"""Equivalence demo for r2: SegmentAllocationTableAdapter._decode
(smpl_extract/akai/sat.py).

Compares the live _decode against an inline copy of the ORIGINAL
implementation on exhaustive small raw SAT word tables and random large
ones (cycles, self links, cross links, out-of-range links, reserved runs).
Exit 0 when everything agrees, 1 otherwise.
"""
import itertools
import random
import sys

from construct.core import Int16ul

from smpl_extract.akai.data_types import AKAI_SAT_EOF_FLAG
from smpl_extract.akai.data_types import AKAI_SAT_FREE_FLAG
from smpl_extract.akai.data_types import AKAI_SAT_RESERVED_FLAG_STD
from smpl_extract.akai.data_types import AKAI_SAT_RESERVED_FLAG_V2
from smpl_extract.akai.sat import SegmentAllocationTable
from smpl_extract.akai.sat import SegmentAllocationTableAdapter
from smpl_extract.util.fat import SectorLink
from smpl_extract.util.fat import add_to_sector_links


def original_decode(self, obj, context, path):
    del path  # Unused
    block = obj
    if callable(self.partition_stream):
        partition_stream = self.partition_stream(context)
    else:
        partition_stream = self.partition_stream

    size = len(block)
    sector_links = [SectorLink()] * size
    dirty_flags = [False] * size

    previous_sector_was_directory = True
    for i in range(size):
        if not dirty_flags[i]:

            links = []
            subpath_index = i

            continue_flag = True
            while continue_flag:
                if subpath_index >= size:
                    continue_flag = False
                    break

                value_current = block[subpath_index]
                current_sector_is_directory = value_current in (
                        AKAI_SAT_RESERVED_FLAG_STD,
                        AKAI_SAT_RESERVED_FLAG_V2
                )

                if not current_sector_is_directory and previous_sector_was_directory and len(links) > 0:
                    add_to_sector_links(links, sector_links)
                    previous_sector_was_directory = False
                    continue_flag = False
                    break
                elif value_current == AKAI_SAT_FREE_FLAG or \
                        (value_current < size and dirty_flags[value_current]):

                    continue_flag = False
                    dirty_flags[subpath_index] = True
                    previous_sector_was_directory = False
                    break
                elif value_current == AKAI_SAT_EOF_FLAG:
                    links.append(subpath_index)
                    add_to_sector_links(links, sector_links)
                    dirty_flags[subpath_index] = True
                    previous_sector_was_directory = current_sector_is_directory
                    continue_flag = False
                    break

                dirty_flags[subpath_index] = True
                links.append(subpath_index)
                if not current_sector_is_directory:
                    subpath_index = value_current
                else:
                    subpath_index += 1
                previous_sector_was_directory = current_sector_is_directory

        else:
            pass

    result = SegmentAllocationTable(partition_stream, size, sector_links)
    return result


def describe(table):
    links = table.sector_links
    first_seen = {}
    sharing = []
    for idx, link in enumerate(links):
        sharing.append(first_seen.setdefault(id(link), idx))
    return (
        type(table),
        id(table.parent_stream),
        table.size,
        [(type(l), l.next, l.end) for l in links],
        sharing,
    )


def outcome(fn, *args):
    try:
        return ("ok", describe(fn(*args)))
    except Exception as e:  # noqa: BLE001
        return ("exc", type(e), e.args)


STREAM = object()
ADAPTER = SegmentAllocationTableAdapter(STREAM, Int16ul[1])
checked = 0
mismatches = 0


def compare(block, adapter=ADAPTER, context=None):
    global checked, mismatches
    new = outcome(adapter._decode, list(block), context, None)
    old = outcome(original_decode, adapter, list(block), context, None)
    checked += 1
    if new != old:
        mismatches += 1
        if mismatches <= 10:
            print("MISMATCH block=%r\n  new=%r\n  old=%r" % (block, new, old))


def alphabet(n):
    return [
        AKAI_SAT_FREE_FLAG,           # free (also the in-range link 0)
        AKAI_SAT_EOF_FLAG,
        AKAI_SAT_RESERVED_FLAG_STD,
        AKAI_SAT_RESERVED_FLAG_V2,
        0x4001,                       # near a flag, out of range
        0xFFFF,
    ] + list(range(1, n + 2))         # in-range links, n and n+1 out of range


# --- exhaustive for up to 5 sectors -------------------------------------------
for n in range(0, 6):
    for block in itertools.product(alphabet(n), repeat=n):
        compare(block)

# --- random 6..9 sector tables ---------------------------------------------
rng = random.Random(0xC07)
for _ in range(150000):
    n = rng.randrange(6, 10)
    alpha = alphabet(n)
    compare([rng.choice(alpha) for _ in range(n)])

# --- callable partition stream / context pass-through -----------------------
calls = []


def stream_factory(ctx):
    calls.append(ctx)
    return STREAM


callable_adapter = SegmentAllocationTableAdapter(stream_factory, Int16ul[1])
for n in range(0, 4):
    for block in itertools.product(alphabet(n), repeat=n):
        compare(block, callable_adapter, {"ctx": n})
if len(calls) % 2 or any(a is not b for a, b in zip(calls[0::2], calls[1::2])):
    mismatches += 1
    print("MISMATCH in partition_stream(context) calls")

# --- random tables of realistic size ----------------------------------------
for trial in range(60):
    n = rng.choice([200, 2000, 11386])
    block = []
    for i in range(n):
        r = rng.random()
        if i < 4 or r < 0.02:
            block.append(rng.choice([AKAI_SAT_RESERVED_FLAG_STD,
                                     AKAI_SAT_RESERVED_FLAG_V2]))
        elif r < 0.10:
            block.append(AKAI_SAT_FREE_FLAG)
        elif r < 0.18:
            block.append(AKAI_SAT_EOF_FLAG)
        elif r < 0.80:
            block.append(i + 1)                      # may be == n at the end
        elif r < 0.97:
            block.append(rng.randrange(n))           # cycles/cross-links/merges
        else:
            block.append(rng.randrange(n, 0x4000))   # out of range
    compare(block)

print("checked %d cases, %d mismatches" % (checked, mismatches))
sys.exit(1 if mismatches else 0)
