"""Equivalence demo for the refactoring of smpl_extract.actions.parse_text_file
(property C17: ASCII text probe).

Compares the live parse_text_file with an inline copy of the ORIGINAL
implementation on many files (ASCII / non-ASCII / binary / empty / missing /
directory / large files with a late non-ASCII byte ...): returned list,
exception type, args, __cause__ (type + args), and that no file descriptor
is left open.  Exit status 0 when everything agrees, 1 otherwise.
"""
import os
import random
import sys
import tempfile

import smpl_extract.actions as live
from smpl_extract.actions import BadTextFile


# ---- inline copy of the ORIGINAL implementation --------------------------
def original_parse_text_file(filename: str):
    with open(filename, "r", encoding="ascii") as file:
        try:
            text = file.readlines()
        except (UnicodeDecodeError) as e:
            raise BadTextFile from e
        return text
# ---------------------------------------------------------------------------


def open_fds():
    try:
        return sorted(os.listdir("/proc/self/fd"))
    except OSError:
        return None


def describe_exception(e):
    if e is None:
        return None
    args = tuple(a if isinstance(a, (str, int, bytes)) else repr(a)
                 for a in e.args)
    return (type(e).__module__, type(e).__name__, args)


def run(function, filename):
    before = open_fds()
    try:
        outcome = ("ok", function(filename))
    except BaseException as e:  # noqa: BLE001 - compare whatever is raised
        outcome = ("raise", describe_exception(e),
                   describe_exception(e.__cause__),
                   describe_exception(e.__context__),
                   e.__suppress_context__,
                   type(e) is BadTextFile)
    after = open_fds()
    return outcome, before == after


CUE = (
    'REM GENRE Test\r\n'
    'FILE "image.bin" BINARY\r\n'
    '  TRACK 01 AUDIO\r\n'
    '    TITLE "One"\r\n'
    '    INDEX 01 00:00:00\r\n'
    '  track 02 audio\n'
    '    index 00 03:10:11\n'
    '    index 01 03:12:11\n'
)


def contents():
    yield b""
    yield b"\n"
    yield b"no newline at end"
    yield b"a\nb\nc\n"
    yield b"a\r\nb\r\nc\r\n"
    yield b"a\rb\rc\r"
    yield b"mixed\r\n\n\r\r\nend"
    yield CUE.encode("ascii")
    yield CUE.upper().encode("ascii")
    yield CUE.lower().encode("ascii")
    yield b"\x00\x01\x02\x7f\n\x1a\x0c\x0b"          # ASCII control bytes
    yield b"\x7f" * 10
    yield b"\x80"                                     # first non-ASCII byte
    yield b"\xff\xfe"
    yield "FILE \"é.bin\" BINARY\n".encode("utf-8")
    yield "FILE \"é.bin\" BINARY\n".encode("latin-1")
    yield CUE.encode("utf-16")
    yield b"\xef\xbb\xbf" + CUE.encode("ascii")       # UTF-8 BOM
    yield CUE.encode("ascii") + b"\xe9"
    yield b"\xe9" + CUE.encode("ascii")
    # large files: bad byte far beyond the first read chunk / at chunk edges
    yield b"x" * 8191 + b"\n"
    yield b"x" * 8192 + b"\x80"
    yield b"line\n" * 50000
    yield b"line\n" * 50000 + b"\x80\n"
    yield b"line\n" * 20000 + b"\xc3\xa9\n" + b"line\n" * 20000
    yield b"y" * 200000
    rng = random.Random(17)
    for _ in range(150):
        n = rng.randrange(0, 300)
        # mostly ASCII, sometimes a high byte
        high = rng.random() < 0.4
        data = bytearray(rng.choice(b"abc XYZ\n\r\t\"0123456789:") for _ in range(n))
        if high and n:
            data[rng.randrange(n)] = rng.randrange(0x80, 0x100)
        yield bytes(data)
    for _ in range(50):
        yield bytes(rng.randrange(256) for _ in range(rng.randrange(1, 64)))


def main():
    failures = []
    n = 0
    with tempfile.TemporaryDirectory() as directory:
        names = []
        for i, data in enumerate(contents()):
            name = os.path.join(directory, "f%04d.cue" % i)
            with open(name, "wb") as f:
                f.write(data)
            names.append(name)
        # non-file arguments
        names.append(os.path.join(directory, "does-not-exist.cue"))
        names.append(directory)                       # IsADirectoryError
        names.append(os.path.join(directory, "f0000.cue", "below-a-file"))
        names.append("")
        names.append("bad\x00name")                   # ValueError: null byte
        unreadable = os.path.join(directory, "unreadable.cue")
        with open(unreadable, "wb") as f:
            f.write(b"secret\n")
        os.chmod(unreadable, 0)
        names.append(unreadable)

        for name in names:
            expected = run(original_parse_text_file, name)
            actual = run(live.parse_text_file, name)
            n += 1
            if expected != actual:
                failures.append((name, expected, actual))
            if not expected[1] or not actual[1]:
                failures.append((name, "file descriptor leaked",
                                 expected[1], actual[1]))
        os.chmod(unreadable, 0o600)

    print("files: %d; failures: %d" % (n, len(failures)))
    for failure in failures[:10]:
        print("MISMATCH", repr(failure)[:500])
    return 1 if failures else 0


if __name__ == "__main__":
    sys.exit(main())
