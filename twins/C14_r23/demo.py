"""Equivalence demo for r23 (smpl_extract/akai/file.py, the FileConstruct
declaration).

FileConstruct is the Switch that picks the parser of one AKAI file from the
`file_type` of its file table entry.  FileAdapter._parse runs it when
FileEntry.file is read, i.e. inside the lazy per-file parse of
Volume._realize_files, which swallows the error of a file that does not parse
so that only that file disappears from the listing.

The refactoring (three idioms combined)
  * hoists the four FileType keys of the dict literal into two module-level
    tuples (_SAMPLE_FILE_TYPES, _PROGRAM_FILE_TYPES),
  * builds the cases in a small factory function _file_parsers(): a dict
    comprehension over the sample types (a SampleAdapter of its own per type,
    as before) followed by dict.fromkeys over the program types (the one
    shared ProgramParser, as before),
  * drops the duplicated `from .data_types import FileType` line.

The ORIGINAL declaration is rebuilt inline and compared with the live one.

 A. structure: keys (order, type, identity), type of every case, the two
    sample adapters are distinct objects around SampleHeaderConstruct, both
    program cases are the ProgramParser object itself, default, keyfunc,
    flagbuildnone, sizeof for every key.
 B. parsing: original and live Switch (and FileAdapter around each) on sample
    files, program files (0, 1 and 2 keygroups), truncated and randomly
    damaged copies, for every FileType member, every int 0..255 and some odd
    file_type values.  Compared: the decoded object (fields, names, paths,
    audio bytes, keygroups) or the error type / text / cause, and the stream
    position afterwards.
 C. end to end: synthetic AKAI partitions holding samples, programs and a drum
    file, with the damage of property C14 on the file table entries and on the
    file headers, listed (entries, Volume.files, audio) once with the original
    Switch patched into smpl_extract.akai.file / file_entry and once with the
    live one.  Compared: everything listed, errors, and the trace of every
    seek/read/tell on the image stream.

Exit 0 when everything agrees, 1 otherwise.
"""
from construct.core import ConstructError
from construct.core import Pass
from construct.core import Switch

import smpl_extract.akai.file as file_mod
import smpl_extract.akai.file_entry as file_entry_mod
from smpl_extract.akai.data_types import FileType
from smpl_extract.akai.file import FileAdapter
from smpl_extract.akai.keygroup import KeygroupConstruct
from smpl_extract.akai.keygroup import KeygroupContainer
from smpl_extract.akai.keygroup import VelocityZoneContainer
from smpl_extract.akai.program import ProgramParser
from smpl_extract.akai.sample import SampleAdapter
from smpl_extract.akai.sample import SampleHeaderConstruct
from construct.expr import this as _this


# ---------------------------------------------------------------- original
ORIG = Switch(
    _this.file_type,
    {
        FileType.SAMPLE_S1000:  SampleAdapter(SampleHeaderConstruct),
        FileType.SAMPLE_S3000:  SampleAdapter(SampleHeaderConstruct),
        FileType.PROGRAM_S1000: ProgramParser,
        FileType.PROGRAM_S3000: ProgramParser
    }
)

LIVE = file_mod.FileConstruct
IMPLS = (ORIG, LIVE)


class patched:
    def __init__(self, construct):
        self.construct = construct

    def __enter__(self):
        file_mod.FileConstruct = self.construct
        file_entry_mod.FileConstruct = self.construct

    def __exit__(self, *exc):
        file_mod.FileConstruct = LIVE
        file_entry_mod.FileConstruct = LIVE
        return False


def both(fn, *args, **kw):
    out = []
    for impl in IMPLS:
        with patched(impl):
            out.append(fn(*args, **kw))
    return out

# ------------------------------------------------------------ shared harness
# (synthetic AKAI partitions, damaged the way property C14 damages them, and a
# traced listing of their volumes)
import io
import random
import struct
import sys

from construct.core import Int16ul
from construct.core import Struct
from construct.expr import this

from smpl_extract.akai.akai_string import char_ascii_to_akai
from smpl_extract.akai.data_types import AKAI_PARTITION_MAGIC
from smpl_extract.akai.data_types import AKAI_SAT_ENTRY_CNT
from smpl_extract.akai.data_types import AKAI_VOLUME_ENTRY_CNT
from smpl_extract.akai.file_entry import FileEntriesAdapter
from smpl_extract.akai.file_entry import FileEntryConstruct
from smpl_extract.akai.partition import PartitionHeaderConstruct
from smpl_extract.akai.sat import SegmentAllocationTable
from smpl_extract.akai.sat import SegmentAllocationTableAdapter
from smpl_extract.akai.volume import Volume
from smpl_extract.akai.volume import VolumeEntryConstruct
from smpl_extract.util.stream import StreamOffset

failures = []
checked = 0


def check(cond, msg):
    global checked
    checked += 1
    if not cond:
        failures.append(msg)


def outcome(fn, *args, **kw):
    """('ok', type, value) or ('raise', type, text, cause type, context type)."""
    try:
        value = fn(*args, **kw)
    except BaseException as e:  # noqa: B902
        return ("raise", type(e), str(e).split("\n")[0],
                type(e.__cause__), type(e.__context__))
    return ("ok", type(value), value)


SECT = 0x2000
PREAMBLE_HDR_LEN = 2 + 2 + len(AKAI_PARTITION_MAGIC) + 4
PREAMBLE_LEN = PREAMBLE_HDR_LEN + 16 * AKAI_VOLUME_ENTRY_CNT + 2 * AKAI_SAT_ENTRY_CNT

HeaderSatParser = Struct(
    "header" / PartitionHeaderConstruct,
    "volume_entries_raw" / Int16ul[8 * AKAI_VOLUME_ENTRY_CNT],
    "sat" / SegmentAllocationTableAdapter(
        this.header.partition_stream,
        Int16ul[AKAI_SAT_ENTRY_CNT]  # type: ignore
    ),
)


def akai_name(text):
    return bytes(char_ascii_to_akai(text.ljust(12)[:12]))


def record(name, ftype, size, start, pad1=b"\0" * 4, pad2=b"\0\0"):
    return (
        akai_name(name) + pad1 + bytes([ftype]) + size.to_bytes(3, "little")
        + struct.pack("<H", start) + pad2
    )


def make_sample(name, n_words, seed, sample_id=3, loop_type=2, rate=44100):
    """an AKAI sample file: 140 byte header + n_words 16 bit words."""
    rng = random.Random(seed)
    hdr = bytearray(140)
    hdr[0] = sample_id
    hdr[2] = 60
    hdr[3:15] = akai_name(name)
    hdr[19] = loop_type
    hdr[26:30] = struct.pack("<I", n_words)
    hdr[30:34] = struct.pack("<I", 0)
    hdr[34:38] = struct.pack("<I", n_words)
    hdr[138:140] = struct.pack("<H", rate)
    return bytes(hdr) + bytes(rng.getrandbits(8) for _ in range(2 * n_words))


def make_partition(size, volumes):
    """volumes: list of (name, type, [(fname, ftype, data)])."""
    buf = bytearray(size * SECT)
    hdr = (
        struct.pack("<H", size)
        + b"\x00\x00" + AKAI_PARTITION_MAGIC + b"\x55\xba\x2f\x00"
    )
    buf[:len(hdr)] = hdr
    sat = [0] * AKAI_SAT_ENTRY_CNT
    sat[0] = sat[1] = sat[2] = 0x4000
    next_sector = 3
    vol_entries = b""
    for vname, vtype, files in volumes:
        vsect = next_sector
        next_sector += 1
        sat[vsect] = 0xC000
        vol_entries += akai_name(vname) + struct.pack("<HH", vtype, vsect)
        table = b""
        for fname, ftype, data in files:
            nsect = max(1, -(-len(data) // SECT))
            start = next_sector
            for k in range(nsect):
                sat[start + k] = start + k + 1 if k < nsect - 1 else 0xC000
            next_sector += nsect
            buf[start * SECT:start * SECT + len(data)] = data
            table += record(fname, ftype, len(data), start)
        table += b"\x00" * 8 + struct.pack("<H", 0xD747) + b"\x00" * 14
        buf[vsect * SECT:vsect * SECT + len(table)] = table
    assert next_sector <= max(size, 3)
    off = len(hdr)
    buf[off:off + len(vol_entries)] = vol_entries
    off = len(hdr) + 16 * AKAI_VOLUME_ENTRY_CNT
    buf[off:off + 2 * AKAI_SAT_ENTRY_CNT] = struct.pack(
        f"<{AKAI_SAT_ENTRY_CNT}H", *sat
    )
    return bytes(buf)


class TracingFile(io.BytesIO):

    def __init__(self, data):
        super().__init__(data)
        self.trace = []

    def tell(self):
        pos = super().tell()
        self.trace.append(("tell", pos))
        return pos

    def seek(self, *args):
        pos = super().seek(*args)
        self.trace.append(("seek", args, pos))
        return pos

    def read(self, *args):
        data = super().read(*args)
        self.trace.append(("read", args, len(data)))
        return data


class VolParent:
    path = ["IMG", "A:"]


_sat_cache = {}


def load_image(data):
    """header and SAT are decoded once per distinct header+SAT (the SAT decoder
    is slow); the SAT object of an image is rebuilt around that image's own
    traced stream the way the partition parser builds it (StreamOffset over
    the file, offset 0)."""
    vol_off = PREAMBLE_HDR_LEN
    key = bytes(data[:vol_off]) + bytes(data[vol_off + 16 * AKAI_VOLUME_ENTRY_CNT:PREAMBLE_LEN])
    if key not in _sat_cache:
        try:
            pre = HeaderSatParser.parse_stream(io.BytesIO(data))
        except BaseException as e:  # noqa: B902
            _sat_cache[key] = ("preamble-raise", type(e), str(e))
        else:
            _sat_cache[key] = (
                "ok", pre.header.total_size, pre.sat.size, pre.sat.sector_links
            )
    cached = _sat_cache[key]
    if cached[0] == "preamble-raise":
        return cached
    f = TracingFile(data)
    partition_stream = StreamOffset(f, cached[1], offset=0)
    sat = SegmentAllocationTable(partition_stream, cached[2], cached[3])
    return (f, sat)


def describe_file(f):
    item = [type(f).__name__, getattr(f, "name", None), list(getattr(f, "path", []))]
    for attr in ("sample_type", "sample_rate", "samples_cnt", "start", "end",
                 "loop_type", "note_pitch"):
        if hasattr(f, attr):
            item.append((attr, str(getattr(f, attr))))
    stream = getattr(f, "_data_stream", None)
    if stream is not None:
        try:
            stream.seek(0, 0)
            item.append(stream.read(6000))
            item.append(stream.tell())
        except BaseException as e:  # noqa: B902
            item.append(("data-raise", type(e), str(e)))
    return item


def describe_entries(entries):
    out = []
    for entry in entries:
        item = [type(entry).__name__, entry.name, str(entry.file_type),
                int(entry.file_type), type(entry.file_type).__name__]
        try:
            f = entry.file
        except BaseException as e:  # noqa: B902
            item.append(("file-raise", type(e), str(e).split("\n")[0],
                         type(e.__cause__), type(e.__context__)))
            out.append(item)
            continue
        item.append(describe_file(f))
        out.append(item)
    return out


def run_image(loaded, volume_starts):
    """what `ls` + export see: the volume table, then for each volume the file
    table entries, the Volume.files list (lazy per-file parse with error
    swallowing) and the first bytes of every file's audio."""
    if loaded[0] == "preamble-raise":
        return loaded
    f, sat = loaded
    f.seek(0)
    f.trace.clear()
    out = []
    parent = VolParent()
    f.trace.append(("--- volume table",))
    f.seek(PREAMBLE_HDR_LEN)
    for slot in range(4):
        try:
            v = VolumeEntryConstruct.parse_stream(f)
            out.append(("volume", v.name, str(v.type), v.start))
        except BaseException as e:  # noqa: B902
            out.append(("volume-raise", type(e), str(e).split("\n")[0]))
            f.seek(PREAMBLE_HDR_LEN + 16 * (slot + 1))
    for start in volume_starts:
        f.trace.append(("--- volume", start))
        try:
            table_stream = sat.get_segment(start)
            volume = Volume(name=f"V{start}", parent=parent,
                            path=parent.path + [f"V{start}"], routines={})
            adapter = FileEntriesAdapter(sat, FileEntryConstruct)
            entries = adapter.parse_stream(
                table_stream, _elem_parent=volume, _elem_routines={}
            )
            out.append(("ok", type(entries), describe_entries(entries)))
            volume.file_entries = entries
            files = volume.files
            out.append(("files", [describe_file(x) for x in files]))
        except BaseException as e:  # noqa: B902
            out.append(("table-raise", type(e), str(e).split("\n")[0]))
    return ("ok", out, list(f.trace))


def standard_images(seed, dense=True):
    """the good image plus single-byte and multi-byte damage confined to one
    file table entry (property C14), plus truncations."""
    rng = random.Random(seed)
    s1 = make_sample("SAMPLE A", 100, 1, sample_id=1)
    s2 = make_sample("SAMPLE B", 10000, 2)
    s3 = make_sample("THIRD", 32, 3, loop_type=0)
    volumes = [
        ("VOL ONE", 1, [("SAMPLE A", 0x73, s1), ("SAMPLE B", 0xF3, s2),
                        ("THIRD", 0x73, s3), ("FOURTH.-+#9", 0xF3, s1),
                        ("DRUMS", 0x64, b"\x01" * 40)]),
        ("SECOND", 3, [("X", 0x73, s3)]),
        ("EMPTY", 1, []),
    ]
    good = make_partition(16, volumes)
    images = [("good", good), ("truncated-body", good[:6 * SECT]),
              ("truncated-table", good[:3 * SECT + 30])]
    ft = 3 * SECT
    # entry 1: type byte, the three size bytes, the two start bytes: every value
    for field_off in (16, 17, 18, 19, 20, 21):
        values = range(256) if dense or field_off == 16 else range(0, 256, 5)
        for value in values:
            d = bytearray(good)
            d[ft + 1 * 24 + field_off] = value
            images.append((f"file[1]+{field_off}={value:#x}", bytes(d)))
    # every byte of entries 0, 2 and of the end marker slot, a few values
    for entry in (0, 2, 5):
        for field_off in range(24):
            for value in (0x00, 0x0A, 0x29, 0x47, 0x64, 0x71, 0xD7, 0xFF):
                d = bytearray(good)
                d[ft + entry * 24 + field_off] = value
                images.append((f"file[{entry}]+{field_off}={value:#x}", bytes(d)))
    for _ in range(150 if dense else 60):
        d = bytearray(good)
        base = ft + rng.randrange(0, 6) * 24
        for _ in range(rng.randrange(2, 8)):
            d[base + rng.randrange(24)] = rng.getrandbits(8)
        images.append(("random-entry-damage", bytes(d)))
    # damage inside the files themselves (headers of the samples)
    for _ in range(100 if dense else 40):
        d = bytearray(good)
        base = rng.choice([4, 5, 8, 9, 10, 12]) * SECT
        for _ in range(rng.randrange(1, 5)):
            d[base + rng.randrange(0, 40)] = rng.getrandbits(8)
        images.append(("file-header-damage", bytes(d)))
    return good, images, (s1, s2, s3)


STARTS = (3, 11, 13, 4000)
MORE_STARTS = STARTS + (2, 15)


def finish():
    print(f"{checked} checks, {len(failures)} failures")
    for msg in failures[:15]:
        print("FAIL:", msg[:600])
    return 1 if failures else 0

# ---------------------------------------------------------------- part A
def structure(switch):
    cases = switch.cases
    keys = list(cases.keys())
    out = [
        type(switch).__name__, type(cases).__name__, len(cases),
        [(type(k).__name__, k.name, int(k)) for k in keys],
        [k is FileType(int(k)) for k in keys],
        [type(v).__name__ for v in cases.values()],
        [type(getattr(v, "subcon", None)).__name__ for v in cases.values()],
        cases[FileType.SAMPLE_S1000].subcon is SampleHeaderConstruct,
        cases[FileType.SAMPLE_S3000].subcon is SampleHeaderConstruct,
        cases[FileType.SAMPLE_S1000] is not cases[FileType.SAMPLE_S3000],
        cases[FileType.SAMPLE_S1000].name_key, cases[FileType.SAMPLE_S3000].name_key,
        cases[FileType.PROGRAM_S1000] is ProgramParser,
        cases[FileType.PROGRAM_S3000] is ProgramParser,
        switch.default is Pass, repr(switch.keyfunc), switch.flagbuildnone,
        switch.name, switch.docs, switch.parsed,
        sorted(k for k in vars(switch)),
        [(v.flagbuildnone, v.name, v.docs) for v in cases.values()],
    ]
    for key in list(FileType) + [0x73, 0xF0, 0x99, None]:
        out.append(outcome(switch.sizeof, file_type=key)[:3])
    return out


def part_a():
    a, b = structure(ORIG), structure(LIVE)
    check(a == b, f"A structure: {a} != {b}")
    check(a[3] == [("FileType", "SAMPLE_S1000", 0x73), ("FileType", "SAMPLE_S3000", 0xF3),
                   ("FileType", "PROGRAM_S1000", 0x70), ("FileType", "PROGRAM_S3000", 0xF0)],
          f"A keys {a[3]}")
    check(b[7] and b[8] and b[9] and b[12] and b[13] and b[14], f"A identities {b[7:15]}")
    check(file_entry_mod.FileConstruct is file_mod.FileConstruct, "A one object in both modules")


# ---------------------------------------------------------------- part B
def make_program(name, keygroup_samples):
    kgs = []
    for n, sample_name in enumerate(keygroup_samples):
        kg = KeygroupContainer(
            velocity_zones=[VelocityZoneContainer(sample_name)],
            velocity_to_sample_start=[0, 0, 0, 0], aux_out_offset=[1, 2, 3, 4],
            enable_key_tracking=[True] * 4)
        raw = bytearray(KeygroupConstruct.build(kg))
        raw[1:3] = (150 * (n + 2)).to_bytes(2, "little")
        kgs.append(bytes(raw))
    hdr = bytearray(150)
    hdr[0] = 1
    hdr[1:3] = (150).to_bytes(2, "little")
    hdr[3:15] = akai_name(name)
    hdr[42] = len(kgs)
    return bytes(hdr) + b"".join(kgs)


_describe_plain = describe_file


def describe_any(f):
    if type(f).__name__ == "Program":
        return ["Program", f.name, f.program_name, f.type_name, list(f.path),
                f.program_id, str(f.midi_channel), str(f.priority), len(f.keygroups),
                [str(k) for k in f.keygroups], type(f._parent).__name__]
    return _describe_plain(f)


class Parent:
    path = ["IMG", "A:", "VOL"]


def parse_direct(construct, data, ctx):
    stream = io.BytesIO(data)
    try:
        value = construct.parse_stream(stream, **ctx)
    except BaseException as e:  # noqa: B902
        return ("raise", type(e), str(e).split("\n")[0], type(e.__cause__),
                type(e.__context__), stream.tell())
    return ("ok", describe_any(value), stream.tell())


def parse_adapter(data, ctx):
    """FileAdapter._parse looks the Switch up in its module at call time."""
    adapter = FileAdapter(None, file_entry_mod.FileConstruct)
    return parse_direct(adapter, data, ctx)


def part_b():
    rng = random.Random(0x23B)
    files = [
        ("sample1", make_sample("SAMPLE A", 100, 1, sample_id=1)),
        ("sample3", make_sample("SAMPLE B", 3000, 2)),
        ("sample-loop", make_sample("THIRD", 32, 3, loop_type=0)),
        ("program0", make_program("EMPTY PROG", [])),
        ("program1", make_program("ONE", ["SAMPLE A"])),
        ("program2", make_program("TWO", ["SAMPLE A", "SAMPLE B"])),
        ("zeros", bytes(400)), ("empty", b""), ("ones", b"\x01" * 300),
    ]
    for label, data in list(files[:6]):
        for cut in (1, 10, 39, 140, 149, 151, 290):
            files.append((f"{label}[:{cut}]", data[:cut]))
        for _ in range(25):
            d = bytearray(data)
            for _ in range(rng.randrange(1, 5)):
                d[rng.randrange(0, min(len(d), 160))] = rng.getrandbits(8)
            files.append((f"{label}-damaged", bytes(d)))
    type_values = list(FileType) + list(range(256)) + [None, "SAMPLE_S1000", 0x73 + 0.0, -1, 10 ** 9, True]
    parent = Parent()
    for label, data in files:
        full = "-damaged" not in label and "[:" not in label
        for file_type in (type_values if full else list(FileType) + [0x73, 0x99, None]):
            ctx = {"file_type": file_type, "_elem_name": "FILE", "_elem_parent": parent,
                   "_elem_routines": {}}
            a = parse_direct(ORIG, data, ctx)
            b = parse_direct(LIVE, data, ctx)
            check(a == b, f"B direct {label} type={file_type!r}: {str(a)[:300]} != {str(b)[:300]}")
            if isinstance(file_type, FileType) or file_type in (0x99, None):
                a, b = both(parse_adapter, data, ctx)
                check(a == b, f"B adapter {label} type={file_type!r}: {str(a)[:300]} != {str(b)[:300]}")
        # without a file_type in the context
        a = parse_direct(ORIG, data, {})
        b = parse_direct(LIVE, data, {})
        check(a == b and a[0] == "raise", f"B no type {label}: {a} != {b}")

    # expectations, independent of the inline copy
    ctx = {"_elem_name": "FILE", "_elem_parent": parent, "_elem_routines": {}}
    res = parse_direct(LIVE, files[0][1], dict(ctx, file_type=FileType.SAMPLE_S1000))
    check(res[0] == "ok" and res[1][0] == "AkaiSample" and res[1][1] == "FILE"
          and res[1][2] == Parent.path + ["FILE"] and res[1][-2] == files[0][1][140:],
          f"B sample: {str(res)[:300]}")
    res = parse_direct(LIVE, files[5][1], dict(ctx, file_type=FileType.PROGRAM_S3000))
    check(res[0] == "ok" and res[1][:5] == ["Program", "FILE", "TWO", "S3000 Program",
                                             Parent.path + ["FILE"]] and res[1][8] == 2,
          f"B program: {str(res)[:300]}")
    res = parse_direct(LIVE, files[0][1], dict(ctx, file_type=FileType.DRUM))
    check(res[:2] == ("ok", ["NoneType", None, []]), f"B drum -> Pass: {res}")


# ---------------------------------------------------------------- part C
def part_c():
    global describe_file
    rng = random.Random(0x23C)
    s1 = make_sample("SAMPLE A", 100, 1, sample_id=1)
    s2 = make_sample("SAMPLE B", 10000, 2)
    s3 = make_sample("THIRD", 32, 3, loop_type=0)
    p1 = make_program("PROG ONE", ["SAMPLE A", "SAMPLE B"])
    p2 = make_program("PROG TWO", ["THIRD"])
    volumes = [
        ("VOL ONE", 1, [("SAMPLE A", 0x73, s1), ("PROG ONE", 0x70, p1), ("SAMPLE B", 0xF3, s2),
                        ("THIRD", 0x73, s3), ("PROG TWO", 0xF0, p2),
                        ("DRUMS", 0x64, b"\x01" * 40)]),
        ("SECOND", 3, [("X", 0x73, s3), ("P", 0xF0, p2)]),
    ]
    good = make_partition(20, volumes)
    ft = 3 * SECT
    images = [("good", good), ("truncated-body", good[:6 * SECT])]
    for entry in (1, 2):
        for field_off in (16, 20):
            for value in (range(256) if field_off == 16 else range(0, 256, 7)):
                d = bytearray(good)
                d[ft + entry * 24 + field_off] = value
                images.append((f"file[{entry}]+{field_off}={value:#x}", bytes(d)))
    for entry in range(7):
        for field_off in range(24):
            for value in (0x00, 0x70, 0xFF):
                d = bytearray(good)
                d[ft + entry * 24 + field_off] = value
                images.append((f"file[{entry}]+{field_off}={value:#x}", bytes(d)))
    for _ in range(100):
        d = bytearray(good)
        base = ft + rng.randrange(0, 7) * 24
        for _ in range(rng.randrange(2, 8)):
            d[base + rng.randrange(24)] = rng.getrandbits(8)
        images.append(("random-entry-damage", bytes(d)))
    for _ in range(100):
        d = bytearray(good)
        base = rng.choice([4, 5, 6, 9, 10, 13, 14]) * SECT
        for _ in range(rng.randrange(1, 5)):
            d[base + rng.randrange(0, 160)] = rng.getrandbits(8)
        images.append(("file-header-damage", bytes(d)))

    saved = describe_file
    describe_file = describe_any       # the harness lists programs too
    try:
        starts = (3, 12, 4000)
        for label, data in images:
            a, b = both(run_image, load_image(data), starts)
            check(a == b, f"image mismatch {label}: {str(a)[:500]} != {str(b)[:500]}")
        res = run_image(load_image(good), (3, 12))
    finally:
        describe_file = saved
    check(res[0] == "ok", f"good image lists: {str(res)[:300]}")
    if res[0] == "ok":
        tables = [v for v in res[1] if v[0] == "ok"]
        names = [[e[1] for e in v[2]] for v in tables]
        check(names == [["SAMPLE A", "PROG ONE", "SAMPLE B", "THIRD", "PROG TWO", "DRUMS"],
                        ["X", "P"]], f"entry names {names}")
        files = [v for v in res[1] if v[0] == "files"]
        check([x[0] for x in files[0][1]] == ["AkaiSample", "Program", "AkaiSample",
                                               "AkaiSample", "Program"],
              f"file kinds {[x[0] for x in files[0][1]]}")
        check(files[0][1][0][-2] == s1[140:], "sample A audio bytes")
        check(files[0][1][1][2] == "PROG ONE" and files[0][1][1][8] == 2, "program one")


def main():
    check(file_mod.FileConstruct is LIVE and ORIG is not LIVE, "setup")
    part_a()
    part_b()
    part_c()
    check(file_mod.FileConstruct is LIVE and file_entry_mod.FileConstruct is LIVE,
          "modules restored")
    return finish()


if __name__ == "__main__":
    sys.exit(main())
