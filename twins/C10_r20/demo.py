"""Equivalence demo for r20 (how the `was not found` message is made:
the except block of structural.Traversable.parse_path that turns a failed
child lookup into ErrorInvalidPath, which ls_action prints; the refactoring
extracts the message building into a module-level helper that returns the
exception for parse_path to raise).

Traversable.parse_path as currently in the tree is compared with an inline
copy of the ORIGINAL method:
  * on a synthetic Image tree (duplicated / blank / quoted / colon-bearing
    raw names, leaves, nested directories three levels deep) for ~1500 path
    strings: every printed name at every level, joined with `/`, `\\` and
    `\\\\`, with blanks, case changes and trailing separators; prefixes,
    truncations and corruptions of real names; paths that run through a
    leaf (not traversable); tokens holding quotes, braces, percent signs,
    backslashes, unicode, newlines; empty and separator-only paths; started
    from the image and from inner directories (so that the `image` wording
    and the `a/b/` wording are both taken from either starting point): same
    returned node (by position in the tree) or the same exception type,
    message, args, chained __context__ type and __suppress_context__;
  * on trees whose nodes have unusual comparison behaviour: a directory that
    contains the image itself (cycle), nodes whose __ne__ returns "", [1],
    0, None or raises, a child list raising StopIteration / another error
    while being realized, children() being an iterator: same outcome and the
    same sequence of __ne__ calls;
  * end to end: ls_action on the synthetic tree, on a CDDA bin/cue image and
    on an AKAI image with duplicated volume names, with the original method
    patched onto Traversable versus the tree's method: same stdout.
Exit 0 when all agree, else 1.
"""
import contextlib
from dataclasses import dataclass
import io
import os
import random
import shutil
import sys
import tempfile
from typing import cast
from typing import List

import smpl_extract.actions as actions
from smpl_extract.akai.data_types import AKAI_PARTITION_MAGIC
from smpl_extract.akai.data_types import AKAI_SAT_ENTRY_CNT
from smpl_extract.akai.data_types import AKAI_SECTOR_SIZE
from smpl_extract.akai.data_types import AKAI_VOLUME_ENTRY_CNT
from smpl_extract.akai.data_types import FILE_TABLE_END_FLAG
from smpl_extract.base import Element
from smpl_extract.base import ElementTypes
from smpl_extract.elements import LeafElement
from smpl_extract.structural import ErrorInvalidPath
from smpl_extract.structural import ErrorNoChildWithName
from smpl_extract.structural import ErrorNotTraversable
from smpl_extract.structural import Image
from smpl_extract.structural import Traversable


# ---- ORIGINAL implementation (verbatim) -----------------------------------
def orig_parse_path(
        self,
        path
) -> Element:

    tokens_raw = self._TOKENIZE_PATH_REGEX.split(path.strip())
    tokens_raw_iter = iter(tokens_raw)

    tokens: List[str] = []
    tokens.append(next(tokens_raw_iter))
    while True:
        try:
            next(tokens_raw_iter)
            next_token = next(tokens_raw_iter)
        except StopIteration:
            break
        tokens.append(next_token)

    if len(tokens) > 0 and len(tokens[-1]) < 1:
        tokens = tokens[:-1]

    current_node = self
    for i, token in enumerate(tokens):
        token_sanitized = self._sanitize_string(token)

        try:
            if isinstance(current_node, Traversable):
                current_node = cast(Traversable, current_node)
                children = current_node.children

                child = next((
                    x for x in children
                    if self._sanitize_string(x.safe_name) == token_sanitized
                ))
                if not child:
                    raise ErrorNoChildWithName()
                current_node = child

            else:
                raise ErrorNotTraversable

        except (ErrorNoChildWithName, ErrorNotTraversable, StopIteration) as e:
            path_so_far = "/".join(tokens[:i]) + "/" if current_node != self else "image"
            msg = f"The entity \"{token}\" was not found in \"{path_so_far}\"."
            raise ErrorInvalidPath(msg)

    if isinstance(current_node, Traversable):
        children = current_node.children

    return current_node


NEW_PARSE_PATH = Traversable.__dict__["parse_path"]


@contextlib.contextmanager
def original_world():
    Traversable.parse_path = orig_parse_path
    try:
        yield
    finally:
        Traversable.parse_path = NEW_PARSE_PATH


LOG = []


class Boom(Exception):
    pass


@dataclass
class FakeLeaf(LeafElement):
    name: str = ""
    type_name: str = "Leaf"
    size: int = 7
    type_id = ElementTypes.SampleEntry


# ---- end to end ------------------------------------------------------------
class FakeImage(Image):
    name = "Fake Image"
    type_name = "Fake Image"
    type_id = ElementTypes.DirectoryEntry

    def __init__(self, spec):
        Traversable.__init__(self, lambda ctx: self._make(spec, ctx, self))

    @staticmethod
    def _make(spec, ctx, parent):
        routines = ctx["_elem_routines"]
        made = []
        for entry in spec:
            if isinstance(entry, tuple):
                raw, sub = entry
                node = Traversable(
                    (lambda sub: lambda c: FakeImage._make(sub, c, None))(sub),
                    routines=routines, path=[raw], parent=parent,
                    type_name="Dir",
                )
                node.name = raw
            else:
                node = FakeLeaf(name=entry)
            made.append(node)
        return made


RAW_SPEC = [
    ("VOL", ["KICK", "KICK", "KICK (2)", "KICK", "SNARE L", "SNARE L",
             "SNARE (2) L", "SNARE R"]),
    ("VOL", ["x", "x", "x", "x (2)", "x (3)", "x (5)", "x"]),
    ("VOL (2)", ["a'b", "ab", "a b", "a:b", "a/b"]),
    ("vol", ["", "", " ", "''"]),
    "VOL",
    "LEAF",
    "LEAF",
    "LEAF (2)",
    "LEAF (2)",
    "it's",
    "  padded  ",
]


def printed_names(listing):
    names = []
    rows = listing.splitlines()[2:]
    if listing.endswith("\n\n") and rows and rows[-1] == "":
        rows = rows[:-1]
    for line in rows:
        names.append(line[:20].rstrip() if len(line) >= 20 else line.rstrip())
    return names


def ls_text(image, path):
    buf = io.StringIO()
    with contextlib.redirect_stdout(buf):
        actions.ls_action(image, path)
    return buf.getvalue()


def ls_paths(image_factory):
    top = printed_names(ls_text(image_factory(), ""))
    paths = ["", " ", "/", "\\", "nope", "VOL (9)", "LEAF (3)", "(2)", "\u2603"]
    for name in top:
        paths += [name, " " + name + " ", name + "/", name.lower(),
                  name + "/nope", name[:-1], name + " (2)"]
        listing = ls_text(image_factory(), name)
        if listing[:4] == "Item":
            for child in printed_names(listing):
                paths += [name + "/" + child, name + "\\" + child + "\\",
                          name + "/" + child + " (2)"]
    return paths


def run_ls(image, path):
    buf = io.StringIO()
    try:
        with contextlib.redirect_stdout(buf):
            actions.ls_action(image, path)
        return ("ok", buf.getvalue())
    except BaseException as exc:  # noqa: B902
        return ("exc", type(exc).__name__, str(exc), buf.getvalue())


def akai_name(text):
    out = []
    for ch in text.ljust(12)[:12]:
        if ch.isdigit():
            out.append(ord(ch) - ord("0"))
        elif "A" <= ch <= "Z":
            out.append(0x0B + ord(ch) - ord("A"))
        else:
            out.append({" ": 0x0A, "#": 0x25, "+": 0x26, "-": 0x27,
                        ".": 0x28}[ch])
    return bytes(out)


def make_partition(sectors, volumes=()):
    header = (
        sectors.to_bytes(2, "little") + b"\x00\x00" + AKAI_PARTITION_MAGIC
        + bytes([0x55, 0xBA]) + b"\x2f\x00"
    )
    sat = [0] * AKAI_SAT_ENTRY_CNT
    entries = b""
    bodies = {}
    next_sector = 4
    for n in range(AKAI_VOLUME_ENTRY_CNT):
        if n < len(volumes):
            name, vtype = volumes[n]
            entries += (
                akai_name(name) + vtype.to_bytes(2, "little")
                + next_sector.to_bytes(2, "little")
            )
            sat[next_sector] = 0xC000
            body = bytearray(AKAI_SECTOR_SIZE)
            body[8:10] = FILE_TABLE_END_FLAG.to_bytes(2, "little")
            bodies[next_sector] = bytes(body)
            next_sector += 1
        else:
            entries += bytes([0x0A] * 12) + b"\x00\x00\x00\x00"
    for s in range(4):
        sat[s] = 0x4000
    sat_bytes = b"".join(v.to_bytes(2, "little") for v in sat)
    blob = bytearray(sectors * AKAI_SECTOR_SIZE)
    head = header + entries + sat_bytes
    blob[:len(head)] = head
    for sector, body in bodies.items():
        blob[sector * AKAI_SECTOR_SIZE:(sector + 1) * AKAI_SECTOR_SIZE] = body
    return bytes(blob)


def write_files(root):
    vols = (("VOL", 1), ("VOL", 3), ("VOL  2", 1), ("VOL", 3), ("LONE", 1))
    files = {
        "akai.img": make_partition(10, vols) + make_partition(4, vols[:2]),
        "audio.bin": bytes(2352 * 75 * 3),
        "audio.cue": (
            b"FILE \"audio.bin\" BINARY\n  TRACK 01 AUDIO\n"
            b"    TITLE \"First\"\n    INDEX 01 00:00:00\n"
            b"  TRACK 02 AUDIO\n    INDEX 01 00:01:00\n"
            b"  TRACK 03 AUDIO\n    TITLE \"First\"\n    INDEX 01 00:02:00\n"
        ),
    }
    for name, data in files.items():
        with open(os.path.join(root, name), "wb") as handle:
            handle.write(data)


FILE_PATHS = {
    "audio.cue": [
        "", "/", "First", " First ", "First/", "first", "First (2)",
        "First (2)\\", "First (3)", "Untitled Track 2", "Untitled Track 2/x",
        "Untitled Track 9", "nope", "\u2603",
    ],
    "akai.img": [
        "", "A", "a:", "B:/", "A/VOL", "A/VOL (2)/", "A/VOL (3)", "A/VOL (4)",
        "A/VOL  2", "a/lone", "B/VOL (2)", "B/VOL (3)", "C", "A/VOL (2)/x",
        "A:/vol (2)", ":", "A::",
    ],
}


DEEP_SPEC = RAW_SPEC + [
    ("DEEP", [("MID", [("LOW", ["END", "END", "e{n}d", "100%", "q\"q"]),
                       "MIDLEAF"]),
              ("MID", ["other"]),
              "DEEPLEAF"]),
    ("we{ird}", ["{0}", "%s", "a\"b"]),
]


def walk(node, trail=()):
    """(trail of printed names, node) for every node below `node`."""
    if not isinstance(node, Traversable) or len(trail) > 6:
        return
    try:
        children = list(node.children)
    except BaseException:  # noqa: B902 - a child list that cannot be made
        return
    for child in children:
        here = trail + (child.safe_name,)
        yield here, child
        yield from walk(child, here)


def locate(root, node):
    """Position of a node in the tree, so results of two separately built
    trees can be compared."""
    if node is root:
        return ("root",)
    for trail, candidate in walk(root):
        if candidate is node:
            return ("node",) + tuple(trail)
    return ("outside", repr(node))


def make_tree():
    image = FakeImage(DEEP_SPEC)
    image.set_routines({
        "make_safe_names": image.make_safe_names_routine,
        "make_export_names": image.make_export_names_routine,
    })
    return image


def tree_paths():
    image = make_tree()
    trails = [trail for trail, _node in walk(image)]
    rng = random.Random(2020)
    paths = ["", " ", "/", "\\", "\\\\", "//", "/ /", "nope", "\u2603", "\n",
             "a\nb", "{", "}", "{token}", "%s/%d", "\"", "\"\"/\"", "'",
             "image", "image/", "VOL/", "/VOL", "VOL//KICK", "VOL/ /KICK",
             "VOL\\\\\\KICK", "x" * 300, "VOL/" + "y" * 200 + "/z"]
    seps = ["/", "\\", "\\\\"]
    for trail in trails:
        for sep in seps:
            joined = sep.join(trail)
            paths += [joined, joined + sep, " " + joined + " "]
        joined = "/".join(trail)
        paths += [
            joined.lower(), joined.upper(), joined + "/nope",
            joined + "/nope/deeper", joined[:-1], joined + "x",
            joined + " (2)", " / ".join(trail), joined + "/\"quoted\"",
            joined + "/{brace}", joined + "//", "/" + joined,
            joined + "/" + trail[-1],
        ]
        corrupted = list(joined)
        if corrupted:
            corrupted[rng.randrange(len(corrupted))] = rng.choice("xyz:/ ")
            paths.append("".join(corrupted))
    return paths


def outcome_of(call, root):
    del LOG[:]
    try:
        node = call()
        return ("ok", locate(root, node), list(LOG))
    except BaseException as exc:  # noqa: B902
        context = exc.__context__
        return ("exc", type(exc).__name__, str(exc), repr(exc.args),
                type(context).__name__ if context is not None else None,
                exc.__cause__ is None, exc.__suppress_context__, list(LOG))


def inner_starts(image):
    """Inner directories to start parse_path from (self is not the root)."""
    return [node for trail, node in walk(image)
            if isinstance(node, Traversable)]


# ---- unusual nodes ---------------------------------------------------------
class OddNode(Traversable):
    """A directory whose `!=` answers something unusual."""
    def __init__(self, name, children, answer):
        Traversable.__init__(self, lambda ctx: children, type_name="Odd")
        self.name = name
        self._answer = answer

    def __ne__(self, other):
        LOG.append(("ne", self.name, getattr(other, "name", None)))
        if isinstance(self._answer, BaseException):
            raise self._answer
        return self._answer

    def __eq__(self, other):
        LOG.append(("eq", self.name, getattr(other, "name", None)))
        return self is other

    __hash__ = Traversable.__hash__

    def __bool__(self):
        return True


class PlainDir(Traversable):
    def __init__(self, name, f_children):
        Traversable.__init__(self, f_children, type_name="Dir")
        self.name = name


class FalsyDir(PlainDir):
    """`if not child` in parse_path sees this one as missing."""
    def __bool__(self):
        return False


def stop_children(ctx):
    raise StopIteration("from children")


def boom_children(ctx):
    raise Boom("children failed")


def odd_cases():
    """(label, factory returning (start node, root), paths)."""
    cases = []
    for answer in ("", "yes", [1], [], 0, 1, None, True, False,
                   Boom("ne failed"), NotImplemented):
        def factory(answer=answer):
            inner = OddNode("INNER", [FakeLeaf(name="LEAF")], answer)
            outer = OddNode("OUTER", [inner, FakeLeaf(name="TOP")], answer)
            root = PlainDir("ROOT", lambda ctx: [outer])
            return root, root
        cases.append((
            f"ne={answer!r}", factory,
            ["OUTER", "OUTER/INNER", "OUTER/nope", "OUTER/INNER/nope",
             "OUTER/INNER/LEAF/x", "OUTER/TOP/x/y", "nope", ""]))

        def factory_from_odd(answer=answer):
            inner = OddNode("INNER", [FakeLeaf(name="LEAF")], answer)
            outer = OddNode("OUTER", [inner, FakeLeaf(name="TOP")], answer)
            return outer, outer
        cases.append((
            f"start-odd ne={answer!r}", factory_from_odd,
            ["INNER", "nope", "INNER/nope", "TOP/x", "INNER/LEAF/x"]))

    def cyclic():
        holder = []
        loop = PlainDir("LOOP", lambda ctx: holder)
        root = PlainDir("ROOT", lambda ctx: [loop, FakeLeaf(name="L")])
        holder.extend([root, FakeLeaf(name="IN")])
        return root, root
    cases.append(("cycle", cyclic, [
        "LOOP/ROOT", "LOOP/ROOT/nope", "LOOP/ROOT/LOOP/nope",
        "LOOP/ROOT/LOOP/ROOT/x", "LOOP/nope", "LOOP/IN/x", "LOOP/ROOT/L/x"]))

    def raising(f_children):
        def factory():
            bad = PlainDir("BAD", f_children)
            root = PlainDir("ROOT", lambda ctx: [bad, FakeLeaf(name="L")])
            return root, root
        return factory
    cases.append(("children raise StopIteration", raising(stop_children),
                  ["BAD", "BAD/x", "BAD/", "L", "L/x"]))
    cases.append(("children raise Boom", raising(boom_children),
                  ["BAD", "BAD/x", "L"]))
    cases.append(("children is an iterator",
                  raising(lambda ctx: iter([FakeLeaf(name="ONCE")])),
                  ["BAD", "BAD/ONCE", "BAD/nope", "BAD/ONCE/x"]))

    def falsy():
        gone = FalsyDir("GONE", lambda ctx: [FakeLeaf(name="X")])
        root = PlainDir("ROOT", lambda ctx: [
            PlainDir("SUB", lambda ctx: [gone]), gone])
        return root, root
    cases.append(("falsy child", falsy,
                  ["GONE", "GONE/X", "SUB/GONE", "SUB/GONE/X", "SUB/nope"]))

    def unnamed():
        class Nameless(PlainDir):
            @property
            def safe_name(self):
                raise Boom("no safe name")
        root = PlainDir("ROOT", lambda ctx: [
            FakeLeaf(name="OK"), Nameless("N", lambda ctx: [])])
        return root, root
    cases.append(("safe_name raises", unnamed, ["OK", "N", "zzz", "OK/x"]))
    return cases


def main():
    failures = 0
    checked = 0

    def note(label, detail, expected, actual):
        nonlocal failures
        failures += 1
        if failures <= 5:
            print("MISMATCH", label, detail)
            print("  expected", expected)
            print("  actual  ", actual)

    paths = tree_paths()
    wording = {"image": 0, "slash": 0, "ok": 0}
    for path in paths:
        tree_a = make_tree()
        tree_b = make_tree()
        expected = outcome_of(lambda: orig_parse_path(tree_a, path), tree_a)
        actual = outcome_of(lambda: tree_b.parse_path(path), tree_b)
        checked += 1
        if expected[0] == "ok":
            wording["ok"] += 1
        elif expected[2].endswith("in \"image\"."):
            wording["image"] += 1
        elif expected[2].endswith("/\"."):
            wording["slash"] += 1
        if expected != actual:
            note("parse_path", repr(path), expected, actual)
    if min(wording.values()) < 100:
        print("path mix too thin:", wording)
        failures += 1

    # started from inner directories
    inner_count = len(inner_starts(make_tree()))
    fixed_inner_paths = ["", "nope", "{0}", "a\"b/x", " x (3) ", "x (3)/ y",
                         "nope/deeper", "/"]
    inner_wording = {"image": 0, "slash": 0, "ok": 0}
    for index in range(inner_count):
        below = [trail for trail, _n in walk(inner_starts(make_tree())[index])]
        inner_paths = list(fixed_inner_paths)
        for trail in below[:12]:
            joined = "/".join(trail)
            inner_paths += [joined, joined.lower() + "/", joined + "/nope",
                            joined + "/nope/deeper", joined + "x",
                            "\\".join(trail) + "\\{b}"]
        for path in inner_paths:
            tree_a = make_tree()
            tree_b = make_tree()
            start_a = inner_starts(tree_a)[index]
            start_b = inner_starts(tree_b)[index]
            expected = outcome_of(
                lambda: orig_parse_path(start_a, path), tree_a)
            actual = outcome_of(lambda: start_b.parse_path(path), tree_b)
            checked += 1
            if expected[0] == "ok":
                inner_wording["ok"] += 1
            elif expected[2].endswith("in \"image\"."):
                inner_wording["image"] += 1
            elif expected[2].endswith("/\"."):
                inner_wording["slash"] += 1
            if expected != actual:
                note("inner parse_path", (index, path), expected, actual)
    if min(inner_wording.values()) < 8:
        print("inner path mix too thin:", inner_wording)
        failures += 1

    odd_kinds = set()
    for label, factory, odd_paths in odd_cases():
        for path in odd_paths:
            start_a, root_a = factory()
            start_b, root_b = factory()
            expected = outcome_of(
                lambda: orig_parse_path(start_a, path), root_a)
            actual = outcome_of(lambda: start_b.parse_path(path), root_b)
            checked += 1
            odd_kinds.add(expected[:2])
            if expected != actual:
                note("odd nodes", (label, path), expected, actual)
    if len(odd_kinds) < 4:
        print("odd-node outcomes too uniform:", sorted(odd_kinds))
        failures += 1

    # end to end
    with original_world():
        ls_list = ls_paths(lambda: FakeImage(DEEP_SPEC))
    saw_found = saw_not_found = 0
    for path in ls_list + paths[::7]:
        with original_world():
            expected = run_ls(FakeImage(DEEP_SPEC), path)
        actual = run_ls(FakeImage(DEEP_SPEC), path)
        checked += 1
        if "was not found" in expected[-1]:
            saw_not_found += 1
        elif expected[0] == "ok":
            saw_found += 1
        if expected != actual:
            note("ls", repr(path), expected, actual)
    if saw_found < 40 or saw_not_found < 40:
        print("synthetic tree ls:", saw_found, "found,", saw_not_found,
              "not found - too few")
        failures += 1

    root_dir = tempfile.mkdtemp()
    try:
        write_files(root_dir)
        for file_name, file_paths in FILE_PATHS.items():
            target = os.path.join(root_dir, file_name)
            for path in file_paths + [p + "/{x}" for p in file_paths]:
                with original_world():
                    expected = run_ls(target, path)
                actual = run_ls(target, path)
                checked += 1
                if expected != actual:
                    note("file ls", (file_name, path), expected, actual)
    finally:
        shutil.rmtree(root_dir, ignore_errors=True)

    print(f"checked {checked} cases, {failures} mismatches")
    return 1 if failures else 0


if __name__ == "__main__":
    sys.exit(main())
