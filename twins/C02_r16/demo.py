"""Equivalence demo for r16: smpl_extract/roland/s7xx/sample_file.py
SampleFileAdapter._decode_element (the adapter SampleFileListAdapter._decode
calls for every not-yet-seen sample of a patch - mechanism 'per-performance
sample collection').

Refactoring: the SampleFile used to be built with a keyword call mixing two
expanded temporaries and four explicit keywords
    SampleFile(**common_params, **options_params, name=..., _data_stream=...,
               _parent=..., _path=...)
and is now built from ONE merged dict literal `field_args` (the two
get_common_field_args() results expanded in the same order, then the four
explicit entries) via `SampleFile(**field_args)`; the `sample_file` temporary
was replaced by a direct return.

A subclass carrying an inline copy of the ORIGINAL _decode_element is compared
with the working-tree class on
  (1) direct _decode_element / _decode calls for SampleEntry objects covering
      all loop modes, sample modes, sampling frequencies and odd field values,
      with different parents / parent paths / contexts,
  (2) malformed inputs (objects lacking attributes, bad child_info): exception
      type and message,
  (3) order of attribute reads on the source entry (recorded by a proxy),
  (4) SampleFileListAdapter._decode and PerformanceEntry.files with shared
      samples (module-level SampleFileAdapter swapped for the original),
  (5) precomputed expectations.
Exit 0 when everything agrees, 1 otherwise.
"""
import dataclasses
import io
import random
import sys
import types
from typing import cast

from construct.core import Pass
from construct.lib.containers import Container

from smpl_extract.midi import MidiNote
from smpl_extract.roland.s7xx import sample_file as sf
from smpl_extract.roland.s7xx.data_types import RolandLoopMode
from smpl_extract.roland.s7xx.data_types import RolandSampleMode
from smpl_extract.roland.s7xx.performance_entry import PerformanceEntry
from smpl_extract.roland.s7xx.sample_entry import SampleEntry
from smpl_extract.roland.s7xx.sample_entry import SampleParamCommon
from smpl_extract.roland.s7xx.sample_entry import SampleParamLoopPoint
from smpl_extract.roland.s7xx.sample_entry import SampleParamOptionsSection
from smpl_extract.roland.s7xx.sample_file import SampleFile
from smpl_extract.roland.s7xx.sample_file import SampleFileAdapter
from smpl_extract.roland.s7xx.sample_file import SampleFileListAdapter
from smpl_extract.util.constructs import ChildInfo
from smpl_extract.util.dataclass import get_common_field_args


# ---------------------------------------------------------------- original --
class OriginalSampleFileAdapter(SampleFileAdapter):

    def _decode_element(self, obj, child_info, context, path):
        del context, path  # unused

        sample_entry = cast(SampleEntry, obj)

        parent = child_info.parent
        element_path = child_info.parent_path

        name = sample_entry.name
        sample_path = element_path + [name]

        common_params = get_common_field_args(
            SampleParamCommon,
            sample_entry
        )
        options_params = get_common_field_args(
            SampleParamOptionsSection,
            sample_entry
        )
        sample_file = SampleFile(
            **common_params,
            **options_params,
            name=name,
            _data_stream=sample_entry._data_stream,
            _parent=parent,
            _path=sample_path
        )
        return sample_file


failures = 0
checks = 0


def describe(x):
    """SampleFile -> comparable description; object identity is kept for the
    stream and the parent (they must be the very same objects)."""
    if isinstance(x, SampleFile):
        d = {}
        for f in dataclasses.fields(x):
            v = getattr(x, f.name)
            if f.name in ("_data_stream", "_parent"):
                d[f.name] = ("id", id(v))
            else:
                d[f.name] = (type(v).__name__, repr(v))
        d["__extra__"] = sorted(k for k in vars(x) if k not in d)
        d["__props__"] = (repr(x.path), id(x.parent), x.safe_name,
                          x.export_name, x.type_name, x.bytes_per_sample)
        return ("SampleFile", d)
    if isinstance(x, (list, tuple)):
        return [describe(v) for v in x]
    return (type(x).__name__, repr(x))


def run(f):
    try:
        return ("ok", describe(f()))
    except Exception as e:  # noqa
        return ("exc", type(e).__name__, str(e))


def check(a, b, what):
    global failures, checks
    checks += 1
    if a != b:
        failures += 1
        if failures < 20:
            print("MISMATCH", what, repr(a)[:300], repr(b)[:300])


rnd = random.Random(1616)
OLD = OriginalSampleFileAdapter(Pass)
NEW = SampleFileAdapter(Pass)


def random_point():
    return SampleParamLoopPoint(rnd.randrange(256), rnd.randrange(1 << 24))


def random_entry(index, **over):
    kw = dict(
        sustain_loop_enable=rnd.randrange(256),
        sustain_loop_tune=rnd.randrange(256),
        release_loop_tune=rnd.randrange(256),
        original_key=MidiNote.from_midi_byte(rnd.randrange(21, 109)),
        loop_mode=rnd.choice(list(RolandLoopMode)),
        start_sample=random_point(),
        sustain_loop_start=random_point(),
        sustain_loop_end=random_point(),
        release_loop_start=random_point(),
        release_loop_end=random_point(),
        sample_mode=rnd.choice(list(RolandSampleMode)),
        sampling_frequency=rnd.choice([48000, 44100, 24000, 22050, 30000,
                                       15000]),
        directory_name="dir%04d" % index,
        parameter_name="par%04d" % index,
        index=index,
        _data_stream=io.BytesIO(b"%d" % index),
        _parent=None,
        _path=["vol", "perf", "dir%04d" % index],
    )
    kw.update(over)
    return SampleEntry(**kw)


class Recorder:
    """Proxy recording the order of attribute reads on a sample entry."""

    def __init__(self, target):
        object.__setattr__(self, "_t", target)
        object.__setattr__(self, "_reads", [])

    def __getattr__(self, key):
        self._reads.append(key)
        return getattr(self._t, key)


parent_a = random_entry(9000)
parents = [None, parent_a, "not an element", 5]
parent_paths = [[], ["v"], ["v", "p"], ["a", "b", "c", "d"]]

# (1) + (3) direct calls ----------------------------------------------------
entries = [random_entry(i) for i in range(120)]
entries += [
    random_entry(200, directory_name=""),
    random_entry(201, directory_name="x" * 16, parameter_name=""),
    random_entry(202, loop_mode=99, sampling_frequency=None),
    random_entry(203, original_key=None, sample_mode=7),
    random_entry(204, start_sample=None, release_loop_end="oops"),
    random_entry(205, _data_stream=None),
    random_entry(206, directory_name=None),
    random_entry(207, directory_name=5),
]
for n, entry in enumerate(entries):
    for parent in parents:
        for ppath in parent_paths:
            info = ChildInfo(parent, ppath, ppath + ["nxt"], [], "nm")
            ra_rec = Recorder(entry)
            rb_rec = Recorder(entry)
            ra = run(lambda: OLD._decode_element(ra_rec, info, {}, ""))
            rb = run(lambda: NEW._decode_element(rb_rec, info, {}, ""))
            what = ("direct", n, repr(parent)[:20], tuple(ppath))
            check(ra, rb, what)
            check(ra_rec._reads, rb_rec._reads, what + ("reads",))
            check(ppath, list(ppath), what + ("parent path untouched",))
    # distinct _path lists per result, parent path not aliased
    info = ChildInfo(None, ["v"], ["v", "n"], [], None)
    x = NEW._decode_element(entry, info, {}, "")
    y = NEW._decode_element(entry, info, {}, "")
    check(x._path is not y._path and x._path is not info.parent_path, True,
          ("fresh path", n))
    check(x._data_stream is entry._data_stream, True, ("same stream", n))

# through ElementAdapter._decode with the contexts PerformanceEntry.files uses
for n, entry in enumerate(entries[:40]):
    for ctx in (
        Container(),
        Container(_=Container(_elem_parent=parent_a, _elem_routines={})),
        Container(_elem_parent=parent_a, _elem_name="zz"),
        Container(_=Container(_elem_parent=None)),
        {},
        {"_": {"_elem_parent": parent_a}},
    ):
        check(run(lambda: OLD._decode(entry, ctx, "")),
              run(lambda: NEW._decode(entry, ctx, "")),
              ("via _decode", n, repr(ctx)[:40]))

# (2) malformed inputs ---------------------------------------------------------
good_info = ChildInfo(None, ["v"], ["v", "n"], [], None)
bad_objects = [
    None, 5, "str", object(),
    types.SimpleNamespace(),
    types.SimpleNamespace(name="n"),
    types.SimpleNamespace(name="n", _data_stream=io.BytesIO()),
    types.SimpleNamespace(**{f.name: 1 for f in
                             dataclasses.fields(SampleParamCommon)}, name="n"),
    types.SimpleNamespace(**{f.name: 1 for f in
                             dataclasses.fields(SampleParamCommon)},
                          **{f.name: 2 for f in
                             dataclasses.fields(SampleParamOptionsSection)},
                          name="n"),
    types.SimpleNamespace(**{f.name: 1 for f in
                             dataclasses.fields(SampleParamCommon)},
                          **{f.name: 2 for f in
                             dataclasses.fields(SampleParamOptionsSection)},
                          name="n", _data_stream="ds"),
]
bad_infos = [
    good_info,
    ChildInfo(None, None, None, [], None),
    ChildInfo(None, ("t",), None, [], None),
    ChildInfo(None, "ab", None, [], None),
    None,
    types.SimpleNamespace(parent=None),
    types.SimpleNamespace(parent=None, parent_path=["q"]),
]
for i, obj in enumerate(bad_objects + entries[:3]):
    for j, info in enumerate(bad_infos):
        ra_rec = Recorder(obj)
        rb_rec = Recorder(obj)
        check(run(lambda: OLD._decode_element(ra_rec, info, {}, "")),
              run(lambda: NEW._decode_element(rb_rec, info, {}, "")),
              ("malformed", i, j))
        check(ra_rec._reads, rb_rec._reads, ("malformed reads", i, j))

# (4) list adapter and PerformanceEntry.files -----------------------------------
def patch_tree():
    """Patches -> partials -> samples with shared and repeated samples."""
    pool = [random_entry(i) for i in range(12)]
    patches = []
    for p in range(5):
        partials = []
        for q in range(rnd.randrange(0, 4)):
            partials.append(types.SimpleNamespace(
                sample_entries=[rnd.choice(pool)
                                for _ in range(rnd.randrange(0, 5))]))
        patches.append(types.SimpleNamespace(partial_entries=partials))
    return patches


def with_adapter(cls, f):
    saved = sf.SampleFileAdapter
    sf.SampleFileAdapter = cls
    try:
        return f()
    finally:
        sf.SampleFileAdapter = saved


for trial in range(60):
    patches = patch_tree()
    ctx = Container(_=Container(_elem_parent=parent_a, _elem_routines={}))
    for k, patch in enumerate(patches):
        ra = with_adapter(OriginalSampleFileAdapter, lambda: run(
            lambda: SampleFileListAdapter(Pass)._decode(patch, ctx, "")))
        rb = with_adapter(SampleFileAdapter, lambda: run(
            lambda: SampleFileListAdapter(Pass)._decode(patch, ctx, "")))
        check(ra, rb, ("list adapter", trial, k))
        check(ra[0], "ok", ("list adapter ok", trial, k))


class FakeProgramAdapter:
    def __init__(self, *a):
        pass

    def _decode(self, patch, context, path):
        return ("program", id(patch))


import smpl_extract.roland.s7xx.performance_entry as pe  # noqa: E402

saved_program_adapter = pe.ProgramFileAdapter
pe.ProgramFileAdapter = FakeProgramAdapter
try:
    for trial in range(30):
        patches = patch_tree()

        # one performance object for both runs: it becomes the samples' parent
        perf = PerformanceEntry(
            directory_name="perf",
            _f_patch_entries=lambda ctx: patches,
            _path=["vol", "perf"],
        )
        perf._patch_entries = patches

        def files(cls):
            perf._files = None      # drop the memoised result of the other run
            return with_adapter(cls, lambda: run(lambda: perf.files))
        check(files(OriginalSampleFileAdapter), files(SampleFileAdapter),
              ("performance files", trial))
finally:
    pe.ProgramFileAdapter = saved_program_adapter

# (5) precomputed expectations ----------------------------------------------
e = SampleEntry(
    loop_mode=RolandLoopMode.REVERSE_LOOP,
    sampling_frequency=22050,
    sample_mode=RolandSampleMode.STEREO,
    sustain_loop_tune=3,
    start_sample=SampleParamLoopPoint(1, 2),
    directory_name="KICK",
    parameter_name="other",
    index=4,
    _data_stream=io.BytesIO(b"abc"),
)
r = NEW._decode_element(e, ChildInfo(parent_a, ["V", "P"], None, [], None),
                        {}, "")
check(type(r), SampleFile, "expected type")
check((r.name, r._path, r._parent is parent_a, r._data_stream is e._data_stream),
      ("KICK", ["V", "P", "KICK"], True, True), "expected identity fields")
check((r.loop_mode, r.sampling_frequency, r.sample_mode, r.sustain_loop_tune,
       r.start_sample, r.sustain_loop_end),
      (RolandLoopMode.REVERSE_LOOP, 22050, RolandSampleMode.STEREO, 3,
       SampleParamLoopPoint(1, 2), SampleParamLoopPoint(0, 0)),
      "expected copied fields")
check(sorted(f.name for f in dataclasses.fields(SampleParamCommon))
      + sorted(f.name for f in dataclasses.fields(SampleParamOptionsSection)),
      ["loop_mode", "original_key", "release_loop_end", "release_loop_start",
       "release_loop_tune", "start_sample", "sustain_loop_enable",
       "sustain_loop_end", "sustain_loop_start", "sustain_loop_tune",
       "sample_mode", "sampling_frequency"],
      "field name sets are disjoint and as expected")

print(f"{checks} checks, {failures} mismatches")
sys.exit(1 if failures else 0)
