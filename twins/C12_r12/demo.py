"""Equivalence demo for r12: smpl_extract.transcoder.swap_endianess.

swap_endianess is compared with an inline copy of the ORIGINAL on many
channel lists (0..6 channels, lengths 0..1000, widths 1/2/4/8, native and
non-native dtypes, non-contiguous views, tuples/iterators as the container):
result type, length, per-channel dtype and bytes must be equal, results must
be fresh copies, inputs must stay untouched, and exceptions (type + message)
must match for bad members.  Then the transcoder is run end to end under
both (patched) host byte orders so that the step is used at the input side,
the output side and both, with the original patched in, byte for byte.
Exit 0 when everything agrees, 1 otherwise.
"""
from io import BytesIO
import itertools
import sys
from unittest.mock import patch

import numpy as np

import smpl_extract.transcoder as T
from smpl_extract.data_streams import DataStream
from smpl_extract.data_streams import Endianess
from smpl_extract.data_streams import StreamEncoding


def swap_endianess_ORIG(channels):
    result = list(x.byteswap() for x in channels)
    return result


class Member:
    """Channel stand-in that logs the order of byteswap() calls."""

    def __init__(self, tag, log, exc=None):
        self.tag = tag
        self.log = log
        self.exc = exc

    def byteswap(self):
        self.log.append(self.tag)
        if self.exc is not None:
            raise self.exc
        return ("swapped", self.tag)


def describe(result):
    return (type(result), [
        (type(x), x.dtype.str, x.shape, x.tobytes())
        if isinstance(x, np.ndarray) else x
        for x in result
    ])


def outcome(f, arg):
    try:
        r = f(arg)
    except BaseException as e:  # noqa
        return ("exc", type(e), str(e)), None
    return ("ok",) + describe(r), r


def run_all(f_swap, spec, dest, block, host):
    with patch.object(T, "swap_endianess", f_swap), \
            patch.object(T, "system_byte_order", host):
        def gnfp(stream, target_size=block):
            return max(1, target_size // stream.frame_size)
        with patch.object(T, "get_num_frames_possible", gnfp):
            streams = [DataStream(BytesIO(d), e) for d, e in spec]
            tr = T.make_transcoder(streams, dest)
            names = [p[0] for p in tr.pipeline.processes] \
                if isinstance(tr, T.PipelineTranscoder) else None
            return type(tr).__name__, names, [bytes(b) for b in tr]


def main():
    bad = 0
    n = 0
    new = T.swap_endianess
    rng = np.random.default_rng(1212)

    dtypes = [np.dtype(x) for x in (
        "int8", "uint8", "<i2", ">i2", "<u2", "<i4", ">i4", "<u4", "<i8",
        ">i8", "float32", "float64")]
    length_sets = [
        [], [0], [1], [5], [0, 0], [3, 3], [3, 5], [0, 4],
        [1, 1, 1], [7, 2, 9], [16, 16, 16, 16], [1, 2, 3, 4, 5, 6],
        [1000, 999],
    ]

    # 1. unit level, ndarray members
    for lens in length_sets:
        for dt in dtypes:
            chans = []
            for ln in lens:
                raw = rng.integers(
                    0, 256, ln * dt.itemsize, dtype=np.uint8).tobytes()
                chans.append(np.frombuffer(raw, dtype=dt).copy())
            for container in (list, tuple, iter):
                a_in = [c.copy() for c in chans]
                b_in = [c.copy() for c in chans]
                oa, ra = outcome(swap_endianess_ORIG, container(a_in))
                ob, rb = outcome(new, container(b_in))
                n += 1
                if oa != ob:
                    bad += 1
                    print("MISMATCH", lens, dt, container.__name__)
                    continue
                for c, x, y in zip(chans, a_in, b_in):
                    if not (c.tobytes() == x.tobytes() == y.tobytes()):
                        bad += 1
                        print("INPUT MUTATED", lens, dt)
                for src, out in zip(b_in, rb):
                    if np.shares_memory(src, out):
                        bad += 1
                        print("NOT A COPY", lens, dt)
                # double swap is the identity on the bytes
                back = new(rb)
                if [x.tobytes() for x in back] != \
                        [x.tobytes() for x in chans]:
                    bad += 1
                    print("ROUND TRIP", lens, dt)

    # non-contiguous views as produced by decode_frame for interleaved data
    for nch in (2, 3, 4):
        for frames in (1, 2, 9, 64):
            for dt in ("<i2", ">i2", "<i4"):
                base = rng.integers(
                    -100, 100, nch * frames).astype(dt)
                views_a = list(base.reshape((-1, nch)).T)
                views_b = list(base.copy().reshape((-1, nch)).T)
                oa, _ = outcome(swap_endianess_ORIG, views_a)
                ob, _ = outcome(new, views_b)
                n += 1
                if oa != ob:
                    bad += 1
                    print("VIEW MISMATCH", nch, frames, dt)

    # order of byteswap() calls and exception behaviour
    for k in range(0, 5):
        for fail_at, exc in ((None, None), (0, ValueError("boom")),
                             (k - 1, OSError("io")), (1, KeyError("k"))):
            logs = []
            outs = []
            for fn in (swap_endianess_ORIG, new):
                log = []
                members = [
                    Member(i, log, exc if i == fail_at else None)
                    for i in range(k)
                ]
                o, _ = outcome(fn, members)
                outs.append(o)
                logs.append(log)
            n += 1
            if outs[0] != outs[1] or logs[0] != logs[1]:
                bad += 1
                print("ORDER MISMATCH", k, fail_at, outs, logs)

    for weird in (None, 5, [None], [np.zeros(2, "<i2"), "text"], "ab"):
        oa, _ = outcome(swap_endianess_ORIG, weird)
        ob, _ = outcome(new, weird)
        n += 1
        if oa != ob:
            bad += 1
            print("WEIRD MISMATCH", weird, oa, ob)

    # 2. end to end under both host byte orders
    orders = [Endianess.LITTLE, Endianess.BIG]
    for host in orders:
        for width in (1, 2, 4):
            for chans in ([1], [2], [1, 1], [2, 1], [1, 2, 3]):
                total = sum(chans)
                for ords in itertools.product(orders, repeat=len(chans)):
                    for frames in (0, 1, 7, 33):
                        spec = []
                        for i, (c, o) in enumerate(zip(chans, ords)):
                            nbytes = (frames + i) * c * width + (i % 2)
                            data = rng.integers(
                                0, 256, nbytes, dtype=np.uint8).tobytes()
                            spec.append((data, StreamEncoding(
                                o, width, c, True)))
                        for dorder in orders:
                            dest = StreamEncoding(dorder, width, total, True)
                            for block in (1, 16, 4096):
                                ra = run_all(swap_endianess_ORIG, spec, dest,
                                             block, host)
                                rb = run_all(new, spec, dest, block, host)
                                n += 1
                                if ra != rb:
                                    bad += 1
                                    print("E2E MISMATCH", host, width, chans,
                                          ords, frames, dorder, block)

    print(f"{n} cases, {bad} mismatches")
    return 1 if bad else 0


if __name__ == "__main__":
    sys.exit(main())
