"""Equivalence demo for r2 (smpl_extract/alcohol/mdf.py: MdfStream.__init__,
helper extraction for the parent-size probe).

An inline copy of the ORIGINAL MdfStream is driven side by side with the
tree's MdfStream over traced parent streams: construction at many parent
sizes / initial parent positions / constructor arguments, followed by random
sequences of seek / tell / read (including reads that straddle the 2048-byte
user-data boundary, reads at and past EOF, read(None), read(-1)).
Compared: returned values, exceptions, public attributes of the wrapper, and
the full trace of tell/seek/read calls issued to the parent stream.
Exit status 0 when everything agrees, 1 otherwise.
"""
import io
import random
import sys
from io import SEEK_CUR, SEEK_END, SEEK_SET

from smpl_extract.alcohol import mdf as tree
from smpl_extract.alcohol.mdf import (
    MDF_SECTOR_BODY_SIZE, MDF_SECTOR_HEADER_MAGIC, MDF_SECTOR_HEADER_SIZE,
    MDF_SECTOR_SIZE)
from smpl_extract.util.sector import SectorStream


# ---- ORIGINAL implementation (verbatim copy) ------------------------------
class OriginalMdfStream(SectorStream):

    def __init__(
            self,
            parent_stream,
            position=0,
            buffer_length=0x1000
    ) -> None:

        # get parent size
        offset = parent_stream.tell()
        parent_stream.seek(0, SEEK_END)
        parent_size = parent_stream.tell()
        parent_stream.seek(offset, SEEK_SET)

        num_sectors = parent_size // MDF_SECTOR_SIZE
        size = num_sectors * MDF_SECTOR_BODY_SIZE

        super().__init__(
            parent_stream,
            size=size,
            sector_length=MDF_SECTOR_BODY_SIZE,
            position=position,
            buffer_length=buffer_length
        )

    def _get_address_given_sector_index(self, sector_index, offset):
        sector_address = sector_index * MDF_SECTOR_SIZE

        mdf_address = sector_address + MDF_SECTOR_HEADER_SIZE + offset
        return mdf_address


# ---------------------------------------------------------------------------
class Traced(io.BytesIO):
    def __init__(self, data):
        super().__init__(data)
        self.log = []

    def tell(self):
        r = super().tell()
        self.log.append(("tell", r))
        return r

    def seek(self, *a):
        r = super().seek(*a)
        self.log.append(("seek", a, r))
        return r

    def read(self, *a):
        r = super().read(*a)
        self.log.append(("read", a, len(r)))
        return r


class NoTell:
    """A parent whose tell() fails: both versions must fail the same way."""
    def tell(self):
        raise OSError("no tell")


def wrap_mdf(data, trailing=0):
    out = bytearray()
    n = (len(data) + 2047) // 2048
    for i in range(n):
        body = data[i * 2048:(i + 1) * 2048].ljust(2048, b"\x00")
        out += MDF_SECTOR_HEADER_MAGIC + i.to_bytes(3, "big") + b"\x01"
        out += body + bytes(288)
    out += b"\xEE" * trailing
    return bytes(out)


def state(s):
    return (s.position, s.end_of_file, s.sector_length, s.buffer_length,
            s.true_size)


def call(f, *a, **k):
    try:
        return ("ok", f(*a, **k))
    except Exception as e:  # noqa
        return ("exc", type(e).__name__, str(e))


failures = 0
checked = 0


def check(label, a, b):
    global failures, checked
    checked += 1
    if a != b:
        failures += 1
        print("MISMATCH", label, repr(a)[:200], repr(b)[:200])


rng = random.Random(2352)

# constructor failure path
check("notell", call(OriginalMdfStream, NoTell()), call(tree.MdfStream, NoTell()))

case = 0
for logical in (0, 1, 2047, 2048, 2049, 4096, 5000, 5 * 2048, 7 * 2048 + 100):
    data = bytes(rng.randrange(256) for _ in range(logical))
    for trailing in (0, 1, 16, 2351):
        blob = wrap_mdf(data, trailing)
        for parent_pos in (0, 7, len(blob) // 2, len(blob)):
            for kwargs in ({}, {"position": 3}, {"position": 2040},
                           {"buffer_length": 100},
                           {"position": 10 ** 6, "buffer_length": 2048}):
                case += 1
                p1, p2 = Traced(blob), Traced(blob)
                io.BytesIO.seek(p1, parent_pos)
                io.BytesIO.seek(p2, parent_pos)
                r1 = call(OriginalMdfStream, p1, **kwargs)
                r2 = call(tree.MdfStream, p2, **kwargs)
                check(f"ctor{case}", r1[0], r2[0])
                check(f"ctorlog{case}", p1.log, p2.log)
                if r1[0] != "ok" or r2[0] != "ok":
                    continue
                s1, s2 = r1[1], r2[1]
                check(f"state{case}", state(s1), state(s2))
                size = s1.end_of_file
                for step in range(25):
                    op = rng.choice(("seek", "read", "read", "tell", "addr",
                                     "translate", "straddle"))
                    if op == "seek":
                        whence = rng.choice((SEEK_SET, SEEK_CUR, SEEK_END))
                        off = rng.choice((0, 1, -1, 2047, 2048, 2049, -2048,
                                          rng.randrange(-100, size + 100)))
                        a = call(s1.seek, off, whence)
                        b = call(s2.seek, off, whence)
                    elif op == "read":
                        n = rng.choice((None, -1, 0, 1, 2, 16, 2047, 2048,
                                        2049, 4096, 5000,
                                        rng.randrange(0, size + 50)))
                        a = call(s1.read, n)
                        b = call(s2.read, n)
                    elif op == "straddle":
                        k = rng.randrange(0, max(1, size // 2048 + 1))
                        pos = max(0, k * 2048 - rng.randrange(1, 40))
                        n = rng.randrange(1, 5000)
                        a = (call(s1.seek, pos, SEEK_SET), call(s1.read, n))
                        b = (call(s2.seek, pos, SEEK_SET), call(s2.read, n))
                    elif op == "tell":
                        a = call(s1.tell)
                        b = call(s2.tell)
                    elif op == "addr":
                        i, o = rng.randrange(0, 10), rng.randrange(0, 2048)
                        a = call(s1._get_address_given_sector_index, i, o)
                        b = call(s2._get_address_given_sector_index, i, o)
                    else:
                        x = rng.randrange(0, size + 10)
                        a = call(s1._translate_address, x)
                        b = call(s2._translate_address, x)
                    check(f"op{case}.{step}.{op}", a, b)
                    check(f"st{case}.{step}", state(s1), state(s2))
                check(f"log{case}", p1.log, p2.log)
                # the unwrapped content is the logical payload (zero padded)
                # (an empty wrapper has a pre-existing quirk on read; skip it)
                if size > 0:
                    s2.seek(0, SEEK_SET)
                    got = call(s2.read, None)
                    exp = data.ljust(size, b"\x00")[:size]
                    check(f"content{case}", got, ("ok", exp))

# is_mdf_image is untouched by the refactoring but belongs to the mechanism
for blob in (b"", MDF_SECTOR_HEADER_MAGIC, wrap_mdf(b"x"), bytes(4000),
             MDF_SECTOR_HEADER_MAGIC + b"\x00\x00\x00\x02" + bytes(100)):
    for pos in (0, 3, len(blob)):
        t = Traced(blob)
        io.BytesIO.seek(t, pos)
        res = tree.is_mdf_image(t)
        exp = blob[:12] == MDF_SECTOR_HEADER_MAGIC and blob[15:16] == b"\x01"
        check("is_mdf", (res, io.BytesIO.tell(t)), (exp, pos))

print(f"checked {checked} comparisons, {failures} mismatches")
sys.exit(1 if failures else 0)
