"""Equivalence demo for SectorStream._read (smpl_extract/util/sector.py).

The live _read of SectorStream and of its subclasses (FileStream, RolandFile,
AKAI Segment, MDF body stream) is compared with an inline copy of the ORIGINAL
_read: returned bytes, exceptions, the (sector_index, offset, size) triples
handed to _read_sector, and the exact tell/seek/read trace on the shared
handle, for direct calls, for public read()/seek() use and for random and
exhaustive interleavings of several streams over one handle.
Exit 0 when everything agrees, 1 otherwise.
"""
import io
import itertools
import random
import sys

from smpl_extract.alcohol.mdf import MdfStream
from smpl_extract.akai.sat import Segment
from smpl_extract.roland.s7xx.fat import RolandFile
from smpl_extract.util.fat import FileStream
from smpl_extract.util.sector import SectorStream
from smpl_extract.util.stream import SectorReadError
from smpl_extract.util.stream import StreamOffset
from smpl_extract.util.stream import StreamWrapper


def original_read(self, size):
    """Verbatim copy of the original SectorStream._read."""

    if size <= 0:
        return bytes()

    remaining_size = size

    initial_sector_index    = self.position // self.sector_length
    initial_sector_offset   = self.position % self.sector_length

    # read partial initial sector
    if initial_sector_offset + size <= self.sector_length:
        initial_read_size = size
    else:
        initial_read_size = self.sector_length - initial_sector_offset
    result = self._read_sector(
        initial_sector_index,
        initial_sector_offset,
        initial_read_size
    )
    remaining_size -= initial_read_size

    # read full size middle sectors
    i = 1
    while remaining_size > self.sector_length:
        result += self._read_sector(
            initial_sector_index + i,
            0,
            self.sector_length
        )
        remaining_size -= self.sector_length
        i += 1

    # read partial final sector
    final_sector_index = initial_sector_index + i
    if remaining_size > 0:
        result += self._read_sector(
            final_sector_index,
            0,
            remaining_size
        )

    if len(result) != size:
        raise SectorReadError(f"Wanted {size}, read {len(result)}.")

    return result


def logging_read_sector(self, sector_index, offset, size):
    self.__dict__.setdefault("sector_calls", []).append((sector_index, offset, size))
    return super(self._log_base, self)._read_sector(sector_index, offset, size)


def variant(cls, original):
    """Subclass that logs _read_sector calls and optionally uses the old _read."""
    ns = {"_read_sector": logging_read_sector}
    if original:
        ns["_read"] = original_read
    new = type(("Orig" if original else "Live") + cls.__name__, (cls,), ns)
    new._log_base = new
    return new


BASES = (SectorStream, FileStream, RolandFile, Segment, MdfStream)
LIVE = {c.__name__: variant(c, False) for c in BASES}
ORIG = {c.__name__: variant(c, True) for c in BASES}


class TraceIO(io.BytesIO):
    def __init__(self, data):
        super().__init__(data)
        self.trace = []

    def seek(self, off, whence=0):
        r = super().seek(off, whence)
        self.trace.append(("seek", off, whence, r))
        return r

    def read(self, n=-1):
        r = super().read(n)
        self.trace.append(("read", n, r))
        return r

    def tell(self):
        r = super().tell()
        self.trace.append(("tell", r))
        return r


_RND = random.Random(1010)
DATA = bytes(_RND.randrange(256) for _ in range(40000))
FAILS = []


def check(label, a, b):
    if a != b:
        FAILS.append(label)
        print("MISMATCH", label)
        print("   live:", repr(a)[:400])
        print("   orig:", repr(b)[:400])


def attempt(f, *a, **k):
    try:
        return ("ok", f(*a, **k))
    except Exception as e:  # noqa
        return ("exc", type(e).__name__, str(e))


def state(view):
    d = dict(view.__dict__)
    d.pop("substream", None)
    return sorted((k, repr(v)) for k, v in d.items())


def make(table, name, handle, size, sector_length, seed=0):
    rnd = random.Random(seed)
    if name == "SectorStream":
        return table[name](handle, size, sector_length)
    if name == "FileStream":
        count = max(1, -(-max(size, 1) // max(sector_length, 1)))
        sl = rnd.sample(range(60), min(count, 50))
        return table[name](handle, sector_length, sl)
    if name == "RolandFile":
        return table[name](handle, rnd.sample(range(4), rnd.randrange(1, 4)))
    if name == "Segment":
        return table[name](handle, rnd.sample(range(4), rnd.randrange(1, 4)))
    if name == "MdfStream":
        return table[name](handle)
    raise AssertionError(name)


# ----------------------------------------------------------- direct _read calls
def direct_calls():
    n = 0
    lengths = [1, 2, 3, 7, 8, 64, 100]
    for L in lengths:
        positions = sorted({0, 1, L - 1, L, L + 1, 2 * L - 1, 2 * L, 3 * L + L // 2, 5 * L})
        sizes = sorted({-3, 0, 1, 2, L - 1, L, L + 1, 2 * L - 1, 2 * L, 2 * L + 1, 3 * L, 3 * L + 1, 7 * L + 3})
        for pos, size in itertools.product(positions, sizes):
            for name in ("SectorStream", "FileStream"):
                rec = []
                for table in (LIVE, ORIG):
                    h = TraceIO(DATA[:20 * L + 5])
                    v = make(table, name, h, 16 * L, L, seed=L)
                    v.position = pos
                    r = attempt(v._read, size)
                    rec.append((r, v.__dict__.get("sector_calls"), state(v), h.trace))
                check(("direct", name, L, pos, size), rec[0], rec[1])
                n += 1
    return n


def odd_geometry():
    """Zero / negative sector length, short underlying data: same outcome."""
    for L, pos, size in itertools.product((0, -4, 5), (0, 3, 11), (1, 4, 5, 6, 23)):
        rec = []
        for table in (LIVE, ORIG):
            h = TraceIO(DATA[:17])
            v = table["SectorStream"](h, 1000, L)
            v.position = pos
            r = attempt(v._read, size)
            rec.append((r, v.__dict__.get("sector_calls"), state(v), h.trace))
        check(("odd", L, pos, size), rec[0], rec[1])
    # _read_sector failing in the middle: same calls before the failure
    class Boom(Exception):
        pass

    for fail_at in range(5):
        rec = []
        for table in (LIVE, ORIG):
            base = table["SectorStream"]

            class Failing(base):
                def _read_sector(self, sector_index, offset, size):
                    self.__dict__.setdefault("calls2", []).append((sector_index, offset, size))
                    if len(self.calls2) - 1 == fail_at:
                        raise Boom(sector_index)
                    return bytes(size)

            v = Failing(io.BytesIO(DATA), 1000, 10)
            v.position = 13
            rec.append((attempt(v._read, 32), v.calls2))
        check(("failing", fail_at), rec[0], rec[1])


# ------------------------------------------------------ public API, one stream
def public_use():
    n = 0
    for name in LIVE:
        for seed in range(60):
            rnd = random.Random(seed)
            L = rnd.choice([4, 16, 64])
            ops = []
            for _ in range(30):
                if rnd.random() < 0.35:
                    ops.append(("seek", rnd.randrange(-10, 900), rnd.choice([0, 1, 2])))
                else:
                    ops.append(("read", rnd.choice([0, 1, 3, L - 1, L, L + 1, 3 * L, 5 * L + 2, 4096, None])))
            rec = []
            for table in (LIVE, ORIG):
                h = TraceIO(DATA)
                v = make(table, name, h, 10 * L + 3, L, seed=seed)
                out = [attempt(getattr(v, op[0]), *op[1:]) for op in ops]
                # the same around the real sector boundaries of this class
                SL = v.sector_length
                rnd2 = random.Random(seed * 7 + 1)
                for _ in range(12):
                    out.append(attempt(v.seek, rnd2.randrange(0, 4) * SL + rnd2.choice([-3, -1, 0, 1, 5]), 0))
                    out.append(attempt(v.read, rnd2.choice([1, 2, 4, 6, SL - 1, SL, SL + 1, 2 * SL, 2 * SL + 7])))
                rec.append((out, v.__dict__.get("sector_calls"), state(v), h.trace))
            check(("public", name, seed), rec[0], rec[1])
            n += 1
    return n


# ------------------------------------------- several streams over one handle
def play(table, names, ops, seed, nest):
    h = TraceIO(DATA)
    parent = table_offset(h) if nest else h
    views = [make(table, nm, parent, 700, 64, seed=seed + k) for k, nm in enumerate(names)]
    views = [StreamWrapper(v, 500) if nest and k % 2 else v for k, v in enumerate(views)]
    out = []
    for op in ops:
        v = views[op[0]]
        out.append(attempt(getattr(v, op[1]), *op[2:]))
    logs = [getattr(v, "substream", v).__dict__.get("sector_calls") if isinstance(v, StreamWrapper)
            and not hasattr(v, "sector_length") else v.__dict__.get("sector_calls") for v in views]
    return out, logs, [state(v) for v in views], h.trace


def table_offset(handle):
    return StreamOffset(handle, 30000, 512)


def random_schedules():
    n = 0
    for seed in range(300):
        rnd = random.Random(seed)
        k = 2 + seed % 3
        names = [rnd.choice(list(LIVE)) for _ in range(k)]
        ops = []
        for _ in range(40):
            i = rnd.randrange(k)
            if rnd.random() < 0.3:
                ops.append((i, "seek", rnd.randrange(-20, 800), rnd.choice([0, 1, 2])))
            else:
                ops.append((i, "read", rnd.choice([0, 1, 5, 63, 64, 65, 128, 200, 333])))
        for nest in (False, True):
            check(("schedule", seed, nest), play(LIVE, names, ops, seed, nest), play(ORIG, names, ops, seed, nest))
            n += 1
    return n


def exhaustive():
    """All interleavings of 2 streams x 3 block reads, several block sizes."""
    n = 0
    for block_a, block_b in ((64, 64), (100, 30), (200, 129), (1, 65)):
        ops_a = [(0, "read", block_a)] * 3
        ops_b = [(1, "read", block_b)] * 3
        for mask in itertools.combinations(range(6), 3):
            ia, ib = iter(ops_a), iter(ops_b)
            ops = [next(ia) if i in mask else next(ib) for i in range(6)]
            for names in itertools.product(("SectorStream", "FileStream", "Segment"), repeat=2):
                check(("exhaustive", block_a, block_b, mask, names),
                      play(LIVE, names, ops, 3, False), play(ORIG, names, ops, 3, False))
                n += 1
    return n


def main():
    a = direct_calls()
    odd_geometry()
    b = public_use()
    c = random_schedules()
    d = exhaustive()
    print("direct: %d, public: %d, schedules: %d, exhaustive: %d, mismatches: %d" % (a, b, c, d, len(FAILS)))
    return 1 if FAILS else 0


if __name__ == "__main__":
    sys.exit(main())
