"""Equivalence demo for r20: pad_channels (smpl_extract/transcoder.py) - the
helper encode_frame() calls first so that every channel of a block has the
same number of samples before the channels are interleaved into whole frames.

An inline copy of the ORIGINAL pad_channels (and of encode_frame on top of
it) is compared with the tree's functions:
 1. direct calls over a grid of 1..4 channels x lengths 0..9 (all
    combinations) x dtypes (int8/16/32/64, uint8/16, float32/64, big and
    little endian): same number of results, same dtype, shape and bytes, and
    the SAME OBJECT is passed through when no padding is needed;
 2. awkward arguments: empty list, a generator, a tuple, plain lists as
    channels, 2-D arrays, 0-d arrays, None, ints, objects whose __len__ is
    logged / raises / returns odd values -> same result or same exception
    (type and text) and the same sequence of __len__ calls;
 3. encode_frame(): bytes compared for the grid and for several destination
    dtypes; every block is a whole number of frames;
 4. transcoders made by make_transcoder over streams of unequal length
    (which is when padding happens): block lists compared with a run in
    which transcoder.pad_channels is replaced by the original; export_wav
    files compared byte for byte and checked to be frame aligned.
Exit 0 when everything agrees, 1 otherwise.
"""
import io
import itertools
import os
import shutil
import struct
import sys
import tempfile
from typing import List

import numpy as np

from smpl_extract import transcoder
from smpl_extract.data_streams import DataStream
from smpl_extract.data_streams import Endianess
from smpl_extract.data_streams import StreamEncoding
from smpl_extract.generalized import wav as gw
from smpl_extract.generalized.sample import Sample
from smpl_extract.transcoder import make_transcoder


# ---- verbatim copy of the original implementation ------------------------
def orig_pad_channels(channels: List[np.ndarray]) -> List[np.ndarray]:
    target_size = max(map(len, channels))
    result_channels = []
    for channel in channels:
        N = target_size - len(channel)
        if N <= 0:
            result_channels.append(channel)
            continue

        padded_channel = np.pad(
            channel,
            (0, N),
            "linear_ramp",
            end_values=(0, 0)
        )
        result_channels.append(padded_channel)
    return result_channels


def orig_encode_frame(channels: List[np.ndarray], dest_dtype: np.dtype) -> bytes:
    channels = orig_pad_channels(channels)
    channels = list(x.astype(dest_dtype) for x in channels)
    result = np.vstack(channels).reshape((-1,), order='F').tobytes()
    return result
# -------------------------------------------------------------------------

failures = []
checks = 0


def check(cond, msg):
    global checks
    checks += 1
    if not cond:
        failures.append(msg)
        if len(failures) <= 20:
            print("MISMATCH:", msg[:300])


def describe(result, inputs):
    """Value description of a pad_channels result incl. object identity."""
    if not isinstance(result, list):
        return ("not a list", type(result).__name__)
    out = []
    for item in result:
        same_as = [i for i, x in enumerate(inputs) if x is item]
        if isinstance(item, np.ndarray):
            # object arrays hold pointers, compare their elements instead
            payload = repr(item.tolist()) if item.dtype == object \
                else item.tobytes()
            out.append((type(item).__name__, str(item.dtype), item.shape,
                        payload, same_as))
        else:
            out.append((type(item).__name__, repr(item), same_as))
    return out


def run_pad(func, make_inputs):
    inputs = make_inputs()
    keep = list(inputs) if isinstance(inputs, (list, tuple)) else []
    try:
        res = func(inputs)
        return ("ok", describe(res, keep))
    except Exception as e:  # noqa: BLE001
        return ("exc", type(e).__name__, str(e))


def compare_pad(label, make_inputs):
    a = run_pad(transcoder.pad_channels, make_inputs)
    b = run_pad(orig_pad_channels, make_inputs)
    check(a == b, "pad_channels differs for %s: %r vs %r" % (label, a, b))
    return a


def arr(n, dtype, seed):
    rng = np.random.RandomState(seed * 100 + n)
    dt = np.dtype(dtype)
    if dt.kind == "f":
        return (rng.rand(n) * 2000 - 1000).astype(dt)
    info = np.iinfo(dt)
    vals = rng.randint(max(info.min, -2**31), min(info.max, 2**31 - 1) + 1,
                       size=n, dtype=np.int64)
    if n:
        vals[-1] = info.max if seed % 2 else info.min   # ramp starts at edge
    return vals.astype(dt)


DTYPES = ["int8", "<i2", ">i2", "<i4", ">i4", "int64", "uint8", "<u2",
          "float32", "float64"]
LENGTHS = [0, 1, 2, 3, 5, 9]

# ---- 1. grid ---------------------------------------------------------------
for dtype in DTYPES:
    for n_channels in (1, 2, 3, 4):
        for lens in itertools.product(LENGTHS, repeat=n_channels):
            if n_channels == 4 and sum(lens) % 5:   # thin out
                continue
            res = compare_pad(
                "%s %r" % (dtype, lens),
                lambda: [arr(n, dtype, k) for k, n in enumerate(lens)])
            if res[0] == "ok":
                target = max(lens)
                check(all(item[2] == (target,) for item in res[1]),
                      "not all padded to %d: %r" % (target, lens))
                check(all((item[4] == [k]) == (lens[k] == target)
                          for k, item in enumerate(res[1])),
                      "pass-through identity for %r" % (lens,))
# mixed dtypes in one call
for lens in itertools.product((0, 2, 7), repeat=3):
    compare_pad("mixed dtypes %r" % (lens,), lambda: [
        arr(lens[0], "<i2", 1), arr(lens[1], ">i2", 2), arr(lens[2], "uint8", 3)])
# same object twice
shared = arr(4, "<i2", 9)
compare_pad("same object twice", lambda: [shared, shared, arr(2, "<i2", 1)])


# ---- 2. awkward arguments ---------------------------------------------------
compare_pad("empty list", lambda: [])
compare_pad("empty tuple", lambda: ())
compare_pad("tuple", lambda: (arr(3, "<i2", 1), arr(1, "<i2", 2)))
compare_pad("generator", lambda: (arr(n, "<i2", n) for n in (3, 1)))
compare_pad("iterator", lambda: iter([arr(3, "<i2", 1), arr(1, "<i2", 2)]))
compare_pad("None", lambda: None)
compare_pad("int", lambda: 5)
compare_pad("str", lambda: "abc")
compare_pad("bytes", lambda: b"abc")
compare_pad("lists as channels", lambda: [[1, 2, 3], [4]])
compare_pad("lists of equal size", lambda: [[1, 2], [3, 4]])
compare_pad("tuples and arrays", lambda: [(1, 2, 3), arr(1, "<i2", 2)])
compare_pad("2-D arrays", lambda: [np.arange(6, dtype="<i2").reshape(3, 2),
                                   np.arange(2, dtype="<i2").reshape(1, 2)])
compare_pad("2-D and 1-D", lambda: [np.arange(6, dtype="<i2").reshape(3, 2),
                                    np.arange(2, dtype="<i2")])
compare_pad("0-d array", lambda: [np.array(5), arr(2, "<i2", 1)])
compare_pad("None inside", lambda: [arr(2, "<i2", 1), None])
compare_pad("int inside", lambda: [3, arr(2, "<i2", 1)])
compare_pad("strings", lambda: ["abc", "d"])
compare_pad("bytes inside", lambda: [b"abc", b"d"])
compare_pad("bool arrays", lambda: [np.array([True, False, True]),
                                    np.array([True])])
compare_pad("object arrays", lambda: [np.array([1, 2, 3], dtype=object),
                                      np.array([1], dtype=object)])
compare_pad("dict", lambda: {"a": 1, "bcd": 2})
compare_pad("memoryview", lambda: [memoryview(b"abcd"), memoryview(b"a")])
compare_pad("read-only", lambda: [np.frombuffer(b"\x01\x00\x02\x00", "<i2"),
                                  np.frombuffer(b"\x01\x00", "<i2")])


class Logged(np.ndarray):
    """ndarray whose len() calls are recorded."""
    log: list = []
    tag = "?"

    def __len__(self):
        Logged.log.append(self.tag)
        return super().__len__()


def logged(n, tag):
    a = arr(n, "<i2", n).view(Logged)
    a.tag = tag
    return a


class Sized:
    def __init__(self, tag, size, log):
        self.tag, self.size, self.log = tag, size, log

    def __len__(self):
        self.log.append(self.tag)
        if isinstance(self.size, Exception):
            raise self.size
        return self.size

    def __repr__(self):
        return "Sized(%s)" % self.tag


def run_logged(func, lens):
    Logged.log = []
    inputs = [logged(n, "c%d" % k) for k, n in enumerate(lens)]
    try:
        res = ("ok", describe(func(inputs), inputs))
    except Exception as e:  # noqa: BLE001
        res = ("exc", type(e).__name__, str(e))
    return res, list(Logged.log)


for n_channels in (1, 2, 3):
    for lens in itertools.product((0, 1, 4), repeat=n_channels):
        a = run_logged(transcoder.pad_channels, lens)
        b = run_logged(orig_pad_channels, lens)
        check(a == b, "len() call sequence differs for %r: %r vs %r"
              % (lens, a[1], b[1]))


def run_sized(func, sizes):
    log = []
    inputs = [Sized("s%d" % k, s, log) for k, s in enumerate(sizes)]
    try:
        res = ("ok", describe(func(inputs), inputs))
    except Exception as e:  # noqa: BLE001
        res = ("exc", type(e).__name__, str(e))
    return res, log


for sizes in ([3, 3], [0, 0, 0], [2, 5], [5, 2], [ValueError("no len"), 3],
              [3, ValueError("no len")], [1], [2**40, 2**40],
              [KeyError("k")], [0], [7, 7, 7, 7]):
    a = run_sized(transcoder.pad_channels, sizes)
    b = run_sized(orig_pad_channels, sizes)
    check(a == b, "Sized %r: %r vs %r" % (sizes, a, b))


# ---- 3. encode_frame ---------------------------------------------------------
def run_encode(func, make_inputs, dest):
    try:
        return ("ok", func(make_inputs(), np.dtype(dest)))
    except Exception as e:  # noqa: BLE001
        return ("exc", type(e).__name__, str(e))


for dtype, dest in itertools.product(("<i2", ">i2", "int8", "uint8", "<i4"),
                                     ("<i2", ">i2", "int8", "<i4")):
    for n_channels in (1, 2, 3):
        for lens in itertools.product((0, 1, 2, 5, 64), repeat=n_channels):
            def make():
                return [arr(n, dtype, k) for k, n in enumerate(lens)]
            a = run_encode(transcoder.encode_frame, make, dest)
            b = run_encode(orig_encode_frame, make, dest)
            check(a == b, "encode_frame differs %s->%s %r" % (dtype, dest, lens))
            if a[0] == "ok":
                frame = np.dtype(dest).itemsize * n_channels
                check(len(a[1]) == frame * max(lens),
                      "block is not max(len) whole frames: %r" % (lens,))
a = run_encode(transcoder.encode_frame, lambda: [], "<i2")
b = run_encode(orig_encode_frame, lambda: [], "<i2")
check(a == b and a[0] == "exc", "encode_frame([]): %r vs %r" % (a, b))


# ---- 4. transcoders and files -------------------------------------------------
def pcm(n, seed):
    return bytes((seed * 31 + i * 7) % 256 for i in range(n))


def make_streams(layout, width):
    streams = []
    for k, (chans, num_bytes, big) in enumerate(layout):
        streams.append(DataStream(
            io.BytesIO(pcm(num_bytes, k + 1)),
            StreamEncoding(Endianess.BIG if big else Endianess.LITTLE,
                           width, chans, True)))
    return streams


def run_transcoder(layout, width, dest_channels, use_orig):
    saved = transcoder.pad_channels
    if use_orig:
        transcoder.pad_channels = orig_pad_channels
    try:
        streams = make_streams(layout, width)
        dest = StreamEncoding(Endianess.LITTLE, width, dest_channels, True)
        try:
            blocks = list(make_transcoder(streams, dest))
            res = ("ok", blocks)
        except Exception as e:  # noqa: BLE001
            res = ("exc", type(e).__name__, str(e))
        return res, [s.stream.tell() for s in streams]
    finally:
        transcoder.pad_channels = saved


SIZES = [0, 1, 2, 3, 4, 10, 4095, 4096, 4097, 8192, 8194, 10001]
for width in (1, 2):
    for big in (False, True):
        for sa, sb in itertools.product(SIZES, SIZES):
            layout = [(1, sa, big), (1, sb, not big if sa % 2 else big)]
            a = run_transcoder(layout, width, 2, False)
            b = run_transcoder(layout, width, 2, True)
            check(a == b, "transcoder blocks differ for %r" % (layout,))
            if a[0][0] == "ok":
                check(all(len(x) % (2 * width) == 0 and len(x) > 0
                          for x in a[0][1]), "block not frame aligned")
    for sa in SIZES:
        for layout, dest_channels in (([(1, sa, True)], 1),
                                      ([(2, sa, True)], 2),
                                      ([(2, sa, False), (1, sa // 2, True)], 3)):
            a = run_transcoder(layout, width, dest_channels, False)
            b = run_transcoder(layout, width, dest_channels, True)
            check(a == b, "transcoder blocks differ for %r" % (layout,))

tmp_dir = tempfile.mkdtemp(prefix="r20_demo_")
try:
    n = 0
    for sa, sb in itertools.product((0, 2, 6, 4096, 8190, 9000), repeat=2):
        n += 1
        files = []
        for use_orig in (False, True):
            saved = transcoder.pad_channels
            if use_orig:
                transcoder.pad_channels = orig_pad_channels
            try:
                path = os.path.join(tmp_dir, "f%d_%d.wav" % (n, use_orig))
                sample = Sample(
                    name="s", sample_rate=44100, num_channels=2,
                    data_streams=make_streams(
                        [(1, sa, False), (1, sb, True)], 2))
                gw.export_wav(sample, path)
                files.append(open(path, "rb").read())
            finally:
                transcoder.pad_channels = saved
        check(files[0] == files[1], "file bytes differ for (%d, %d)" % (sa, sb))
        raw = files[0]
        check(struct.unpack("<I", raw[4:8])[0] == len(raw) - 8, "riff size")
        check(raw[36:40] == b"data", "data chunk position")
        size = struct.unpack("<I", raw[40:44])[0]
        check(size == len(raw) - 44 and size % 4 == 0,
              "data chunk of (%d, %d) not frame aligned" % (sa, sb))
finally:
    shutil.rmtree(tmp_dir, ignore_errors=True)

print("%d checks, %d failures" % (checks, len(failures)))
sys.exit(1 if failures else 0)
