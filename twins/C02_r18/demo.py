"""Equivalence demo for r18: smpl_extract/util/fat.py,
FileStream._get_address_given_sector_index (the chain-position -> partition
address translation used by every read of the RolandFile returned by
RolandFileAllocationTable.get_file - mechanism 'cluster chain minus leading
clusters').

Refactoring: the statement that followed the try/except block
(`result = super()._get_address_given_sector_index(sector, offset); return
result`) moved into the `else:` clause of that try statement and returns
directly (no `result` temporary).  The except clause always raises, so the
code after the try block was already reachable only when the lookup succeeded.

An inline copy of the ORIGINAL class is compared with the working-tree one:
  (1) the address returned for every (sector_list, sector_index, offset)
      combination, including negative indices (Python wrap-around), indices
      just beyond the list, empty lists, bool / non-int indices,
  (2) exception type, message, __cause__ type and __suppress_context__,
  (3) whole reads through RolandFile / FileStream over shuffled cluster
      chains: bytes returned, positions, the seek/read calls made on the
      partition stream, short reads past the end of the chain,
  (4) a few precomputed addresses.
Exit 0 when everything agrees, 1 otherwise.
"""
import io
import random
import sys
from io import IOBase
from typing import List

from smpl_extract.roland.s7xx.data_types import ROLAND_CLUSTER_SIZE
from smpl_extract.roland.s7xx.fat import RolandFile
from smpl_extract.util import fat as live
from smpl_extract.util.sector import SectorStream
from smpl_extract.util.stream import SectorReadError


# ---------------------------------------------------------------- original --
class OriginalFileStream(SectorStream):


    def __init__(
            self,
            parent_stream:      IOBase,
            sector_size:        int,
            sector_list:        List[int],
            position:           int = 0,
            buffer_length:      int = 0x1000
    ) -> None:
        super().__init__(
            parent_stream, 
            size=(sector_size * len(sector_list)),
            sector_length=sector_size,
            position=position,
            buffer_length=buffer_length
        )
        self.sector_list = sector_list

    
    def _get_address_given_sector_index(
            self, 
            sector_index: int, 
            offset: int
        ):
        try:
            sector  = self.sector_list[sector_index]
        except IndexError as e:
            raise SectorReadError(
                f"Sector {sector_index} lies beyond the "
                f"{len(self.sector_list)} sectors of the file."
            ) from e
        result  = super()._get_address_given_sector_index(
            sector,
            offset
        )
        return result


class OriginalRolandFile(OriginalFileStream):
    def __init__(self, partition_stream, sector_list, position=0, buffer_length=0x1000):
        super().__init__(
            partition_stream,
            sector_size=ROLAND_CLUSTER_SIZE,
            sector_list=sector_list,
            position=position,
            buffer_length=buffer_length
        )
# -----------------------------------------------------------------------------

failures = []


def check(cond, what):
    if not cond:
        failures.append(what)
        print("MISMATCH:", what)


def outcome(fn):
    try:
        return ("ok", fn())
    except BaseException as e:  # noqa: BLE001
        return ("exc", type(e).__name__, str(e),
                type(e.__cause__).__name__, str(e.__cause__),
                type(e.__context__).__name__, e.__suppress_context__)


class Recorder(io.BytesIO):
    def __init__(self, data):
        super().__init__(data)
        self.log = []

    def seek(self, *a):
        r = super().seek(*a)
        self.log.append(("seek", a, r))
        return r

    def read(self, *a):
        r = super().read(*a)
        self.log.append(("read", a, len(r)))
        return r


def address_cases():
    n = 0
    rng = random.Random(18)
    lists = [[], [0], [5], [3, 1, 2], list(range(10, 0, -1)), [65535, 2, 40000],
             [rng.randrange(0x10000) for _ in range(40)]]
    for sector_size in (1, 2, 512, ROLAND_CLUSTER_SIZE):
        for sector_list in lists:
            ln = len(sector_list)
            indices = set(range(-ln - 3, ln + 4)) | {10 ** 6, -10 ** 6}
            extra = [True, False, None, 1.0, "1", slice(0, 1)]
            for idx in list(sorted(indices)) + extra:
                for offset in (0, 1, sector_size - 1, sector_size, -1, 12345):
                    a = live.FileStream(io.BytesIO(), sector_size, list(sector_list))
                    b = OriginalFileStream(io.BytesIO(), sector_size, list(sector_list))
                    ra = outcome(lambda: a._get_address_given_sector_index(idx, offset))
                    rb = outcome(lambda: b._get_address_given_sector_index(idx, offset))
                    check(ra == rb, f"address size={sector_size} list={sector_list[:5]} idx={idx!r} off={offset}")
                    if isinstance(idx, int) and not isinstance(idx, bool):
                        if -ln <= idx < ln:
                            check(ra == ("ok", sector_list[idx] * sector_size + offset),
                                  f"expected address idx={idx}")
                        else:
                            check(ra[0] == "exc" and ra[1] == "SectorReadError"
                                  and ra[3] == "IndexError" and ra[6] is True,
                                  f"expected SectorReadError idx={idx}")
                    n += 1
    return n


def read_cases():
    n = 0
    rng = random.Random(1818)
    n_clusters = 24
    partition = bytes(rng.getrandbits(8) for _ in range(4096))
    partition = (partition * (n_clusters * ROLAND_CLUSTER_SIZE // 4096 + 1))[:n_clusters * ROLAND_CLUSTER_SIZE]
    # make every cluster distinguishable
    partition = bytearray(partition)
    for c in range(n_clusters):
        partition[c * ROLAND_CLUSTER_SIZE:c * ROLAND_CLUSTER_SIZE + 2] = bytes([c, 255 - c])
    partition = bytes(partition)

    for trial in range(60):
        k = rng.randrange(0, 8)
        chain = rng.sample(range(n_clusters + (2 if trial % 7 == 0 else 0)), k)
        total = k * ROLAND_CLUSTER_SIZE
        script = []
        for _ in range(8):
            pos = rng.choice([0, 1, ROLAND_CLUSTER_SIZE - 1, ROLAND_CLUSTER_SIZE,
                              max(0, total - 2), total, rng.randrange(0, total + 1)])
            size = rng.choice([0, 1, 2, 4096, ROLAND_CLUSTER_SIZE, ROLAND_CLUSTER_SIZE + 1,
                               2 * ROLAND_CLUSTER_SIZE, total, total + 5, -1, None])
            script.append((pos, size))

        results = []
        for cls in (RolandFile, OriginalRolandFile):
            stream = Recorder(partition)
            f = cls(stream, list(chain))
            trace = []
            for pos, size in script:
                trace.append(outcome(lambda: f.seek(pos, io.SEEK_SET)))
                trace.append(outcome(lambda: f.read(size)))
                trace.append(f.tell())
            # direct _read beyond the clamp of read(): exercises the error path
            f.position = max(0, total - 3)
            trace.append(outcome(lambda: f._read(10)))
            trace.append(outcome(lambda: f._read_sector(k, 0, 4)))
            trace.append(outcome(lambda: f._read_sector(-1, 0, 4)))
            trace.append(outcome(lambda: f._translate_address(total - 1)))
            results.append((trace, list(stream.log)))
        check(results[0] == results[1], f"read trial {trial} chain={chain}")
        n += 1

        # expected bytes for an in-range whole read
        if k and all(c < n_clusters for c in chain):
            f = RolandFile(io.BytesIO(partition), list(chain))
            expected = b"".join(
                partition[c * ROLAND_CLUSTER_SIZE:(c + 1) * ROLAND_CLUSTER_SIZE] for c in chain)
            check(f.read(total) == expected, f"expected content trial {trial}")
    return n


def main():
    check(RolandFile.__mro__[1] is live.FileStream, "RolandFile derives from the live FileStream")
    n = address_cases()
    m = read_cases()
    # (4) precomputed
    f = live.FileStream(io.BytesIO(), 0x2400, [7, 3, 9])
    check(f._get_address_given_sector_index(0, 0) == 0xfc00, "precomputed 0")
    check(f._get_address_given_sector_index(1, 0x10) == 0x6c10, "precomputed 1")
    check(f._get_address_given_sector_index(-1, 2) == 0x14402, "precomputed -1")
    try:
        f._get_address_given_sector_index(3, 0)
        check(False, "no error for index 3")
    except SectorReadError as e:
        check(str(e) == "Sector 3 lies beyond the 3 sectors of the file.", "precomputed message")
        check(isinstance(e.__cause__, IndexError), "precomputed cause")
    print(f"{n} address cases, {m} read scripts, {len(failures)} mismatches")
    return 1 if failures else 0


if __name__ == "__main__":
    sys.exit(main())
