"""Equivalence demo for r1: Image.combine_stereo_routine (smpl_extract/structural.py).

Compares the live method against an inline copy of the ORIGINAL implementation
on many multisets of sibling sample names, in many directory orders.
Exit 0 when everything agrees, 1 otherwise.
"""
import io
import itertools
import random
import sys
from typing import cast

from smpl_extract import structural
from smpl_extract.data_streams import DataStream
from smpl_extract.generalized.sample import Sample
from smpl_extract.generalized.sample import combine_stereo
from smpl_extract.structural import Image


# --- inline copy of the ORIGINAL implementation --------------------------
def orig_combine_stereo_routine(self, samples):
    sample_dict = {s.export_name: s for s in samples}
    marked = {n: False for n in sample_dict}
    result = []
    for sample in samples:

        result_sample = sample
        name = sample.export_name
        if marked[name]:
            continue

        match = self._STEREO_FILENAME.match(name)
        if match:
            alternate_ending = "R" if match.group(3) == "L" else "L"
            alternate_name = "".join((
                match.group(1),
                match.group(2),
                alternate_ending
            ))
            if alternate_name in sample_dict.keys():
                alternate_sample = sample_dict[alternate_name]
                alternate_sample = cast(Sample, alternate_sample)
                if alternate_ending == "R":
                    pairs = [sample, alternate_sample]
                else:
                    pairs = [alternate_sample, sample]

                new_name = match.group(1)
                result_sample = combine_stereo(pairs[0], pairs[1], new_name)
                marked[alternate_name] = True

        result.append(result_sample)
        marked[name] = True

    return result
# -------------------------------------------------------------------------


def make_samples(names):
    """names: list of (name, export_name_or_None)."""
    samples = []
    for i, (name, export_name) in enumerate(names):
        s = Sample(
            name=name,
            data_streams=[DataStream(io.BytesIO(bytes([i % 256])))],
            _path=["vol", name],
            _export_name=export_name,
        )
        samples.append(s)
    return samples


def describe(inputs, outputs):
    index_of_sample = {id(s): i for i, s in enumerate(inputs)}
    index_of_stream = {id(s.data_streams[0]): i for i, s in enumerate(inputs)}
    desc = []
    for out in outputs:
        if id(out) in index_of_sample:
            desc.append(("same", index_of_sample[id(out)]))
        else:
            desc.append((
                "new",
                out.name,
                out._export_name,
                out.export_name,
                tuple(index_of_stream.get(id(d), -1) for d in out.data_streams),
                int(out.channel_config),
                out.num_channels,
                tuple(out._path),
            ))
    return desc


def snapshot(inputs):
    return [
        (s.name, s._export_name, len(s.data_streams), int(s.channel_config),
         s.num_channels)
        for s in inputs
    ]


def run(func, image, names):
    inputs = make_samples(names)
    before = snapshot(inputs)
    given = list(inputs)
    try:
        outputs = func(image, given)
        outcome = ("ok", describe(inputs, outputs))
    except Exception as e:  # noqa: BLE001
        outcome = ("exc", type(e).__name__, str(e))
    same_list = len(given) == len(inputs) and all(
        a is b for a, b in zip(given, inputs))
    return outcome, before == snapshot(inputs), same_list


def main():
    image = Image(lambda ctx: [])
    live = Image.combine_stereo_routine

    stems = ["A", "A ", "PIANO", "PIANO-", "PIANO -", "", "L", "R", "-", "A-L",
             "STR 1", "x"]
    seps = ["-", " ", " -", "- ", "--", "  ", "", "_", "\t", "-\n"]
    ends = ["L", "R", "l", "r", "L ", "R ", "L  ", "R\n", "LR", "M", ""]
    pool = []
    for a in stems:
        for b in seps:
            for c in ends:
                pool.append(a + b + c)
    pool = sorted(set(pool))

    cases = []

    # hand-written edge cases (all permutations)
    hand = [
        [],
        ["A-L"],
        ["A-L", "A-R"],
        ["A-R", "A-L"],
        ["A-L", "A-R", "A"],
        ["A-L", "A-R", "A-L"],
        ["A-L", "A-L", "A-R", "A-R"],
        ["A-L ", "A-R"],
        ["A-L", "A-R "],
        ["A-L ", "A-R "],
        ["A -L", "A- R", "A - L", "A - R"],
        ["L", "R", "-L", "-R", " L", " R"],
        ["A-L-L", "A-L-R", "A-L", "A-R"],
        ["A L", "A-R"],
        ["A--L", "A--R", "A-L"],
        ["PIANO L", "PIANO R", "PIANO", "PIANO (2) L", "PIANO (2) R"],
        ["A-l", "A-r"],
        ["A-L\n", "A-R"],
        ["A\n-L", "A\n-R"],
    ]
    for names in hand:
        for perm in set(itertools.permutations(names)):
            cases.append([(n, None) for n in perm])

    # exhaustive ordered triples over a near-collision alphabet
    small = ["A-L", "A-R", "A", "A L", "A R", "A-L ", "A -R", "B-L"]
    for k in (1, 2, 3):
        for tup in itertools.product(small, repeat=k):
            cases.append([(n, None) for n in tup])

    # random multisets, export name sometimes differing from name
    rng = random.Random(505)
    for _ in range(6000):
        n = rng.randint(0, 7)
        base = [rng.choice(pool) for _ in range(rng.randint(1, 3))]
        names = []
        for _ in range(n):
            if rng.random() < 0.6:
                stem = rng.choice(base)
                m = Image._STEREO_FILENAME.match(stem)
                if m and rng.random() < 0.7:
                    nm = m.group(1) + m.group(2) + rng.choice(["L", "R"])
                else:
                    nm = stem
            else:
                nm = rng.choice(pool)
            if rng.random() < 0.3:
                names.append((rng.choice(pool), nm))   # export name overrides
            else:
                names.append((nm, None))
        rng.shuffle(names)
        cases.append(names)

    bad = 0
    for names in cases:
        got = run(live, image, names)
        want = run(orig_combine_stereo_routine, image, names)
        if got != want:
            bad += 1
            if bad <= 5:
                print("MISMATCH for", names)
                print("  live:", got)
                print("  orig:", want)

    # also check with a recording stand-in for combine_stereo (argument order)
    calls_live, calls_orig = [], []
    real = structural.combine_stereo

    def recorder(store):
        def fake(left, right, new_name=None):
            store.append((left.export_name, right.export_name, new_name))
            return real(left, right, new_name)
        return fake

    global combine_stereo
    for names in cases[:3000]:
        structural.combine_stereo = recorder(calls_live)
        run(live, image, names)
        structural.combine_stereo = real
        saved = combine_stereo
        combine_stereo = recorder(calls_orig)
        run(orig_combine_stereo_routine, image, names)
        combine_stereo = saved
    if calls_live != calls_orig:
        bad += 1
        print("MISMATCH in combine_stereo call sequence")

    print(f"{len(cases)} cases, {len(calls_live)} pair merges recorded, "
          f"{bad} mismatches")
    return 1 if bad else 0


if __name__ == "__main__":
    sys.exit(main())
