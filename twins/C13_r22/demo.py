"""Equivalence demo for the PartitionParser declaration
(smpl_extract/akai/partition.py): the length expression of the lazily read
volume data.  That length decides where the stream stands after one partition
has been parsed, i.e. how the partition scan loop
`while self.file.tell() < self.file_size` of AkaiImageParser advances.

An inline copy of the ORIGINAL declaration (with the inline lambda that calls
three sizeof() methods on every evaluation) is compared with the parser of the
tree
  * directly: the length callable of the tree (dug out of the declaration)
    against the original lambda for every 16 bit partition size, for odd
    values (negative, bool, float, huge) and for contexts that lack the
    fields (exception type and text);
  * structurally: class chain and field names of both declarations;
  * on hand built partitions (valid ones with volumes, zero / tiny / huge
    sizes, bad magic, truncated, random SAT words, corrupted bytes, noise):
    result, names and paths, SAT links, volumes and their files, stream
    position afterwards, exceptions;
  * on whole images of several partitions through AkaiImageParser (the scan
    loop itself): partitions found and final stream position.
Exit 0 when everything agrees, 1 otherwise.
"""
import io
import random
import struct
import sys

from construct.core import Bytes
from construct.core import Int16ul
from construct.core import Lazy
from construct.core import Struct
from construct.expr import this
from construct.lib.containers import Container

import smpl_extract.akai.image as image_module
from smpl_extract.akai.akai_string import char_ascii_to_akai
from smpl_extract.akai.data_types import AKAI_PARTITION_MAGIC
from smpl_extract.akai.data_types import AKAI_SAT_ENTRY_CNT
from smpl_extract.akai.data_types import AKAI_SECTOR_SIZE
from smpl_extract.akai.data_types import AKAI_VOLUME_ENTRY_CNT
from smpl_extract.akai.image import AkaiImageParser
from smpl_extract.akai.partition import PartitionAdapter
from smpl_extract.akai.partition import PartitionHeaderConstruct
from smpl_extract.akai.partition import PartitionParser
from smpl_extract.akai.sat import SegmentAllocationTableAdapter
from smpl_extract.akai.volume import VolumeEntryConstruct
from smpl_extract.akai.volume import VolumesAdapter


# verbatim copy of the original length expression ...
original_length = (
            lambda this: this.header.total_size \
                - PartitionHeaderConstruct.sizeof() \
                - VolumeEntryConstruct[AKAI_VOLUME_ENTRY_CNT].sizeof() \
                - Int16ul[AKAI_SAT_ENTRY_CNT].sizeof()
)

# ... and of the original declaration around it
OriginalPartitionParser = PartitionAdapter(
    Struct(
        "header" / PartitionHeaderConstruct,
        "volume_entries" / VolumeEntryConstruct[AKAI_VOLUME_ENTRY_CNT],
        "sat" / SegmentAllocationTableAdapter(
            this.header.partition_stream,
            Int16ul[AKAI_SAT_ENTRY_CNT]  # type: ignore
        ),
        "volumes" / Lazy(VolumesAdapter(
            this.volume_entries,
            this.sat,  # type: ignore
            Lazy(Bytes(  # type: ignore
            lambda this: this.header.total_size \
                - PartitionHeaderConstruct.sizeof() \
                - VolumeEntryConstruct[AKAI_VOLUME_ENTRY_CNT].sizeof() \
                - Int16ul[AKAI_SAT_ENTRY_CNT].sizeof()
            )),
        ))
    )
).compile()

failures = 0
checked = 0


def report(label, new, old):
    global failures, checked
    checked += 1
    if new != old:
        failures += 1
        if failures < 10:
            print("MISMATCH", label)
            print("   new", str(new)[:400])
            print("   old", str(old)[:400])


def describe_exception(e):
    return ("raise", type(e), str(e), type(e.__cause__), type(e.__context__))


# ------------------------------------------------------------ the callable
def dig_length(parser):
    inner_struct = parser.defersubcon.subcon
    volumes_field = inner_struct.subcons[3]
    assert volumes_field.name == "volumes"
    lazy_outer = volumes_field.subcon
    volumes_adapter = lazy_outer.subcon
    lazy_inner = volumes_adapter.subcon
    bytes_field = lazy_inner.subcon
    assert isinstance(bytes_field, Bytes)
    return bytes_field.length


def call(function, context):
    try:
        value = function(context)
    except BaseException as e:  # noqa
        return describe_exception(e)
    return ("value", type(value), value)


def callable_checks():
    tree_length = dig_length(PartitionParser)
    report("length is callable", callable(tree_length), True)
    for size in range(0x10000):
        context = Container(header=Container(
            size=size, total_size=size * AKAI_SECTOR_SIZE))
        report("size %d" % size, call(tree_length, context),
               call(original_length, context))
    for total in (-1, -24574, -24575, 0, 1, 24573, 24574, 24575, True, False,
                  2 ** 70, -2 ** 70, 0.0, 1.5, 24574.0, float("inf"), None,
                  "x", b"y", [1], (2,)):
        context = Container(header=Container(total_size=total))
        report("total %r" % (total,), call(tree_length, context),
               call(original_length, context))
    for label, context in (
            ("empty", Container()),
            ("no total", Container(header=Container(size=3))),
            ("header none", Container(header=None)),
            ("header int", Container(header=7)),
            ("plain dict", {"header": {"total_size": 5}}),
            ("none", None)):
        report("context " + label, call(tree_length, context),
               call(original_length, context))


def shape(con, depth=0):
    item = [type(con).__name__, getattr(con, "name", None)]
    if hasattr(con, "subcons"):
        item.append([shape(sub, depth + 1) for sub in con.subcons[:6]])
    elif hasattr(con, "subcon") and depth < 6:
        item.append(shape(con.subcon, depth + 1))
    elif hasattr(con, "defersubcon"):
        item.append(shape(con.defersubcon, depth + 1))
    return item


# ------------------------------------------------------------ real images
HEADER_SIZE = 202
MIN_BODY = HEADER_SIZE + 16 * AKAI_VOLUME_ENTRY_CNT + 2 * AKAI_SAT_ENTRY_CNT


class Parent:
    path = ["img"]


def make_partition(rng, n_sectors, *, magic=None, check=None, tail=b"\x2F\x00",
                   zeros=b"\x00\x00", volume_names=(), sat_words=None,
                   fill=True, file_names=()):
    magic = AKAI_PARTITION_MAGIC if magic is None else magic
    check_sum_x = n_sectors // 128 - 1
    if check is None:
        check = bytes((0x55 if check_sum_x % 2 == 0 else 0xD5,
                       (check_sum_x // 2 + 0xBA) & 0xFF))
    header = struct.pack("<H", n_sectors & 0xFFFF) + zeros + magic + check + tail
    entries = b""
    for k in range(AKAI_VOLUME_ENTRY_CNT):
        if k < len(volume_names):
            name = char_ascii_to_akai(volume_names[k].ljust(12))
            entries += name + struct.pack("<HH", 1, 3 + k)
        else:
            entries += char_ascii_to_akai(" " * 12) + struct.pack("<HH", 0, 0)
    if sat_words is None:
        sat_words = [0x4000, 0x4000, 0x4000] + [0xC000] * 8
    sat_words = list(sat_words)[:AKAI_SAT_ENTRY_CNT]
    sat_words += [0] * (AKAI_SAT_ENTRY_CNT - len(sat_words))
    sat = struct.pack("<%dH" % AKAI_SAT_ENTRY_CNT, *sat_words)
    body = bytearray(header + entries + sat)
    if fill:
        total = n_sectors * AKAI_SECTOR_SIZE
        if total > len(body):
            body += bytes(rng.getrandbits(8) for _ in range(min(64, total - len(body))))
            body += b"\x00" * (total - len(body))
        # a small directory in the sector of the first volume
        at = 3 * AKAI_SECTOR_SIZE
        for k, file_name in enumerate(file_names):
            record = char_ascii_to_akai(file_name.ljust(12)) + bytes(4) + \
                bytes([0x73]) + (200).to_bytes(3, "little") + \
                struct.pack("<H", 6 + k) + bytes(2)
            if at + 24 * (k + 1) <= len(body):
                body[at + 24 * k: at + 24 * (k + 1)] = record
    return bytes(body)


def touch(partition):
    """what `ls` would look at"""
    try:
        links = [(l.next, l.end) for l in partition.sat.sector_links[:64]]
    except BaseException as e:  # noqa
        links = describe_exception(e)
    try:
        table = partition._f_sat
        links = (links, type(table), table.size,
                 hash(tuple((l.next, l.end) for l in table.sector_links)),
                 type(table.parent_stream), table.parent_stream.offset,
                 table.parent_stream.end_of_file)
    except BaseException as e:  # noqa
        links = (links, describe_exception(e))
    try:
        children = []
        for volume in partition.children:
            try:
                entries = [(entry.name, entry.file_type)
                           for entry in volume.file_entries]
            except BaseException as e:  # noqa
                entries = describe_exception(e)
            children.append((type(volume), volume.name, volume.path, entries))
    except BaseException as e:  # noqa
        children = describe_exception(e)
    return links, children


def image_outcome(parser, data):
    stream = io.BytesIO(data)
    parent = Parent()
    try:
        part = parser.parse_stream(
            stream, _elem_name="A", _elem_parent=parent, _elem_routines={}
        )
    except BaseException as e:  # noqa
        return describe_exception(e) + (stream.tell(),)
    position = stream.tell()
    return ("ok", type(part), part.name, part.path, part.parent is parent,
            position) + touch(part) + (stream.tell(),)


def image_cases(rng):
    yield "empty", b""
    yield "valid 4", make_partition(rng, 4, volume_names=["VOL1", "VOL2"])
    yield "valid 4 files", make_partition(
        rng, 8, volume_names=["VOL1", "VOL2"], file_names=["KICK", "SNARE", "HAT"])
    yield "valid 3", make_partition(rng, 3)
    yield "valid 130", make_partition(rng, 130, volume_names=["A"])
    yield "valid 300", make_partition(rng, 300, volume_names=["A", "B", "C"])
    yield "zero size", make_partition(rng, 0)
    yield "one sector", make_partition(rng, 1)
    yield "two sectors", make_partition(rng, 2)
    yield "three sectors short", make_partition(rng, 3)[:MIN_BODY]
    yield "huge size", make_partition(rng, 0xFFFF, fill=False)
    yield "bad magic", make_partition(rng, 4, magic=bytes(len(AKAI_PARTITION_MAGIC)))
    yield "bad zeros", make_partition(rng, 4, zeros=b"\x01\x00")
    yield "bad tail", make_partition(rng, 4, tail=b"\x00\x00")
    yield "other check", make_partition(rng, 4, check=b"\x00\x00")
    good = make_partition(rng, 4, volume_names=["VOL1", "VOL2", "VOL3"],
                          file_names=["ONE", "TWO"])
    for cut in (1, 2, 3, 4, 100, 201, 202, 203, 218, 1801, 1802, 1803,
                10000, MIN_BODY - 1, MIN_BODY, MIN_BODY + 1, len(good) - 1):
        yield "cut %d" % cut, good[:cut]
    for extra in (1, 100, 9000):
        yield "extra %d" % extra, good + bytes(extra)
    for n in range(40):
        words = [rng.choice((0, 0x4000, 0x8000, 0xC000, 0xFFFF,
                             rng.randrange(200))) for _ in range(300)]
        yield "random sat %d" % n, make_partition(
            rng, rng.choice((3, 4, 5, 8)), volume_names=["V%d" % n],
            sat_words=words, file_names=["F%d" % n])
    for n in range(40):
        data = bytearray(good[:MIN_BODY + 200])
        for _ in range(rng.randint(1, 4)):
            data[rng.randrange(0, 1900)] = rng.getrandbits(8)
        yield "corrupt %d" % n, bytes(data)
    for n in range(40):
        data = bytearray(good)
        data[0:2] = struct.pack("<H", rng.choice(
            (0, 1, 2, 3, 4, 5, 127, 128, 129, 255, 256, 1000, 0x7FFF, 0x8000, 0xFFFF)))
        yield "size word %d" % n, bytes(data)
    for n in range(40):
        yield "noise %d" % n, bytes(
            rng.getrandbits(8) for _ in range(rng.choice((0, 1, 5, 300, 30000))))


# ------------------------------------------------------ whole image scans
def scan_outcome(parser, data):
    saved = image_module.PartitionParser
    image_module.PartitionParser = parser
    try:
        stream = io.BytesIO(data)
        image = AkaiImageParser(stream)
        image._routines = {}
        try:
            partitions = image.partitions
        except BaseException as e:  # noqa
            return describe_exception(e) + (stream.tell(),)
        position = stream.tell()
        return ([(p.name, p.path) + touch(p) for p in partitions], position)
    finally:
        image_module.PartitionParser = saved


def scan_cases(rng):
    a = make_partition(rng, 4, volume_names=["VOL1"], file_names=["AA"])
    b = make_partition(rng, 3, volume_names=["X", "Y"])
    c = make_partition(rng, 130, volume_names=["BIG"])
    zero = make_partition(rng, 0)
    yield "a", a
    yield "a b", a + b
    yield "a b a", a + b + a
    yield "a c b", a + c + b
    yield "a zero b", a + zero + b
    yield "zero", zero
    yield "a junk", a + b"junk" * 100
    yield "a cut b", a + b[:3000]
    yield "a cut b at table", a + b[:MIN_BODY]
    yield "a a a a", a * 4
    yield "26 and more", b * 30
    # declared size larger / smaller than the room the partition takes
    for declared in (2, 3, 5, 6, 100, 0xFFFF):
        resized = bytearray(a)
        resized[0:2] = struct.pack("<H", declared)
        yield "declared %d" % declared, bytes(resized) + b + a
    for n in range(20):
        data = bytearray(a + b + a)
        for _ in range(3):
            data[rng.randrange(len(data))] = rng.getrandbits(8)
        data[rng.choice((0, 1, len(a), len(a) + 1))] = rng.choice((0, 1, 3, 255))
        yield "scan corrupt %d" % n, bytes(data)


def main():
    rng = random.Random(22)
    callable_checks()
    report("shape", shape(PartitionParser), shape(OriginalPartitionParser))
    for label, data in image_cases(rng):
        report(label,
               image_outcome(PartitionParser, data),
               image_outcome(OriginalPartitionParser, data))
    for label, data in scan_cases(rng):
        report(label,
               scan_outcome(PartitionParser, data),
               scan_outcome(OriginalPartitionParser, data))
    print("checked", checked, "failures", failures)
    return 1 if failures else 0


if __name__ == "__main__":
    sys.exit(main())
