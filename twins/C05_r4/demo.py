"""Equivalence demo for r4: Traversable.export_samples and
ExportManager.export_samples (smpl_extract/structural.py).

Random directory trees (sample entries, program entries, nested directories,
L/R pairs, duplicates) are exported once with the live methods and once with
inline copies of the ORIGINAL methods; the full event trace (level changes,
to_generalized order, routine inputs/outputs, export_wav calls, printed lines,
exceptions), the manager's final state and every written file are compared.
Exit 0 when everything agrees, 1 otherwise.
"""
import contextlib
import hashlib
import io
import os
import random
import shutil
import sys
import tempfile
from typing import cast

from smpl_extract import structural
from smpl_extract.base import ElementTypes
from smpl_extract.data_streams import DataStream
from smpl_extract.data_streams import Endianess
from smpl_extract.data_streams import StreamEncoding
from smpl_extract.generalized.sample import Sample
from smpl_extract.generalized.wav import export_wav as real_export_wav
from smpl_extract.structural import ExportManager
from smpl_extract.structural import Image
from smpl_extract.structural import ProgramElement
from smpl_extract.structural import SampleElement
from smpl_extract.structural import Traversable

export_wav = real_export_wav     # rebound per run (used by the ORIGINAL copy)


# --- inline copies of the ORIGINAL implementations -----------------------
def orig_manager_export_samples(self):
    samples = self.samples
    for f_routine in self.routines.values():
        samples = f_routine(samples)

    for sample in samples:
        inner_path = self.make_output_path(sample)
        total_path = os.path.join(self.output_directory, inner_path) + ".wav"
        dir_name = os.path.dirname(total_path)
        if not os.path.exists(dir_name):
            os.makedirs(dir_name)
        export_wav(sample, total_path)
        print(f"Exported {inner_path}.wav")

    self.samples.clear()
    return


def orig_traversable_export_samples(
        self,
        export_manager: ExportManager
):
    export_manager.set_level(tuple(self.path))
    children = self.children

    for child in children:
        if child.type_id == ElementTypes.SampleEntry:
            child = cast(SampleElement, child)
            sample = child.to_generalized()
            export_manager.add_sample(sample)
        elif isinstance(child, Traversable):
            child.export_samples(export_manager)

    export_manager.finish_level()
    return
# -------------------------------------------------------------------------


class OrigManager(ExportManager):
    export_samples = orig_manager_export_samples


class OrigDir(Traversable):
    export_samples = orig_traversable_export_samples


class OrigImage(Image):
    export_samples = orig_traversable_export_samples


class Boom(Exception):
    pass


def make_world(seed, live, out_dir):
    """Build (root, manager, trace) deterministically from seed."""
    rng = random.Random(seed)
    trace = []
    DirCls = Traversable if live else OrigDir
    ImgCls = Image if live else OrigImage
    MgrCls = ExportManager if live else OrigManager
    fail_generalize = rng.choice([None] * 9 + [rng.randint(1, 6)])
    fail_export = rng.choice([None] * 9 + [rng.randint(1, 4)])
    counters = {"gen": 0, "exp": 0}

    class Entry(SampleElement):
        def __init__(self, name, path, parent, payload):
            self.name = name
            self._path = path
            self._parent = parent
            self._safe_name = None
            self._export_name = None
            self.payload = payload

        def to_generalized(self):
            counters["gen"] += 1
            trace.append(("to_generalized", tuple(self._path)))
            if fail_generalize == counters["gen"]:
                raise Boom("generalize %d" % counters["gen"])
            enc = StreamEncoding(Endianess.BIG, 2, 1, True)
            return Sample(
                name=self.name,
                sample_rate=22050,
                data_streams=[DataStream(io.BytesIO(self.payload), enc)],
                _parent=self._parent,
                _path=list(self._path),
                _export_name=self._export_name,
            )

    class Prog(ProgramElement):
        def __init__(self, name, path, parent):
            self.name = name
            self._path = path
            self._parent = parent
            self._safe_name = None
            self._export_name = None

    names_pool = ["PIANO-L", "PIANO-R", "PIANO", "STR L", "STR R", "STR  L",
                  "A-L", "A-R", "A-L ", "KICK", "L", "R", "x/y", "B -R", "B -L"]

    image_box = []

    def realize_factory(path, depth, parent_box):
        def realize(ctx):
            trace.append(("realize", tuple(path)))
            parent = parent_box[0]
            children = []
            n = rng.choice([0, 1, 2, 3, 4, 5, 6])
            for i in range(n):
                kind = rng.choice(["s", "s", "s", "s", "p", "d" if depth < 3 else "s"])
                name = rng.choice(names_pool)
                if rng.random() < 0.1:
                    name = name.lower()
                cpath = path + [name]
                if kind == "s":
                    frames = rng.choice([0, 1, 4, 4, 4, 9])
                    payload = bytes(rng.randrange(256) for _ in range(2 * frames))
                    children.append(Entry(name, cpath, parent, payload))
                    stripped = name.rstrip()
                    if stripped[-1:] in ("L", "R") and rng.random() < 0.5:
                        # add the partner of a would-be stereo pair
                        other = stripped[:-1] + ("R" if stripped[-1] == "L" else "L")
                        payload2 = bytes(rng.randrange(256) for _ in range(
                            len(payload) if rng.random() < 0.8 else 6))
                        children.append(Entry(other, path + [other], parent, payload2))
                elif kind == "p":
                    children.append(Prog(name, cpath, parent))
                else:
                    box = [None]
                    d = DirCls(realize_factory(cpath, depth + 1, box),
                               ctx["_elem_routines"], cpath, parent)
                    d.name = name
                    box[0] = d
                    children.append(d)
            return children
        return realize

    root = ImgCls(realize_factory([], 0, image_box))
    root.name = "image"
    image_box.append(root)
    use_naming = rng.random() < 0.7
    if use_naming:
        root.set_routines({
            "safe": root.make_safe_names_routine,
            "export": root.make_export_names_routine,
        })

    def traced(label, f):
        def wrapper(samples):
            trace.append((label, "in", [(s.export_name, s.num_channels) for s in samples]))
            out = f(samples)
            trace.append((label, "out", [(s.export_name, s.num_channels) for s in out]))
            return out
        return wrapper

    routines = {}
    mode = rng.choice(["combine", "combine", "combine", "none", "reverse+combine"])
    if mode == "reverse+combine":
        routines["reverse"] = traced("reverse", lambda s: list(reversed(s)))
    if mode != "none":
        routines["combine_stereo"] = traced("combine", root.combine_stereo_routine)
    manager = MgrCls(out_dir, routines if rng.random() < 0.9 else None)

    def tracing_export_wav(sample, path):
        counters["exp"] += 1
        trace.append(("export_wav", os.path.relpath(path, out_dir),
                      sample.export_name, sample.num_channels,
                      len(sample.data_streams)))
        if fail_export == counters["exp"]:
            raise Boom("export %d" % counters["exp"])
        return real_export_wav(sample, path)

    # optionally put a plain file where a directory would be needed
    if rng.random() < 0.1:
        with open(os.path.join(out_dir, rng.choice(names_pool).replace("/", " ")), "wb") as f:
            f.write(b"in the way")

    orig_set_level = manager.set_level
    orig_finish = manager.finish_level
    orig_add = manager.add_sample

    def set_level(level):
        trace.append(("set_level", level, len(manager.samples)))
        return orig_set_level(level)

    def finish_level():
        trace.append(("finish_level", manager.level,
                      [s.export_name for s in manager.samples]))
        return orig_finish()

    def add_sample(sample):
        trace.append(("add_sample", sample.export_name, tuple(sample.path)))
        return orig_add(sample)

    manager.set_level = set_level
    manager.finish_level = finish_level
    manager.add_sample = add_sample
    return root, manager, trace, tracing_export_wav


def tree_digest(root_dir):
    out = []
    for dirpath, dirnames, filenames in os.walk(root_dir):
        dirnames.sort()
        rel = os.path.relpath(dirpath, root_dir)
        out.append(("dir", rel))
        for fn in sorted(filenames):
            with open(os.path.join(dirpath, fn), "rb") as f:
                out.append(("file", os.path.join(rel, fn),
                            hashlib.sha256(f.read()).hexdigest()))
    return out


def run(seed, live):
    global export_wav
    out_dir = tempfile.mkdtemp(prefix="r4demo_")
    saved = structural.export_wav
    try:
        root, manager, trace, tracing_export_wav = make_world(seed, live, out_dir)
        structural.export_wav = tracing_export_wav
        export_wav = tracing_export_wav
        stdout = io.StringIO()
        with contextlib.redirect_stdout(stdout):
            try:
                ret = root.export_samples(manager)
                outcome = ("ok", repr(ret))
            except Exception as e:  # noqa: BLE001
                outcome = ("exc", type(e).__name__, str(e).replace(out_dir, "<out>"))
        final = (manager.level, [s.export_name for s in manager.samples])
        return (outcome, trace, stdout.getvalue(), final, tree_digest(out_dir))
    finally:
        structural.export_wav = saved
        export_wav = real_export_wav
        shutil.rmtree(out_dir, ignore_errors=True)


def direct_manager_checks():
    """ExportManager.export_samples called directly, return value included."""
    bad = 0
    results = []
    for Mgr in (ExportManager, OrigManager):
        global export_wav
        out_dir = tempfile.mkdtemp(prefix="r4demo_")
        saved = structural.export_wav
        calls = []

        def fake(sample, path, calls=calls, out_dir=out_dir):
            calls.append((sample.export_name, os.path.relpath(path, out_dir)))
        structural.export_wav = fake
        export_wav = fake
        try:
            image = Image(lambda ctx: [])
            mgr = Mgr(out_dir, {"combine_stereo": image.combine_stereo_routine})
            names = ["A-R", "B", "A-L", "A", "C L", "C R", "C L"]
            for n in names:
                mgr.add_sample(Sample(name=n, _path=["vol", n],
                                      data_streams=[DataStream(io.BytesIO(b"\0\0"))]))
            held = mgr.samples
            stdout = io.StringIO()
            with contextlib.redirect_stdout(stdout):
                ret = mgr.export_samples()
                ret2 = mgr.export_samples()      # empty level
            results.append((ret, ret2, calls, stdout.getvalue(),
                            held is mgr.samples, list(mgr.samples),
                            sorted(os.listdir(out_dir))))
        finally:
            structural.export_wav = saved
            export_wav = real_export_wav
            shutil.rmtree(out_dir, ignore_errors=True)
    if results[0] != results[1]:
        print("direct manager MISMATCH\n ", results[0], "\n ", results[1])
        bad += 1
    return bad


def main():
    bad = 0
    n = 700
    stats = {"ok": 0, "exc": 0, "files": 0}
    for seed in range(n):
        got = run(seed, True)
        want = run(seed, False)
        stats[got[0][0]] += 1
        stats["files"] += sum(1 for x in got[4] if x[0] == "file")
        if got != want:
            bad += 1
            if bad <= 3:
                print("MISMATCH seed", seed)
                for a, b in zip(got, want):
                    if a != b:
                        print("  live:", str(a)[:800])
                        print("  orig:", str(b)[:800])
    bad += direct_manager_checks()
    print(f"{n} trees, {stats}, {bad} mismatches")
    return 1 if bad else 0


if __name__ == "__main__":
    sys.exit(main())
