"""Equivalence demo for Image.make_export_name (C06, r24).

The live method (with or without the refactoring) is compared against a
verbatim inline copy of the ORIGINAL body, bound to the same image objects
(plain Image and CompactDiskAudioImage).  Inputs: the empty string, every
single code point below 0x250 plus selected others, every string of up to
four characters over a hostile alphabet (separators, dots, dashes, quotes,
control characters, blanks, digits, letters), several thousand random
strings, long strings, and non-string arguments (which must raise the same
exception with the same message); `is_file` runs over True / False and other
truthy / falsy values and is also left out.  A subclass that logs calls of
make_safe_name shows that the (discarded) call is still made once with the
same argument.  Finally the real make_export_names_routine is run over
sibling multisets and the assigned names compared.
Exit status 0 when everything agrees, 1 otherwise.
"""
import itertools
import random
import re
import sys

from smpl_extract.base import ElementTypes
from smpl_extract.cdda.image import CompactDiskAudioImage
from smpl_extract.structural import Image


# --------------------------------------------------------------------------
# ORIGINAL implementation (verbatim body)
# --------------------------------------------------------------------------
def original_make_export_name(self, name, is_file=True) -> str:
    export_name = self.make_safe_name(name)
    export_name = self._INVALID_FILE_NAME.sub(" ", name).strip()
    match = self._SAFE_ENDING.match(export_name)
    if match:
        export_name = match.group(1)
    if len(export_name) <= 0:
        export_name = "0"
    match = re.match(r"\w", export_name)
    if not match:
        export_name = "0" + export_name
    if not is_file:
        if export_name[-1] in (".", "-"):
            export_name = export_name + "0"
    return export_name


class OriginalImage(Image):
    make_export_name = original_make_export_name


FAILURES = []
N_CHECKS = 0
_MISSING = object()


def check(label, left, right):
    global N_CHECKS
    N_CHECKS += 1
    if left != right:
        FAILURES.append(label)
        if len(FAILURES) <= 25:
            print("MISMATCH", label)
            print("   original:", repr(left)[:300])
            print("   live    :", repr(right)[:300])


def outcome(function, *args):
    try:
        value = function(*args)
        return ("ok", type(value).__name__, value)
    except Exception as exc:  # noqa: BLE001 - compared
        return ("exc", type(exc).__name__, str(exc))


IMAGES = [
    Image(lambda context_additions: []),
    CompactDiskAudioImage(),
]

IS_FILE_VALUES = [_MISSING, True, False, 0, 1, None, "", "x", [], [0]]


def compare_name(name, is_file_values=IS_FILE_VALUES):
    for image in IMAGES:
        for is_file in is_file_values:
            args = (name,) if is_file is _MISSING else (name, is_file)
            check(
                f"{type(image).__name__}.make_export_name{args!r}",
                outcome(original_make_export_name, image, *args),
                outcome(image.make_export_name, *args),
            )


def main():
    # --- edge cases -------------------------------------------------------
    edge = [
        "", " ", "  ", ".", "..", "...", "-", "--", "-.", ".-", "#", "##",
        "_", "0", "a", "a.", "a-", "a .", "a. ", "a . ", "a .. ", "a-.",
        "a.-", ". a", "- a", "# a", "/", "\\", "a/b", "a\\b", "../..",
        "..\\..", "/etc/passwd", "C:\\x", "a:b", "'", "\"", "`", "'a'",
        "\x00", "\x00a", "a\x00", "\n", "a\nb", "\t.\t", "\r\n", "\x7f",
        "\x85", "\xa0", "\xa0a\xa0", "\u2028", "\u3000a", "é", "é.", ".é",
        "Ω-", "１２", "²", "a (2)", "a (2) L", "PIANO -L", "PIANO -R",
        "a" * 300, "." * 300, " " * 300 + "a", "a" + " ." * 100,
    ]
    for name in edge:
        compare_name(name)

    # --- every single code point in the low range + samples above ---------
    code_points = list(range(0x250)) + [
        0x2000, 0x2028, 0x2029, 0x202f, 0x3000, 0xfeff, 0xff0e, 0xff0d,
        0xff10, 0x1d7ce, 0x10ffff, 0xd800,
    ]
    for code in code_points:
        char = chr(code)
        for name in (char, char + "a", "a" + char, char + ".", "a" + char + "."):
            compare_name(name, (True, False))

    # --- exhaustive short strings over a hostile alphabet -----------------
    alphabet = ["a", "0", "_", " ", ".", "-", "#", "/", "\\", "'", "\x01",
                "\xa0", "é"]
    for size in (1, 2, 3, 4):
        for combo in itertools.product(alphabet, repeat=size):
            compare_name("".join(combo), (True, False))

    # --- random strings ---------------------------------------------------
    rng = random.Random(2406)
    pools = [
        alphabet,
        [chr(c) for c in range(0x20, 0x7f)],
        [chr(c) for c in range(0x00, 0x100)],
        [".", " ", "-", "a"],
    ]
    for _ in range(6000):
        pool = rng.choice(pools)
        name = "".join(rng.choice(pool) for _ in range(rng.randint(0, 12)))
        compare_name(name, (_MISSING, True, False))

    # --- non-string arguments: same exception, same message ---------------
    for bad in (None, 0, 1.5, b"bytes", bytearray(b"ab"), ["a"], ("a",),
                {"a": 1}, object):
        compare_name(bad, (_MISSING, True, False))

    # --- the discarded make_safe_name call is still made ------------------
    class Logging:
        def make_safe_name(self, name, is_file=True):
            self.calls.append((name, is_file))
            if name == "explode":
                raise RuntimeError("safe name failed")
            return "IGNORED"

    class LoggingLive(Logging, Image):
        pass

    class LoggingOriginal(Logging, OriginalImage):
        pass

    for name in ("", "a", "a/b", "explode", ". x ."):
        for is_file in (True, False):
            results = []
            for cls in (LoggingOriginal, LoggingLive):
                image = cls(lambda context_additions: [])
                image.calls = []
                results.append((
                    outcome(image.make_export_name, name, is_file),
                    image.calls,
                ))
            check(f"logging {name!r} {is_file}", results[0], results[1])

    # --- through the real routine -----------------------------------------
    class Sibling:
        def __init__(self, name, type_id):
            self.name = name
            self.type_id = type_id
            self._export_name = None

    pieces = ["a", "B", " ", "-", "L", "R", "(", ")", "2", ".", "/", "\\",
              "'", ":", "#", "\x01"]
    for case in range(500):
        pool = [
            "".join(rng.choice(pieces) for _ in range(rng.randint(0, 6)))
            for _ in range(rng.randint(1, 4))
        ]
        names = [rng.choice(pool) for _ in range(rng.randint(0, 8))]
        results = []
        for cls in (OriginalImage, Image):
            image = cls(lambda context_additions: [])
            siblings = [
                Sibling(n, ElementTypes.DirectoryEntry if k % 2
                        else ElementTypes.SampleEntry)
                for k, n in enumerate(names)
            ]
            image.make_export_names_routine(siblings)
            results.append([s._export_name for s in siblings])
        check(f"routine[{case}] {names!r}", results[0], results[1])

    print(f"{N_CHECKS} comparisons, {len(FAILURES)} mismatches")
    return 1 if FAILURES else 0


if __name__ == "__main__":
    sys.exit(main())
