"""Equivalence demo for r11: util.sector.SectorStream._read (used by MdfStream).

The refactoring computes (sector index, sector offset) with one divmod(),
chooses the size of the first partial read with a conditional expression
instead of an if/else statement, computes remaining_size once after the first
read (instead of initialising it to size and decrementing), and walks the
following sectors with a running next_sector_index instead of
initial_sector_index + i.

Subclasses that carry an inline copy of the ORIGINAL _read are compared with
the module's classes: returned bytes / exception, the ordered log of
tell/seek/read calls on the parent stream, the parent's final position and the
wrapper's own position - for plain SectorStream, MdfStream (2352-byte raw
sectors), and MDX-over-MDF stacks, through read(), readall(), seek()+read()
sequences and direct _read() calls with edge-case arguments.
"""
import io
import random
import sys
from io import SEEK_CUR
from io import SEEK_END
from io import SEEK_SET

from smpl_extract.alcohol.mdf import MdfStream
from smpl_extract.util.sector import SectorStream
from smpl_extract.util.stream import SectorReadError
from smpl_extract.util.stream import StreamOffset


def original_read(self, size):

    if size <= 0:
        return bytes()

    remaining_size = size

    initial_sector_index    = self.position // self.sector_length
    initial_sector_offset   = self.position % self.sector_length

    # read partial initial sector
    if initial_sector_offset + size <= self.sector_length:
        initial_read_size = size
    else:
        initial_read_size = self.sector_length - initial_sector_offset
    result = self._read_sector(
        initial_sector_index,
        initial_sector_offset,
        initial_read_size
    )
    remaining_size -= initial_read_size

    # read full size middle sectors
    i = 1
    while remaining_size > self.sector_length:
        result += self._read_sector(
            initial_sector_index + i,
            0,
            self.sector_length
        )
        remaining_size -= self.sector_length
        i += 1

    # read partial final sector
    final_sector_index = initial_sector_index + i
    if remaining_size > 0:
        result += self._read_sector(
            final_sector_index,
            0,
            remaining_size
        )

    if len(result) != size:
        raise SectorReadError(f"Wanted {size}, read {len(result)}.")

    return result


class OrigSectorStream(SectorStream):
    _read = original_read


class OrigMdfStream(MdfStream):
    _read = original_read


class Boom(Exception):
    pass


class Recorder(io.BytesIO):
    def __init__(self, data, fail_at=None, fail_with=Boom):
        super().__init__(data)
        self.log = []
        self.ops = 0
        self.fail_at = fail_at
        self.fail_with = fail_with

    def _maybe_fail(self, what, a):
        self.ops += 1
        if self.fail_at is not None and self.ops == self.fail_at:
            self.log.append((what + "-fail", a))
            raise self.fail_with("injected")

    def tell(self):
        self._maybe_fail("tell", ())
        r = super().tell()
        self.log.append(("tell", r))
        return r

    def seek(self, *a):
        self._maybe_fail("seek", a)
        r = super().seek(*a)
        self.log.append(("seek", a, r))
        return r

    def read(self, *a):
        self._maybe_fail("read", a)
        r = super().read(*a)
        self.log.append(("read", a, len(r), hash(r)))
        return r


def raw_sectors(payload):
    out = bytearray()
    payload = payload + bytes(-len(payload) % 2048)
    for n in range(len(payload) // 2048):
        out += b"\x00" + b"\xff" * 10 + b"\x00" + n.to_bytes(3, "big") + b"\x01"
        out += payload[n * 2048:(n + 1) * 2048]
        out += bytes(rng_footer(n))
    return bytes(out)


def rng_footer(n):
    r = random.Random(n)
    return [r.randrange(256) for _ in range(288)]


def build(kind, variant, data, fail_at=None, fail_with=Boom, **kw):
    """kind: 'sector' | 'mdf' | 'mdf+offset'; variant: 'orig' | 'new'."""
    base = Recorder(data, fail_at, fail_with)
    if kind == "sector":
        cls = OrigSectorStream if variant == "orig" else SectorStream
        stream = cls(base, **kw)
    else:
        cls = OrigMdfStream if variant == "orig" else MdfStream
        stream = cls(base, **kw)
        if kind == "mdf+offset":
            stream = StreamOffset(stream, size=max(stream.end_of_file - 64, 0), offset=64)
    return base, stream


def perform(stream, script):
    outs = []
    for op in script:
        try:
            if op[0] == "read":
                r = stream.read(op[1])
                outs.append(("read", len(r), hash(r)))
            elif op[0] == "_read":
                target = stream
                while not isinstance(target, SectorStream):
                    target = target.substream
                if len(op) > 2:
                    target.position = op[2]
                r = target._read(op[1])
                outs.append(("_read", type(r).__name__, len(r), hash(r)))
            elif op[0] == "seek":
                outs.append(("seek", stream.seek(*op[1:])))
            elif op[0] == "readall":
                r = stream.readall()
                outs.append(("readall", len(r), hash(r)))
            elif op[0] == "tell":
                outs.append(("tell", stream.tell()))
        except BaseException as e:  # noqa
            outs.append(("exc", type(e).__name__, str(e)))
    return outs


def compare(kind, data, script, build_kw=None, fail=None):
    results = []
    for variant in ("orig", "new"):
        kw = dict(build_kw or {})
        if fail:
            kw.update(fail_at=fail[0], fail_with=fail[1])
        try:
            base, stream = build(kind, variant, data, **kw)
        except BaseException as e:  # noqa
            results.append(("build-exc", type(e).__name__, str(e)))
            continue
        outs = perform(stream, script)
        positions = []
        s = stream
        while s is not base:
            positions.append(s.position)
            s = s.substream
        results.append((outs, base.log, io.BytesIO.tell(base), positions))
    return results[0] == results[1], results


def main():
    rng = random.Random(1111)
    payload = bytes(rng.randrange(256) for _ in range(2048 * 7 + 100))
    mdf_image = raw_sectors(payload)
    mdf_truncated = mdf_image[:-1000]        # last sector incomplete
    mdf_tiny = mdf_image[:2352]
    flat = bytes(rng.randrange(256) for _ in range(1000))

    checked = bad = 0
    cases = []

    interesting_pos = [0, 1, 15, 16, 17, 2047, 2048, 2049, 2351, 2352, 4095, 4096, 4097,
                       6143, 6144, 2048 * 6, 2048 * 7 - 1, 2048 * 7, 2048 * 8 - 1, 2048 * 8, 99999]
    interesting_size = [0, 1, 2, 15, 16, 2047, 2048, 2049, 4095, 4096, 4097, 6144, 6145,
                        2048 * 7, 2048 * 8, 2048 * 8 + 1, 50000, -1, None]

    # 1. MDF: every interesting (position, size) pair, seek + read + tell
    for image in (mdf_image, mdf_truncated, mdf_tiny, b"", mdf_image[:100]):
        for pos in interesting_pos:
            for size in interesting_size:
                cases.append(("mdf", image, [("seek", pos, SEEK_SET), ("read", size), ("tell",),
                                             ("read", 10)], None, None))
    # 2. MDF constructed with an initial position, and MDX-like window over MDF
    for pos in interesting_pos[:16]:
        for size in (1, 2048, 2049, 5000, None):
            cases.append(("mdf", mdf_image, [("read", size), ("read", size)],
                          {"position": pos}, None))
            cases.append(("mdf+offset", mdf_image, [("seek", pos, SEEK_SET), ("read", size),
                                                    ("read", 3)], None, None))
    # 3. plain SectorStream with assorted sector lengths (parent == flat file)
    for sector_length in (1, 2, 3, 7, 64, 512, 999, 1000, 1001, 5000, 0, -4):
        for size_total in (0, 1, 999, 1000, 1200):
            for pos in (0, 1, 6, 7, 63, 64, 511, 512, 998, 999, 1000):
                for size in (0, 1, 6, 7, 8, 64, 65, 500, 1000, 1001, None):
                    cases.append(("sector", flat,
                                  [("seek", pos, SEEK_SET), ("read", size), ("read", 5)],
                                  {"size": size_total, "sector_length": sector_length}, None))
    # 4. random walks
    for _ in range(300):
        script = []
        for _ in range(rng.randrange(1, 12)):
            choice = rng.random()
            if choice < 0.55:
                script.append(("read", rng.choice([0, 1, 100, 2047, 2048, 2049, 3000, 5000, 9000])))
            elif choice < 0.9:
                script.append(("seek", rng.randrange(-3000, 17000),
                               rng.choice([SEEK_SET, SEEK_CUR, SEEK_END])))
            elif choice < 0.95:
                script.append(("readall",))
            else:
                script.append(("tell",))
        cases.append((rng.choice(["mdf", "mdf+offset"]), rng.choice([mdf_image, mdf_truncated]),
                      script, None, None))
    # 5. direct _read with edge-case arguments (position forced)
    for pos in (0, 5, 2047, 2048, 4100, 2048 * 7, 2048 * 7 + 5, 10 ** 7, -1, -2048, -2049, True):
        for size in (0, -5, 1, True, False, 2043, 2048, 2049, 4096, 4097, 10000, 10 ** 5):
            cases.append(("mdf", mdf_image, [("_read", size, pos), ("tell",)], None, None))
            cases.append(("sector", flat, [("_read", size, pos)],
                          {"size": 1000, "sector_length": 64}, None))
    for size in (1, 10):
        for pos in (0, 3):
            cases.append(("sector", flat, [("_read", size, pos)],
                          {"size": 1000, "sector_length": 0}, None))
    # 6. parent stream failing on its n-th operation
    for n in range(1, 14):
        for exc in (Boom, OSError, KeyboardInterrupt):
            cases.append(("mdf", mdf_image,
                          [("seek", 2000, SEEK_SET), ("read", 5000), ("read", 100), ("tell",)],
                          None, (n, exc)))

    outcomes = set()
    for kind, data, script, build_kw, fail in cases:
        same, results = compare(kind, data, script, build_kw, fail)
        checked += 1
        if isinstance(results[0][0], list):
            for o in results[0][0]:
                outcomes.add(o[1] if o[0] == "exc" else o[0])
        if not same:
            bad += 1
            print("MISMATCH", kind, len(data), script, build_kw, fail)
            print("  orig:", results[0])
            print("  new: ", results[1])

    # sanity, precomputed on the unmodified tree: unwrapping really returns the payload
    base, stream = build("mdf", "new", mdf_image)
    assert stream.readall() == payload + bytes(-len(payload) % 2048)
    base, stream = build("mdf", "new", mdf_image)
    stream.seek(2040, SEEK_SET)
    assert stream.read(4200) == payload[2040:6240]
    assert [e[1] for e in base.log if e[0] == "read"] == [(8,), (2048,), (2048,), (96,)], base.log
    assert {"SectorReadError", "ZeroDivisionError", "Boom", "read", "_read"} <= outcomes, outcomes

    print("checked", checked, "mismatches", bad, "outcomes", sorted(outcomes))
    return 1 if bad else 0


if __name__ == "__main__":
    sys.exit(main())
