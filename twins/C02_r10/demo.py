"""Equivalence demo for r10: smpl_extract/roland/s7xx/fat.py
RolandFileAllocationTable.get_file (mechanism 'cluster chain minus leading
clusters').  The conditional re-slicing of the cluster path was extracted into
a module helper with early returns, the `result` temporary was dropped and the
RolandFile constructor arguments are passed by keyword.

The working-tree method is compared with an inline copy of the ORIGINAL on
  (1) random link tables / random chains / every cluster_offset from -3 to
      len+3 (plus bools): sector list, stream size, position, buffer length,
      parent stream identity and the bytes actually read through the stream,
  (2) broken tables (RequestedInvalidSector, InvalidFatDefinition) and odd
      cluster_offset values (None, str, float, nan, big ints),
  (3) a tracing subclass that logs the order of get_path / parent_stream
      accesses,
  (4) precomputed expectations.
Exit 0 when everything agrees, 1 otherwise.
"""
import io
import random
import sys

from smpl_extract.roland.s7xx import fat as rfat
from smpl_extract.roland.s7xx.fat import RolandFile
from smpl_extract.roland.s7xx.fat import RolandFileAllocationTable
from smpl_extract.util.fat import SectorLink
from smpl_extract.util.fat import add_to_sector_links

CL = rfat.ROLAND_CLUSTER_SIZE


# ---------------------------------------------------------------- original --
def original_get_file(self, index: int, cluster_offset: int = 0) -> RolandFile:
    sector_list = self.get_path(index)
    if cluster_offset > 0:
        sector_list = sector_list[cluster_offset:]
    result = RolandFile(
        self.parent_stream,
        sector_list
    )
    return result


failures = 0
checks = 0
_DEFAULT = object()


def describe(func, table, index, cluster_offset, read_plan):
    try:
        if cluster_offset is _DEFAULT:
            f = func(table, index)
        else:
            f = func(table, index, cluster_offset)
    except BaseException as e:  # noqa
        return ("exc", type(e).__name__, str(e))
    out = ["ok", type(f).__name__, list(f.sector_list), f.end_of_file,
           f.position, f.buffer_length, f.sector_length, f.true_size,
           f.substream is table.parent_stream]
    for op, arg in read_plan:
        try:
            if op == "seek":
                out.append(("seek", f.seek(arg, 0)))
            else:
                out.append(("read", f.read(arg)))
        except BaseException as e:  # noqa
            out.append(("exc", type(e).__name__, str(e)))
    return out


def compare(label, make_table, index, cluster_offset, read_plan=()):
    global failures, checks
    checks += 1
    a = describe(original_get_file, make_table(), index, cluster_offset,
                 read_plan)
    b = describe(RolandFileAllocationTable.get_file, make_table(), index,
                 cluster_offset, read_plan)
    if a != b:
        failures += 1
        print("MISMATCH", label, index, cluster_offset, a[:4], b[:4])
    return a


rng = random.Random(2026)

# (1) random tables with real data behind them
for trial in range(40):
    n = rng.randint(4, 40)
    data = bytes(rng.getrandbits(8) for _ in range(256)) * ((n * CL) // 256 + 1)
    data = data[:n * CL - rng.choice((0, 0, 1, CL // 2))]
    links = [SectorLink()] * n
    order = list(range(n))
    rng.shuffle(order)
    pos = 0
    starts = []
    while pos < n:
        length = rng.randint(1, 7)
        chain = order[pos:pos + length]
        pos += length
        add_to_sector_links(chain, links)
        starts.append((chain[0], len(chain)))

    def make_table(data=data, links=links, n=n):
        return RolandFileAllocationTable(io.BytesIO(data), n, list(links))

    for start, length in starts:
        for off in list(range(-3, length + 4)) + [True, False, _DEFAULT]:
            kept = length - off if (off is not _DEFAULT and off > 0) else length
            kept = max(kept, 0)
            plan = [("read", 10), ("seek", max(0, kept * CL - 6)),
                    ("read", 100), ("seek", CL - 3), ("read", 8),
                    ("seek", 0), ("read", -1)]
            compare("random", make_table, start, off, plan)
    # a start in the middle of a chain and an out-of-table start
    compare("mid", make_table, order[1], 1, [("read", 4)])
    compare("beyond", make_table, n, 0)
    compare("beyond", make_table, n + 5, 2)
    compare("negative-index", make_table, -1, 1, [("read", 4)])


# (2) broken tables and odd offsets
def looping_table():
    links = [SectorLink(next=1, end=False), SectorLink(next=2, end=False),
             SectorLink(next=0, end=False)]
    return RolandFileAllocationTable(io.BytesIO(bytes(3 * CL)), 3, links)


def small_table():
    links = [SectorLink()] * 6
    add_to_sector_links([4, 2, 5, 1], links)
    return RolandFileAllocationTable(io.BytesIO(bytes(range(256)) * 216), 6,
                                     links)


def empty_table():
    return RolandFileAllocationTable(io.BytesIO(b""))


for off in (0, 1, 5, -1):
    compare("loop", looping_table, 0, off)
    compare("empty", empty_table, 0, off)
for off in (None, "1", 1.0, 0.0, -2.5, float("nan"), 10 ** 30, -10 ** 30,
            [1], (), b"", 2 ** 63):
    compare("odd-offset", small_table, 4, off, [("read", 5)])
for idx in (None, "4", 4.0, 2 ** 70):
    compare("odd-index", small_table, idx, 1, [("read", 5)])


# (3) order of accesses on the table object
class TracingTable(RolandFileAllocationTable):
    def __init__(self, *a, **k):
        object.__setattr__(self, "trace", [])
        super().__init__(*a, **k)

    def __getattribute__(self, name):
        if name in ("parent_stream", "get_path", "sector_links", "size"):
            object.__getattribute__(self, "trace").append(name)
        return object.__getattribute__(self, name)


def traced(func, index, off):
    links = [SectorLink()] * 6
    add_to_sector_links([4, 2, 5, 1], links)
    t = TracingTable(io.BytesIO(bytes(6 * CL)), 6, links)
    t.trace.clear()
    try:
        f = func(t, index, off)
        res = list(f.sector_list)
    except BaseException as e:  # noqa
        res = type(e).__name__
    return res, list(t.trace)


for index in (4, 2, 0, 6, 99):
    for off in (0, 1, 2, 9, -1, None):
        checks += 1
        a = traced(original_get_file, index, off)
        b = traced(RolandFileAllocationTable.get_file, index, off)
        if a != b:
            failures += 1
            print("MISMATCH trace", index, off, a, b)

# (4) precomputed expectations
t = small_table()
expected = {
    (4, 0): [4, 2, 5, 1], (4, 1): [2, 5, 1], (4, 3): [1], (4, 4): [],
    (4, 9): [], (4, -1): [4, 2, 5, 1], (2, 1): [5, 1], (0, 0): [0],
}
for (idx, off), want in expected.items():
    checks += 1
    f = t.get_file(idx, off)
    if f.sector_list != want or f.end_of_file != CL * len(want) \
            or not isinstance(f, RolandFile):
        failures += 1
        print("MISMATCH precomputed", idx, off, f.sector_list)
checks += 1
f = t.get_file(4, cluster_offset=2)
f.seek(0, 0)
if f.read(4) != (bytes(range(256)) * 216)[5 * CL:5 * CL + 4]:
    failures += 1
    print("MISMATCH precomputed read")

print(f"{checks} checks, {failures} failures")
sys.exit(1 if failures else 0)
