"""Equivalence demo for the _c_process split (iir.pyx): the restore prologue and
the save epilogue of the generic IIR kernel moved into two private cdef
helpers (_c_open_windows / _c_save_windows).

iir.pyx ships pre-built and Cython is not installed, so the edited text has
no runtime effect on the compiled module.  To still exercise the *edited
text*, every module-level function of smpl_extract/filters/iir.pyx is cut out
and mechanically rewritten into plain Python (cdef declarations ->
assignments, casts and typed-memoryview annotations dropped, `&x` -> `x`,
struct -> small object, malloc -> poisoned list so that a slot left
unwritten is noticed).  This is done twice: once with an inline copy of the
ORIGINAL _c_process in place of the one in the file, once with the file as it
is now.  The circular-buffer helpers are wrapped so that every call
(init / push / inner product / fill / free, with sizes and values) is logged.
Compared are (ORIGINAL text vs CURRENT text vs the compiled module)

  * _c_process called directly: outputs written to y, state written back to
    x_prev / y_prev, exception type, and (between the two texts) the complete
    log of buffer operations, i.e. the same windows are built from the same
    arrays in the same order, the same values are pushed, the state is saved
    in the same order and every malloc'ed block is freed exactly once - also
    on the failing paths (k_gain == 0, state/coefficients size mismatch,
    len(x) != len(y), empty A or B),
  * IirFilter streams: every composition of short signals, random splits of
    long/extreme signals, random coefficients of order 0..4, state after each
    block, reset in the middle, flush and reuse,
  * the ChickenSys kernel (untouched by the edit) still agrees as well.

Exit 0 when everything agrees, 1 otherwise.
"""
import itertools
import math
import os
import random
import re
import sys
import warnings

import numpy as np

import smpl_extract.filters.iir as compiled

warnings.simplefilter("ignore")

PYX = os.path.join(os.path.dirname(os.path.abspath(compiled.__file__)), "iir.pyx")

ORIGINAL_C_PROCESS = '''\
@cython.boundscheck(False)
@cython.wraparound(False)
@cython.cdivision(True)
def _c_process(
        double[:] x,
        double[:] y,
        double[:] B,
        double[:] A,
        double[:] x_prev,
        double[:] y_prev
):

    cdef size_t num_x = x.shape[0]
    cdef size_t num_y = y.shape[0]
    cdef size_t num_A = A.shape[0]
    cdef size_t num_B = B.shape[0]
    cdef size_t num_x_prev = x_prev.shape[0]
    cdef size_t num_y_prev = y_prev.shape[0]

    assert num_A > 0
    assert num_B > 0
    assert num_x == num_y

    # x_window
    cdef size_t num_x_window = num_x_prev + 1
    cdef s_double_cbuffer x_window
    init_double_cbuffer(&x_window, x_prev, num_x_window)

    # y_window
    cdef size_t num_y_window = num_y_prev
    cdef s_double_cbuffer y_window
    init_double_cbuffer(&y_window, y_prev, num_y_window)

    cdef double[:] A_true = A[1:]
    cdef double k_gain = A[0]
    cdef size_t A_true_size = A_true.shape[0]

    cdef double y_cur = 0.0
    cdef size_t i = 0

    try:
        assert k_gain != 0.0
        assert x_window.N == B.shape[0]
        assert y_window.N == A_true.shape[0]

        # perform iterations
        for i in range(num_x):
            push_double_cbuffer(&x_window, x[i])
            y_cur = inner_prod_double_cbuffer(&x_window, B) \\
                - inner_prod_double_cbuffer(&y_window, A_true)
            y_cur /= k_gain

            push_double_cbuffer(&y_window, y_cur)
            y[i] = y_cur

        # save state
        fill_arr_double_cbuffer(&x_window, x_prev)
        fill_arr_double_cbuffer(&y_window, y_prev)

    finally:
        # free mem
        free_double_cbuffer(&x_window)
        free_double_cbuffer(&y_window)
'''

# ------------------------------------------------------- Cython -> Python
POISON = "uninitialised"


class Mem(list):
    """malloc'ed block: never NULL, every slot poisoned until written"""

    def __bool__(self):
        return True

    def __eq__(self, other):
        return other is self

    __hash__ = None


class Struct:
    def __init__(self):
        self.arr = None
        self.N = None
        self.cur_pos = None


def _malloc(n_bytes):
    assert n_bytes % 8 == 0 and n_bytes >= 0
    return Mem([POISON] * (n_bytes // 8))


def _free(block):
    assert isinstance(block, Mem)


_CTYPE = r"(?:size_t|double|short|int)"


def _join_parens(lines):
    """join physical lines that are continued inside parentheses"""
    out, buf, depth = [], "", 0
    for line in lines:
        code = line.split("#", 1)[0] if "#" in line else line
        buf = (buf + " " + line.strip()) if buf else line.rstrip("\n")
        depth += code.count("(") - code.count(")")
        if depth <= 0:
            out.append(buf)
            buf, depth = "", 0
    if buf:
        out.append(buf)
    return out


def cy2py(text):
    lines = []
    for line in _join_parens(text.splitlines()):
        if line.strip().startswith("@cython"):
            continue
        # function headers
        m = re.match(r"^(?:cdef\s+(?:void|double|short)|def)\s+(\w+)\s*\((.*)\)\s*:\s*$", line)
        if m:
            params = []
            for p in m.group(2).split(","):
                p = p.strip()
                if p:
                    params.append(re.split(r"[\s\*]+", p)[-1])
            lines.append("def %s(%s):" % (m.group(1), ", ".join(params)))
            continue
        # declarations
        m = re.match(r"^(\s*)cdef\s+s_double_cbuffer\s+(\w+)\s*$", line)
        if m:
            lines.append("%s%s = Struct()" % m.groups())
            continue
        m = re.match(r"^(\s*)cdef\s+%s(?:\[:\])?\s*\*?\s*(\w+)\s*=\s*(.*)$" % _CTYPE, line)
        if m:
            line = "%s%s = %s" % m.groups()
        elif re.match(r"^\s*cdef\s+%s\s*\*?\s*\w+\s*$" % _CTYPE, line):
            line = re.match(r"^(\s*)", line).group(1) + "pass"
        # casts, address-of, sizeof
        line = re.sub(r"<\s*(?:double|short|int)\s*\*?\s*>\s*", "", line)
        line = re.sub(r"&(\w+)", r"\1", line)
        line = line.replace("sizeof(double)", "8")
        lines.append(line)
    return "\n".join(lines) + "\n"


def _cut_function(all_lines, name):
    start = next(i for i, l in enumerate(all_lines)
                 if re.match(r"^(?:cdef\s+\w+|def)\s+%s\s*\(" % name, l))
    end = len(all_lines)
    for j in range(start + 1, len(all_lines)):
        l = all_lines[j]
        if l.strip() and not l[0].isspace() and not l.lstrip().startswith(")"):
            end = j
            break
    return "".join(all_lines[start:end])


_FUNC_HEAD = re.compile(r"^(?:cdef\s+(?:void|double|short)|def)\s+(\w+)\s*\(")


def function_names(all_lines):
    return [m.group(1) for m in (_FUNC_HEAD.match(l) for l in all_lines) if m]


LOGGED = ["init_double_cbuffer", "free_double_cbuffer", "push_double_cbuffer",
          "inner_prod_double_cbuffer", "fill_arr_double_cbuffer"]


def build_namespace(c_process_text=None):
    with open(PYX, "r", encoding="utf-8") as fh:
        all_lines = fh.readlines()
    ns = {"np": np, "Struct": Struct, "malloc": _malloc, "free": _free, "NULL": None,
          "trunc": lambda v: int(math.trunc(v)), "LOG": [], "KEEP": []}
    names = function_names(all_lines)
    ns["__names__"] = names
    for name in names:
        text = _cut_function(all_lines, name)
        if name == "_c_process" and c_process_text is not None:
            text = c_process_text
        src = cy2py(text)
        if name == "_c_process":
            ns["__c_process_source__"] = src
        exec(compile(src, "%s:%s" % (PYX, name), "exec"), ns)

    def logged(name, fn):
        def wrapper(cbuffer, *args):
            entry = [name, id(cbuffer)]
            ns["KEEP"].append(cbuffer)          # keep everything alive: ids / addresses are never reused
            for a in args:
                if isinstance(a, (int, float)):
                    entry.append(repr(a))
                else:                       # an array / memoryview: identity of its memory and content
                    a = np.asarray(a)
                    ns["KEEP"].append(a)
                    entry.append((a.__array_interface__["data"][0], a.shape, a.strides, a.tobytes()))
            ns["LOG"].append(entry)
            result = fn(cbuffer, *args)
            if name == "init_double_cbuffer":
                entry.append(id(cbuffer.arr))
                ns["KEEP"].append(cbuffer.arr)
            if name == "free_double_cbuffer":
                entry.append(id(cbuffer.arr))
            if result is not None:
                entry.append(repr(float(result)))
            return result
        return wrapper

    for name in LOGGED:
        ns[name] = logged(name, ns[name])
    return ns


ORIG = build_namespace(ORIGINAL_C_PROCESS)    # original _c_process, everything else from the file
TEXT = build_namespace()                      # the file as it is now


def normalised_log(ns):
    """log with object identities replaced by first-seen numbers"""
    seen = {}

    def num(v):
        return seen.setdefault(v, len(seen))

    out = []
    for e in ns["LOG"]:
        row = [e[0], num(("struct", e[1]))]
        for v in e[2:]:
            if isinstance(v, tuple):
                row.append((num(("mem", v[0])),) + v[1:])
            elif isinstance(v, int):
                row.append(num(("block", v)))
            else:
                row.append(v)
        out.append(row)
    return out


def make_classes(ns):
    class Iir:
        def __init__(self, B, A):
            self.B = B
            self.A = A
            self.n_x_prev = max(0, len(B) - 1)
            self.n_y_prev = max(0, len(A) - 1)
            self.reset_state()

        def reset_state(self, **kwargs):
            x_prev = kwargs.get("x_prev", None)
            y_prev = kwargs.get("y_prev", None)
            x_prev = x_prev or np.zeros(self.n_x_prev, dtype=np.float64)
            y_prev = y_prev or np.zeros(self.n_y_prev, dtype=np.float64)
            self.x_prev = x_prev.astype(np.float64)
            self.y_prev = y_prev.astype(np.float64)

        def process(self, x):
            x = x.astype(dtype=np.float64)
            y = np.zeros((x.size,)).astype(np.float64)
            ns["_c_process"](x, y, self.B, self.A, self.x_prev, self.y_prev)
            return y

        def get_remaining(self):
            y = np.zeros((0,), dtype=np.float64)
            self.reset_state()
            return y

    class Chick(Iir):
        def __init__(self, coeffs):
            B = np.asarray([coeffs[0], coeffs[1]])
            A = np.asarray([1.0, -coeffs[2]])
            super().__init__(B, A)

        def process(self, x):
            y = np.zeros((x.size,)).astype(np.int16)
            ns["_c_chickensys_process"](x, y, self.B, self.A, self.x_prev, self.y_prev)
            y = y.astype(np.int16)
            return y

    return Iir, Chick


OrigIir, OrigChick = make_classes(ORIG)
TextIir, TextChick = make_classes(TEXT)

FAILS = []
CHECKS = [0]


def expect(label, ok, *info):
    CHECKS[0] += 1
    if not ok:
        FAILS.append((label,) + info)


def same_arr(a, b):
    return (isinstance(a, np.ndarray) and isinstance(b, np.ndarray) and a.dtype == b.dtype
            and a.shape == b.shape and a.tobytes() == b.tobytes())


def same_list(a, b):
    return len(a) == len(b) and all(same_arr(p, q) for p, q in zip(a, b))


def outcome(fn):
    try:
        return ("ok", fn())
    except BaseException as e:  # noqa
        return ("exc", type(e).__name__)


def same_outcome(a, b, cmp=same_arr):
    if a[0] != b[0]:
        return False
    if a[0] == "exc":
        return a[1] == b[1]
    return cmp(a[1], b[1])


def fstate(f):
    return (f.x_prev.tobytes(), f.y_prev.tobytes(), f.x_prev.dtype, f.y_prev.dtype,
            f.x_prev.shape, f.y_prev.shape)


rng = random.Random(1915)
nrng = np.random.default_rng(1915)


def canonical(buf):
    a = np.frombuffer(buf, dtype=np.float64).copy()
    a[np.isnan(a)] = np.nan
    return a.tobytes()


def direct(label, x, y, B, A, x_prev, y_prev, with_compiled=True):
    """call the three kernels on private copies of the six arrays"""
    results = []
    impls = [ORIG["_c_process"], TEXT["_c_process"]] + ([compiled._c_process] if with_compiled else [])
    for ns in (ORIG, TEXT):
        del ns["LOG"][:]
        del ns["KEEP"][:]
    for fn in impls:
        args = [np.array(a, dtype=np.float64) for a in (x, y, B, A, x_prev, y_prev)]
        o = outcome(lambda: fn(*args))
        results.append((o[0], o[1] if o[0] == "exc" else repr(o[1]), [a.tobytes() for a in args]))
    expect(label, results[0] == results[1], label, B, A, results[:2])          # the two texts: bit for bit
    if with_compiled:
        # the C compiler is free to pick another sign/payload for a NaN result: NaNs are canonicalised
        canon = [(r[0], r[1], [canonical(b) for b in r[2]]) for r in (results[0], results[2])]
        expect(label + " vs compiled", canon[0] == canon[1], label, B, A, canon)
    lo, lt = normalised_log(ORIG), normalised_log(TEXT)
    expect(label + " log", lo == lt, lo[:6], lt[:6])
    inits = [e for e in lt if e[0] == "init_double_cbuffer"]
    frees = [e for e in lt if e[0] == "free_double_cbuffer"]
    expect(label + " alloc/free", sorted(e[-1] for e in inits) == sorted(e[-1] for e in frees)
           and len(set(e[-1] for e in frees)) == len(frees), inits, frees)
    return results[0]


def splits(n):
    if n == 0:
        yield []
        return
    if n <= 8:
        for bits in itertools.product([0, 1], repeat=n - 1):
            yield [i + 1 for i, b in enumerate(bits) if b] + [n]
    else:
        yield [n]
        yield list(range(1, n + 1))
        for _ in range(4):
            k = rng.randint(0, min(n - 1, 10))
            yield sorted(rng.sample(range(1, n), k)) + [n]


def run_stream(f, x, cuts, reset_at=None):
    out, states = [], []
    lo = 0
    for j, hi in enumerate(cuts):
        if reset_at is not None and j == reset_at:
            f.reset_state()
        out.append(f.process(x[lo:hi]))
        states.append(fstate(f))
        lo = hi
    out.append(f.get_remaining())
    states.append(fstate(f))
    return out, states


def same_trace(a, b):
    return same_list(a[0], b[0]) and a[1] == b[1]


def main():
    # 0. the rewriting picked up what we think
    expect("orig translated", "init_double_cbuffer(x_window, x_prev, num_x_window)" in ORIG["__c_process_source__"]
           and "fill_arr_double_cbuffer(y_window, y_prev)" in ORIG["__c_process_source__"],
           ORIG["__c_process_source__"])
    expect("text translated", "def _c_process(x, y, B, A, x_prev, y_prev):" in TEXT["__c_process_source__"]
           and "cdef" not in TEXT["__c_process_source__"] and "&" not in TEXT["__c_process_source__"])
    need = {"init_double_cbuffer", "free_double_cbuffer", "push_double_cbuffer", "inner_prod_double_cbuffer",
            "fill_arr_double_cbuffer", "_c_process", "_c_fix_int", "_c_bound", "_c_chickensys_process"}
    expect("functions found", need <= set(TEXT["__names__"]), TEXT["__names__"])

    # 1. the kernel called directly
    specials = [0.0, -0.0, 1.0, -1.5, 1e308, -1e308, 5e-324, float("inf"), float("-inf"),
                float("nan"), 32767.0, -32768.0]
    n_direct = 0
    for nb in range(1, 6):
        for na in range(2, 6):
            for n in (0, 1, 2, 3, 7, 20):
                for variant in range(3):
                    B = nrng.uniform(-1, 1, nb)
                    A = np.concatenate([[rng.choice([1.0, 2.0, -0.5, 1e-3])], nrng.uniform(-0.4, 0.4, na - 1)])
                    if variant == 0:
                        x = nrng.uniform(-1e4, 1e4, n)
                        xp, yp = np.zeros(nb - 1), np.zeros(na - 1)
                    elif variant == 1:
                        x = nrng.integers(-32768, 32768, n).astype(np.float64)
                        xp, yp = nrng.uniform(-5, 5, nb - 1), nrng.uniform(-5, 5, na - 1)
                    else:
                        x = np.asarray([rng.choice(specials) for _ in range(n)], dtype=np.float64)
                        xp = np.asarray([rng.choice(specials) for _ in range(nb - 1)], dtype=np.float64)
                        yp = np.asarray([rng.choice(specials) for _ in range(na - 1)], dtype=np.float64)
                    y = nrng.uniform(-1, 1, n)       # garbage that must be overwritten
                    r = direct("direct", x, y, B, A, xp, yp)
                    expect("direct ok", r[0] == "ok" and r[1] == "None", r[:2])
                    n_direct += 1
    # failing paths; every one of them must leave x_prev / y_prev / y alone and free both windows
    x4, y4 = np.arange(1.0, 5.0), np.full(4, 9.0)
    bad = [
        ("k_gain == 0", x4, y4, [1.0, 2.0], [0.0, 0.5], [3.0], [4.0]),
        ("k_gain == -0", x4, y4, [1.0, 2.0], [-0.0, 0.5], [3.0], [4.0]),
        ("x_prev too short", x4, y4, [1.0, 2.0, 3.0], [1.0, 0.5], [3.0], [4.0]),
        ("x_prev too long", x4, y4, [1.0, 2.0], [1.0, 0.5], [3.0, 1.0, 2.0], [4.0]),
        ("x_prev as long as B", x4, y4, [1.0, 2.0], [1.0, 0.5], [3.0, 1.0], [4.0]),
        ("y_prev too short", x4, y4, [1.0, 2.0], [1.0, 0.5, 0.25], [3.0], [4.0]),
        ("y_prev too long", x4, y4, [1.0, 2.0], [1.0, 0.5], [3.0], [4.0, 5.0]),
        ("y_prev empty", x4, y4, [1.0, 2.0], [1.0, 0.5], [3.0], []),
        ("both wrong", x4, y4, [1.0, 2.0], [1.0, 0.5], [], []),
        ("len(x) < len(y)", x4[:3], y4, [1.0, 2.0], [1.0, 0.5], [3.0], [4.0]),
        ("len(x) > len(y)", x4, y4[:3], [1.0, 2.0], [1.0, 0.5], [3.0], [4.0]),
        ("no A", x4, y4, [1.0, 2.0], [], [3.0], []),
        ("no B", x4, y4, [], [1.0, 0.5], [], [4.0]),
        ("no A no B", x4, y4, [], [], [], []),
        ("nan gain", x4, y4, [1.0, 2.0], [float("nan"), 0.5], [3.0], [4.0]),
        ("inf gain", x4, y4, [1.0, 2.0], [float("inf"), 0.5], [3.0], [4.0]),
    ]
    for label, x, y, B, A, xp, yp in bad:
        r = direct(label, x, y, B, A, xp, yp)
        if r[0] == "exc":
            expect(label + " is AssertionError", r[1] == "AssertionError", r[:2])
            want = [np.array(a, dtype=np.float64).tobytes() for a in (x, y, B, A, xp, yp)]
            expect(label + " nothing written", r[2] == want)
    # wrong argument types are rejected by the typed signature before anything runs (compiled only knows this;
    # the two texts share the untouched signature)
    expect("signature", re.search(r"def _c_process\(\s*double\[:\] x,\s*double\[:\] y,\s*double\[:\] B,"
                                  r"\s*double\[:\] A,\s*double\[:\] x_prev,\s*double\[:\] y_prev\s*\):",
                                  open(PYX).read()) is not None)
    # first-order-less filters (len(A) == 1) push into an empty y window: out of bounds in the compiled
    # module before and after the edit, so only the two texts are compared
    direct("empty y window", x4, y4, [1.0, 2.0], [1.0], [3.0], [], with_compiled=False)
    direct("empty y window, no input", x4[:0], y4[:0], [1.0, 2.0], [1.0], [3.0], [], with_compiled=False)

    # 2. IirFilter streams
    coeff_sets = [(np.asarray([1.0]), np.asarray([1.0, 0.0])),
                  (np.asarray([0.5, 0.5]), np.asarray([1.0, 0.0])),
                  (np.asarray([1.0]), np.asarray([1.0, -0.5])),
                  (np.asarray([0.5923, 0.1516]), np.asarray([1.0, -0.2560])),
                  (np.asarray([0.2, 0.3, 0.1]), np.asarray([2.0, -0.4, 0.25, 0.1]))]
    for _ in range(6):
        coeff_sets.append((nrng.uniform(-1, 1, rng.randint(1, 5)),
                           np.concatenate([[rng.choice([1.0, 2.0, -0.5])],
                                           nrng.uniform(-0.4, 0.4, rng.randint(1, 4))])))
    sigs = [nrng.integers(-32768, 32768, n).astype(np.int16) for n in range(0, 9)]
    sigs += [np.asarray([32767] * 12, dtype=np.int16), np.asarray([-32768, 32767] * 8, dtype=np.int16)]
    sigs += [nrng.integers(-32768, 32768, rng.randint(9, 60)).astype(np.int16) for _ in range(4)]
    sigs += [nrng.uniform(-1, 1, 25)]
    n_streams = 0
    for B, A in coeff_sets:
        for x in sigs:
            for cuts in splits(len(x)):
                reset_at = rng.choice([None, None, None, rng.randrange(len(cuts))]) if cuts else None
                fs = [OrigIir(B, A), TextIir(B, A), compiled.IirFilter(B, A)]
                for ns in (ORIG, TEXT):
                    del ns["LOG"][:]
                    del ns["KEEP"][:]
                outs = [outcome(lambda f=f: run_stream(f, x, cuts, reset_at)) for f in fs]
                expect("iir stream", same_outcome(outs[0], outs[1], same_trace)
                       and same_outcome(outs[0], outs[2], same_trace), B, A, cuts)
                expect("iir stream log", normalised_log(ORIG) == normalised_log(TEXT))
                n_streams += 1
                if n_streams % 9 == 0:      # reuse after the flush
                    z = nrng.integers(-32768, 32768, 11).astype(np.int16)
                    outs = [outcome(lambda f=f: run_stream(f, z, [2, 3, 11])) for f in fs]
                    expect("iir reuse", same_outcome(outs[0], outs[1], same_trace)
                           and same_outcome(outs[0], outs[2], same_trace))
    # invalid filters through the class
    for B, A in [(np.asarray([1.0, 2.0]), np.asarray([0.0, 1.0])),
                 (np.asarray([]), np.asarray([1.0, 0.5])),
                 (np.asarray([1.0]), np.asarray([]))]:
        fs = [outcome(lambda c=c: c(B, A)) for c in (OrigIir, TextIir, compiled.IirFilter)]
        expect("bad ctor", fs[0][0] == fs[1][0] == fs[2][0])
        if fs[0][0] != "ok":
            continue
        fs = [f[1] for f in fs]
        x = np.asarray([1, 2, 3], dtype=np.int16)
        outs = [outcome(lambda f=f: f.process(x)) for f in fs]
        expect("bad process", same_outcome(outs[0], outs[1]) and same_outcome(outs[0], outs[2]), outs)
        expect("bad state", fstate(fs[0]) == fstate(fs[1]) == fstate(fs[2]))

    # 3. the ChickenSys kernel next to it is untouched and still agrees
    for coeffs in [(0.5923, 0.1516, 0.2560), (0.7071, 0.1213, 0.1716), (1.5, 1.5, 0.9)]:
        for x in sigs[:-1]:
            for cuts in list(splits(len(x)))[:40]:
                fs = [OrigChick(coeffs), TextChick(coeffs), compiled.ChickSysCustomIirFilter(coeffs)]
                outs = [outcome(lambda f=f: run_stream(f, x, cuts)) for f in fs]
                expect("chick stream", same_outcome(outs[0], outs[1], same_trace)
                       and same_outcome(outs[0], outs[2], same_trace), coeffs, cuts)

    print("direct calls: %d, streams: %d, checks: %d, failures: %d"
          % (n_direct, n_streams, CHECKS[0], len(FAILS)))
    for f in FAILS[:10]:
        print("FAIL", f)
    return 1 if FAILS else 0


if __name__ == "__main__":
    sys.exit(main())
