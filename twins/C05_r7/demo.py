"""Equivalence demo for r7: generalized.sample.combine_stereo (constant
overrides passed to the constructor, explicit copy loop) versus an inline
copy of the ORIGINAL implementation.  Exit 0 when all inputs agree.
"""
import copy
import random
import sys
from dataclasses import dataclass
from dataclasses import fields

from smpl_extract.generalized.sample import ChannelConfig
from smpl_extract.generalized.sample import combine_stereo
from smpl_extract.generalized.sample import LoopRegion
from smpl_extract.generalized.sample import LoopType
from smpl_extract.generalized.sample import Sample
from smpl_extract.midi import MidiNote


def original_combine_stereo(left, right, new_name=None):
    dict_copy = dict(
        (field.name, copy.copy(getattr(left, field.name)))
        for field in fields(left)
    )
    result = Sample(**dict_copy)
    result.data_streams += right.data_streams
    result.channel_config = ChannelConfig.STEREO_SPLIT_STREAMS
    result.num_channels = len(result.data_streams)
    if new_name is not None:
        result._export_name = new_name

    return result


class Marker:
    def __init__(self, tag):
        self.tag = tag


@dataclass
class ExtraSample(Sample):
    extra: int = 3


@dataclass
class Partial:
    name: str = "p"
    data_streams: list = None
    loop_regions: list = None


class NotADataclass:
    data_streams = []


def make_note(rng):
    try:
        return MidiNote(rng.randint(0, 127))
    except Exception:
        return None


def make_sample(rng, tag, streams_kind):
    n_streams = rng.choice([0, 1, 1, 1, 2, 3])
    streams = [Marker((tag, i)) for i in range(n_streams)]
    if streams_kind == "tuple":
        streams = tuple(streams)
    loops = [LoopRegion(rng.randint(0, 9), rng.randint(10, 99), rng.choice(list(LoopType)))
             for _ in range(rng.choice([0, 0, 1, 2]))]
    return Sample(
        name=rng.choice(["A-L", "A-R", "", "x y", "PIANO L"]),
        channel_config=rng.choice(list(ChannelConfig)),
        sample_rate=rng.choice([0, 22050, 44100, 48000]),
        num_channels=rng.choice([0, 1, 2, 7]),
        num_audio_samples=rng.choice([None, 0, 1, 12345]),
        data_streams=streams,
        loop_regions=loops,
        midi_note=rng.choice([None, make_note(rng)]),
        pitch_offset_semi=rng.choice([None, -3, 0, 5]),
        pitch_offset_cents=rng.choice([None, -50, 0, 49]),
        _parent=rng.choice([None, Marker("parent")]),
        _path=rng.choice([[], ["img"], ["img", "vol", "s"]]),
        _safe_name=rng.choice([None, "safe"]),
        _export_name=rng.choice([None, "", "exp-L"]),
    )


def snapshot(obj):
    if not hasattr(obj, "__dataclass_fields__"):
        return repr(type(obj))
    out = []
    for f in fields(obj):
        v = getattr(obj, f.name)
        if isinstance(v, (list, tuple)):
            out.append((f.name, type(v).__name__, id(v), tuple(id(x) for x in v)))
        else:
            out.append((f.name, type(v).__name__, id(v), repr(v) if not isinstance(v, Marker) else None))
    return out


def describe(result, left, right):
    if not isinstance(result, Sample):
        return ("not-sample", repr(result))
    d = []
    for f in fields(result):
        v = getattr(result, f.name)
        lv = getattr(left, f.name, "<missing>")
        if isinstance(v, (list, tuple)):
            d.append((f.name, type(v).__name__, tuple(id(x) for x in v),
                      v is lv, v is getattr(right, f.name, None)))
        else:
            # a Marker is shallow-copied by copy.copy, so compare its tag, not its id
            d.append((f.name, type(v).__name__, v is lv, repr(v) if not isinstance(v, Marker) else v.tag))
    d.append(("type", type(result).__name__, result.export_name, result.safe_name))
    extra = sorted(k for k in vars(result) if k not in {f.name for f in fields(result)})
    d.append(("extra_attrs", extra))
    return d


def run(fn, left, right, args, kwargs):
    before = (snapshot(left), snapshot(right))
    try:
        res = fn(left, right, *args, **kwargs)
        outcome = ("ok", describe(res, left, right))
    except Exception as e:
        outcome = ("exc", type(e).__name__, str(e))
    after = (snapshot(left), snapshot(right))
    return outcome, before == after


def main():
    rng = random.Random(7)
    cases = []
    name_args = [((), {}), ((None,), {}), (("",), {}), (("STEM",), {}), ((), {"new_name": "kw"}),
                 ((), {"new_name": None}), ((0,), {}), ((["odd"],), {})]
    for i in range(1500):
        kind_l = rng.choice(["list"] * 6 + ["tuple"])
        kind_r = rng.choice(["list"] * 6 + ["tuple"])
        left = make_sample(rng, "L%d" % i, kind_l)
        right = make_sample(rng, "R%d" % i, kind_r)
        if rng.random() < 0.05:
            right = left                      # same object on both sides
        args, kwargs = rng.choice(name_args)
        cases.append((left, right, args, kwargs))
    # ill-typed inputs: the same exception must come out
    good = make_sample(rng, "g", "list")
    cases.append((good, NotADataclass(), ("n",), {}))
    cases.append((good, object(), ("n",), {}))
    cases.append((NotADataclass(), good, ("n",), {}))
    cases.append((ExtraSample(name="e", data_streams=[Marker("e")]), good, ("n",), {}))
    cases.append((ExtraSample(name="e", data_streams=[Marker("e")]), object(), (), {}))
    cases.append((Partial(data_streams=[Marker("p")], loop_regions=[]), good, ("n",), {}))
    cases.append((Partial(data_streams=[Marker("p")], loop_regions=[]), good, (), {}))
    cases.append((Partial(data_streams=None, loop_regions=[]), good, (), {}))
    cases.append((good, Sample(data_streams=None), (), {}))
    cases.append((good, Sample(data_streams=5), ("q",), {}))

    bad = 0
    outcomes = {"ok": 0, "exc": 0}
    for left, right, args, kwargs in cases:
        got = run(combine_stereo, left, right, args, kwargs)
        exp = run(original_combine_stereo, left, right, args, kwargs)
        outcomes[got[0][0]] += 1
        if got != exp or not got[1]:
            bad += 1
            if bad < 4:
                print("MISMATCH", args, kwargs, "\n got", got, "\n exp", exp)

    # fixed expectation so the demo is not vacuous
    l = Sample(name="K-L", data_streams=[Marker("l")], _export_name="K-L")
    r = Sample(name="K-R", data_streams=[Marker("r")], _export_name="K-R")
    s = combine_stereo(l, r, "K")
    if [d.tag for d in s.data_streams] != ["l", "r"] or s.num_channels != 2 \
            or s.channel_config is not ChannelConfig.STEREO_SPLIT_STREAMS \
            or s.export_name != "K" or s.name != "K-L" or len(l.data_streams) != 1:
        print("SANITY FAILED")
        bad += 1
    print("cases:", len(cases), outcomes, "mismatches:", bad)
    return 1 if bad else 0


if __name__ == "__main__":
    sys.exit(main())
