"""Equivalence demo for r7 (MdfStream._get_address_given_sector_index).

The ORIGINAL method body is pasted into a subclass overriding only that
method.  Identical seek/tell/read histories are run through both, comparing
results, exceptions, state and the exact call sequence on the raw image; a
byte-level model of the 2048-of-2352 user-data view is checked as well.
Exit 0 = all agree, 1 = mismatch.
"""
import random
import sys
from io import BytesIO, SEEK_CUR, SEEK_END, SEEK_SET

from smpl_extract.alcohol.mdf import MDF_SECTOR_HEADER_SIZE
from smpl_extract.alcohol.mdf import MDF_SECTOR_SIZE
from smpl_extract.alcohol.mdf import MdfStream
from smpl_extract.util.stream import StreamOffset

RAW, HEAD, BODY, FOOT = 2352, 16, 2048, 288


class OrigMdfStream(MdfStream):
    def _get_address_given_sector_index(
            self,
            sector_index: int,
            offset: int
        ):
        sector_address  = sector_index * MDF_SECTOR_SIZE

        mdf_address = sector_address + MDF_SECTOR_HEADER_SIZE + offset
        return mdf_address


class Recorder(BytesIO):
    def __init__(self, data):
        super().__init__(data)
        self.log = []

    def seek(self, *a):
        r = super().seek(*a)
        self.log.append(("seek", a, r))
        return r

    def tell(self):
        r = super().tell()
        self.log.append(("tell", r))
        return r

    def read(self, *a):
        r = super().read(*a)
        self.log.append(("read", a, len(r), r[:8], r[-8:]))
        return r


def call(fn, *a, **k):
    try:
        return ("ok", fn(*a, **k))
    except Exception as e:  # noqa: BLE001
        return ("exc", type(e).__name__, str(e))


def state(s):
    return (s.position, s.end_of_file, s.true_size, s.sector_length)


failures = 0


def check(label, a, b):
    global failures
    if a != b:
        failures += 1
        if failures <= 10:
            print("MISMATCH", label, repr(a)[:200], repr(b)[:200])


def make_image(rng, num_sectors, tail=0):
    raw = bytearray()
    bodies = bytearray()
    for i in range(num_sectors):
        body = bytes(rng.randrange(256) for _ in range(BODY))
        raw += b"\x00" + b"\xff" * 10 + b"\x00" + i.to_bytes(3, "big") + b"\x01"
        raw += body
        raw += bytes([0xEE]) * FOOT
        bodies += body
    raw += bytes([0xDD]) * tail
    return bytes(raw), bytes(bodies)


def random_ops(rng, size, n):
    ops = []
    interesting = [0, 1, BODY - 1, BODY, BODY + 1, 2 * BODY, 2 * BODY + 1, size - 1, size]
    for _ in range(n):
        k = rng.randrange(6)
        if k == 0:
            ops.append(("tell",))
        elif k == 1:
            ops.append(("seek", rng.choice(interesting) + rng.randint(-2, 2), SEEK_SET))
        elif k == 2:
            ops.append(("seek", rng.randint(-size - 3, size + 3),
                        rng.choice([SEEK_SET, SEEK_CUR, SEEK_END])))
        elif k == 3:
            ops.append(("seek", rng.randint(-BODY - 2, BODY + 2)))
        else:
            ops.append(("read", rng.choice([0, 1, 2, 15, 16, 17, BODY - 1, BODY, BODY + 1,
                                            2 * BODY, 2 * BODY + 7, 3 * BODY, size, size + 9,
                                            rng.randint(0, size + 2)])))
    return ops


def run_history(raw, kwargs, ops, start_at=0):
    ra, rb = Recorder(raw), Recorder(raw)
    BytesIO.seek(ra, start_at)
    BytesIO.seek(rb, start_at)
    a = MdfStream(ra, **kwargs)
    b = OrigMdfStream(rb, **kwargs)
    check("init", state(a), state(b))
    for op in ops:
        name, args = op[0], op[1:]
        xa = call(getattr(a, name), *args)
        xb = call(getattr(b, name), *args)
        check(("op", op), xa, xb)
        check(("state", op), state(a), state(b))
        check(("log", op), ra.log, rb.log)


def main():
    rng = random.Random(0xC087)

    # constants are what the pasted original assumes
    check("consts", (MDF_SECTOR_SIZE, MDF_SECTOR_HEADER_SIZE), (RAW, HEAD))

    # --- direct address comparison on a grid (incl. negative / huge values)
    raw1, _ = make_image(rng, 1)
    a = MdfStream(BytesIO(raw1))
    b = OrigMdfStream(BytesIO(raw1))
    for idx in list(range(-3, 40)) + [2 ** 31, 2 ** 64 + 5]:
        for off in list(range(-2, 20)) + [BODY - 1, BODY, BODY + 1, 2 ** 40]:
            x = a._get_address_given_sector_index(idx, off)
            y = b._get_address_given_sector_index(idx, off)
            check(("addr", idx, off), x, y)
            check(("addr-formula", idx, off), x, idx * RAW + HEAD + off)
            check(("addr-type", idx, off), type(x), int)
    check("addr-kw", a._get_address_given_sector_index(sector_index=3, offset=9),
          b._get_address_given_sector_index(sector_index=3, offset=9))
    for bad in [("x", 1), (1, "x"), (None, 0), (1.5, 2)]:
        check(("addr-bad", bad), call(a._get_address_given_sector_index, *bad),
              call(b._get_address_given_sector_index, *bad))
    # _translate_address (seek path) goes through the same mechanism
    raw3, _ = make_image(rng, 3)
    a = MdfStream(BytesIO(raw3))
    b = OrigMdfStream(BytesIO(raw3))
    for addr in range(-2, 3 * BODY + 3):
        check(("translate", addr), a._translate_address(addr), b._translate_address(addr))

    # --- exhaustive 2-op histories + final read on a 2-sector image
    raw2, bodies2 = make_image(rng, 2)
    small_ops = [("tell",), ("read", 0), ("read", 1), ("read", BODY), ("read", BODY + 1),
                 ("read", 3 * BODY), ("seek", 0, SEEK_SET), ("seek", BODY - 1, SEEK_SET),
                 ("seek", BODY, SEEK_SET), ("seek", 2 * BODY, SEEK_SET), ("seek", -1, SEEK_END),
                 ("seek", 0, SEEK_END), ("seek", -1), ("seek", 1), ("seek", -5, SEEK_SET)]
    for o1 in small_ops:
        for o2 in small_ops:
            for o3 in (("read", 2), ("read", BODY), ("tell",)):
                run_history(raw2, {}, [o1, o2, o3])

    # --- long random histories over images of 1..5 sectors, with ragged tails
    for trial in range(120):
        n = rng.randint(1, 5)
        tail = rng.choice([0, 0, 1, 100, RAW - 1])
        raw, bodies = make_image(rng, n, tail)
        kwargs = {}
        if rng.random() < 0.4:
            kwargs["buffer_length"] = rng.choice([1000, BODY, 0x1000, 5000])
        if rng.random() < 0.3:
            kwargs["position"] = rng.randint(0, n * BODY)
        ops = random_ops(rng, n * BODY, 30)
        if rng.random() < 0.3:
            ops.insert(rng.randrange(len(ops)), ("read", None))
        run_history(raw, kwargs, ops, start_at=rng.choice([0, 0, 7, len(raw)]))

    # --- model: logical content is the concatenated 2048-byte bodies;
    #     also nested below a StreamOffset window
    for trial in range(60):
        n = rng.randint(1, 4)
        raw, bodies = make_image(rng, n)
        size = n * BODY
        win_off = rng.randint(0, size - 1)
        win_size = rng.randint(1, size - win_off)
        s_plain = MdfStream(BytesIO(raw))
        s_nest = StreamOffset(MdfStream(BytesIO(raw)), win_size, win_off)
        for s, logical in ((s_plain, bodies), (s_nest, bodies[win_off:win_off + win_size])):
            L = len(logical)
            pos = 0
            for _ in range(25):
                k = rng.randrange(3)
                if k == 0:
                    check("model-tell", s.tell(), pos)
                elif k == 1:
                    target = rng.randint(-3, L + 3)
                    pos = min(max(target, 0), L)
                    check("model-seek", s.seek(target, SEEK_SET), pos)
                else:
                    nbytes = rng.choice([0, 1, 17, BODY - 1, BODY, BODY + 1, 2 * BODY + 3, L, L + 4])
                    exp = logical[pos:pos + nbytes]
                    check("model-read", s.read(nbytes), exp)
                    pos += len(exp)

    if failures:
        print(f"FAIL: {failures} mismatches")
        return 1
    print("OK: MdfStream address mapping live == original everywhere")
    return 0


if __name__ == "__main__":
    sys.exit(main())
