"""Equivalence demo for r18: smpl_extract.cdda.image.CompactDiskAudioImage
.children (the list of AudioTrack windows built by from_bin_cue, after the
image's naming routines were applied; this is what `export` and `ls` walk).

An inline copy of the ORIGINAL property (explicit for-loop) is installed on
a subclass / patched into the class and compared with the live property:

  A. traced routines: images with no `_routines` attribute, an empty dict,
     1..5 recording routines (returning the same list, a new list, a tuple,
     None, ...), routines that raise at any position, dict subclasses and
     an OrderedDict, and a routine that mutates the routines dict while it
     is being walked.  The returned object (identity for pass-through
     routines, value otherwise) or the exception (type and message), the
     ordered log of routine calls and the identity of the argument each
     routine received must agree.
  B. real routines: images produced by from_bin_cue from random cue/bin
     pairs get make_safe_names / make_export_names set via set_routines;
     children, safe_name, export_name, path and get_info().to_string()
     must agree between both properties, also on repeated access.
  C. end to end: the same cue/bin pairs are exported to WAV and listed with
     `ls` once with the live property and once with the original one; the
     trees and the printed text must be byte-identical, and the PCM must
     tile the bin (independent expected values).
Exit 0 on full agreement, 1 otherwise.
"""
import collections
import contextlib
import io
import os
import random
import shutil
import sys
import tempfile

from smpl_extract import actions
from smpl_extract.cdda import image as cdda_image
from smpl_extract.cdda.image import AudioTrack
from smpl_extract.cdda.image import CompactDiskAudioImage
from smpl_extract.cdda.image import CompactDiskAudioImageAdapter
from smpl_extract.cuesheet import parse_cue_sheet


ORIGINAL_SOURCE = '''
def children(self):
    tracks = self.tracks
    for routine in getattr(self, "_routines", {}).values():
        tracks = routine(tracks)
    return tracks
'''
_namespace = {}
exec(compile(ORIGINAL_SOURCE, "<original>", "exec"), cdda_image.__dict__,
     _namespace)
original_children = property(_namespace["children"])
live_children = CompactDiskAudioImage.__dict__["children"]


class OriginalImage(CompactDiskAudioImage):
    children = original_children


class LiveImage(CompactDiskAudioImage):
    """Same depth of subclassing; inherits the live property."""


# ------------------------------------------------------------------ traced
class CustomError(Exception):
    pass


class OddDict(dict):
    def values(self):
        return reversed(list(super().values()))


def make_routine(kind, label, log, registry):
    def routine(elements):
        log.append((label, id(elements) == registry.get("last_id"),
                    repr(elements)))
        if kind == "same":
            result = elements
        elif kind == "copy":
            result = list(elements)
        elif kind == "tuple":
            result = tuple(elements)
        elif kind == "none":
            result = None
        elif kind == "reverse":
            result = elements[::-1]
        elif kind == "append":
            elements.append(label)
            result = elements
        elif kind == "raise":
            raise CustomError("routine %s failed" % label)
        elif kind == "stop":
            raise StopIteration("routine %s stopped" % label)
        elif kind == "mutate":
            registry["routines"]["added by %s" % label] = lambda x: x
            result = elements
        else:
            raise AssertionError(kind)
        registry["last_id"] = id(result)
        registry["last"] = result
        return result
    return routine


def run_traced(cls, kinds, container, with_attribute):
    log = []
    registry = {}
    tracks = ["t1", "t2", "t3"]
    image = cls(tracks=tracks)
    registry["last_id"] = id(tracks)
    registry["last"] = tracks
    if with_attribute:
        routines = container()
        for number, kind in enumerate(kinds):
            routines["r%d" % number] = make_routine(
                kind, "r%d" % number, log, registry)
        registry["routines"] = routines
        if with_attribute == "set_routines":
            image.set_routines(routines)
        else:
            image._routines = routines
    try:
        result = image.children
    except BaseException as e:
        outcome = ("EXC", type(e).__name__, str(e))
    else:
        outcome = ("OK", result is registry["last"], type(result).__name__,
                   repr(result))
    return outcome, log, repr(tracks)


def traced_cases():
    failures = 0
    count = 0
    rng = random.Random(0xC0318)
    kinds_pool = ["same", "copy", "tuple", "reverse", "append", "same",
                  "copy", "none", "raise", "stop", "mutate"]
    scripts = [[], ["same"], ["copy"], ["same", "same"], ["raise"],
               ["same", "raise", "same"], ["none"], ["none", "same"],
               ["mutate"], ["same", "mutate", "same"], ["stop"],
               ["tuple", "reverse"], ["append", "append", "copy"]]
    for _ in range(1500):
        scripts.append([rng.choice(kinds_pool)
                        for _ in range(rng.randint(0, 5))])
    containers = [dict, collections.OrderedDict, OddDict]
    for script in scripts:
        for container in containers:
            for with_attribute in (False, "direct", "set_routines"):
                expected = run_traced(OriginalImage, script, container,
                                      with_attribute)
                actual = run_traced(LiveImage, script, container,
                                    with_attribute)
                direct = run_traced(CompactDiskAudioImage, script,
                                    container, with_attribute)
                count += 1
                if expected != actual or expected != direct:
                    failures += 1
                    if failures < 10:
                        print("MISMATCH (traced)", script, container,
                              with_attribute)
                        print("   expected", expected)
                        print("   actual  ", actual)
    return count, failures


# ----------------------------------------------------------- real routines
def msf(total):
    return "%02d:%02d:%02d" % (total // 4500, (total // 75) % 60, total % 75)


TITLES = ["Intro", "Intro", "a/b", "  spaced  ", "Loop L", "Loop R", "x.",
          "'quoted'", "Title", "..", "Untitled Track 2", "#1 - mix"]


def make_cue(rng, n_sectors):
    lines = ["FILE \"disc.bin\" BINARY\n"]
    position = rng.randint(0, 2)
    for t in range(rng.randint(1, 6)):
        lines.append("  TRACK %02d AUDIO\n" % (t + 1))
        if rng.random() < 0.6:
            lines.append("    TITLE \"%s\"\n" % rng.choice(TITLES))
        for k in range(rng.choice([1, 1, 2, 3])):
            lines.append("    INDEX %02d %s\n" % (k, msf(position)))
            position += rng.choice([1, 1, 2, 3])
        if position >= n_sectors:
            break
    return lines


@contextlib.contextmanager
def patched_children(prop):
    CompactDiskAudioImage.children = prop
    try:
        yield
    finally:
        CompactDiskAudioImage.children = live_children


def describe_image(data, lines):
    cue = parse_cue_sheet(list(lines))
    image = CompactDiskAudioImageAdapter.from_bin_cue(io.BytesIO(data), cue)
    report = []
    first = image.children
    report.append(("bare", first is image.tracks, len(first)))
    routines = {
        "make_safe_names": image.make_safe_names_routine,
        "make_export_names": image.make_export_names_routine,
    }
    image.set_routines(routines)
    for _ in range(2):
        children = image.children
        report.append((
            children is image.tracks,
            [type(c) is AudioTrack for c in children],
            [(c.title, c.safe_name, c.export_name, c.path, c.export_path(),
              c.num_audio_samples, c._data_stream.offset,
              c._data_stream.end_of_file) for c in children],
        ))
    report.append(image.get_info().to_string())
    return report


def real_routine_cases(pairs):
    failures = 0
    count = 0
    for number, (data, lines) in enumerate(pairs):
        with patched_children(original_children):
            expected = describe_image(data, lines)
        with patched_children(live_children):
            actual = describe_image(data, lines)
        count += 1
        if expected != actual:
            failures += 1
            if failures < 10:
                print("MISMATCH (real routines)", number)
                print("   expected", expected)
                print("   actual  ", actual)
    return count, failures


# ------------------------------------------------------------------ export
def read_tree(root):
    found = {}
    for directory, _dirs, files in os.walk(root):
        for name in files:
            path = os.path.join(directory, name)
            with open(path, "rb") as f:
                found[os.path.relpath(path, root)] = f.read()
    return found


def run_actions(prop, cue_path, destination):
    captured = io.StringIO()
    os.mkdir(destination)
    with patched_children(prop), contextlib.redirect_stdout(captured):
        actions.export_samples_to_wav(cue_path, destination)
        actions.ls_action(cue_path, "")
        actions.ls_action(cue_path, "/")
        actions.ls_action(cue_path, "no such track")
    return read_tree(destination), captured.getvalue()


def export_cases(pairs):
    failures = 0
    count = 0
    base = tempfile.mkdtemp(prefix="r18demo_")
    try:
        for number, (data, lines) in enumerate(pairs[:60]):
            directory = os.path.join(base, "case%03d" % number)
            os.mkdir(directory)
            with open(os.path.join(directory, "disc.bin"), "wb") as f:
                f.write(data)
            cue_path = os.path.join(directory, "disc.cue")
            with open(cue_path, "w", encoding="ascii") as f:
                f.writelines(lines)
            expected = run_actions(original_children, cue_path,
                                   os.path.join(directory, "out_a"))
            actual = run_actions(live_children, cue_path,
                                 os.path.join(directory, "out_b"))
            count += 1
            if expected != actual:
                failures += 1
                print("MISMATCH (export)", number)
                continue

            # independent check of the tiling: the files are exported in
            # track order, one "Exported <name>.wav" line per track
            cue = parse_cue_sheet(list(lines))
            starts = [t.indices[0].get_total_audio_frames()*2352
                      for t in cue.tracks]
            if starts[-1] > len(data):
                continue
            ends = starts[1:] + [len(data) - (len(data) - starts[-1]) % 4]
            exported = [line[len("Exported "):]
                        for line in actual[1].splitlines()
                        if line.startswith("Exported ")]
            count += 1
            if len(exported) != len(starts) \
                    or len(set(exported)) != len(exported) \
                    or sorted(exported) != sorted(actual[0]):
                failures += 1
                print("MISMATCH (file list)", number, exported)
                continue
            joined = b""
            for name, start, end in zip(exported, starts, ends):
                blob = actual[0][name]
                if blob[44:] != data[start:end]:
                    failures += 1
                    print("MISMATCH (tiling)", number, name)
                    break
                joined += blob[44:]
            else:
                if joined != data[starts[0]:ends[-1]]:
                    failures += 1
                    print("MISMATCH (concatenation)", number)
    finally:
        shutil.rmtree(base, ignore_errors=True)
    return count, failures


def main():
    rng = random.Random(0x318)
    pairs = []
    for _ in range(150):
        n_sectors = rng.randint(1, 16)
        tail = rng.choice([0, 0, 1, 2, 3, 5, 1177, 2351])
        data = bytes(rng.getrandbits(8) for _ in range(n_sectors*2352 + tail))
        pairs.append((data, make_cue(rng, n_sectors)))

    total = 0
    failed = 0
    for part, args in ((traced_cases, ()), (real_routine_cases, (pairs,)),
                       (export_cases, (pairs,))):
        count, failures = part(*args)
        print(part.__name__, "cases:", count, "failures:", failures)
        total += count
        failed += failures
    if CompactDiskAudioImage.__dict__["children"] is not live_children:
        print("class not restored")
        failed += 1
    print("total cases:", total, "failures:", failed)
    return 1 if failed else 0


if __name__ == "__main__":
    sys.exit(main())
