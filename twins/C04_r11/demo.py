"""Equivalence demo for r11: get_fmt_chunk_data
(smpl_extract/generalized/wav.py).

An inline copy of the ORIGINAL get_fmt_chunk_data is compared with the one in
the tree over a grid of sample rates x channel counts x sample widths
(corner and out-of-range values included), with real Sample / StreamEncoding
objects and with probe objects that log attribute reads, lack attributes or
carry values of odd types.  Compared: the returned container (type, key
order, values and value types), the bytes WavFormatChunkStruct builds from it
(incl. the derived byte_rate / block_align) or the build exception, the
exceptions of the call itself (type and message) and the order of attribute
reads.  A complete RIFF build through WavSampleBuilder is checked too.
Exit 0 when everything agrees, 1 otherwise.
"""
import io
import itertools
import sys
from unittest.mock import patch

from smpl_extract.data_streams import DataStream
from smpl_extract.data_streams import Endianess
from smpl_extract.data_streams import StreamEncoding
from smpl_extract.formats.wav import WavFormatChunkContainer
from smpl_extract.formats.wav import WavFormatChunkStruct
from smpl_extract.generalized import wav as gwav
from smpl_extract.generalized.sample import Sample


def orig_get_fmt_chunk_data(sample, encoding):
    # verbatim copy of the original implementation
    result = WavFormatChunkContainer(
        audio_format=1,
        channel_cnt=encoding.num_interleaved_channels,
        sample_rate=sample.sample_rate,
        bits_per_sample=8*encoding.sample_width
    )
    return result


class Probe:
    """Object with the given attributes; logs every attribute read."""

    def __init__(self, tag, log, **attrs):
        object.__setattr__(self, "_tag", tag)
        object.__setattr__(self, "_log", log)
        object.__setattr__(self, "_attrs", attrs)

    def __getattr__(self, name):
        self._log.append((self._tag, name))
        try:
            return self._attrs[name]
        except KeyError:
            raise AttributeError(f"{self._tag} has no {name}")


def describe(result):
    items = tuple((k, type(v).__name__, repr(v)) for k, v in result.items())
    try:
        built = WavFormatChunkStruct.build(result)
    except BaseException as e:  # noqa
        built = ("build-exc", type(e).__name__, str(e))
    return (type(result).__name__, items, repr(result), built)


def outcome(func, make_args):
    log = []
    sample, encoding = make_args(log)
    try:
        res = ("ok", describe(func(sample, encoding)))
    except BaseException as e:  # noqa
        res = ("exc", type(e).__name__, str(e))
    return res, log


failures = 0
checked = 0


def compare(make_args, label):
    global failures, checked
    checked += 1
    a = outcome(orig_get_fmt_chunk_data, make_args)
    b = outcome(gwav.get_fmt_chunk_data, make_args)
    if a != b:
        failures += 1
        if failures <= 10:
            print("MISMATCH", label)
            print("  orig:", a)
            print("  new: ", b)


rates = [0, 1, 8000, 11025, 22050, 32000, 44100, 48000, 96000, 65535, 65536,
         2**31 - 1, 2**32 - 1, 2**32, -1]
channel_counts = [0, 1, 2, 3, 4, 8, 255, 65535, 65536, -1]
widths = [0, 1, 2, 3, 4, 8, 16, 8191, 8192, -1]

# real objects
for rate, channels, width in itertools.product(rates, channel_counts, widths):
    for signed, endian in ((True, Endianess.LITTLE), (False, Endianess.BIG)):
        def make_args(log, rate=rate, channels=channels, width=width,
                      signed=signed, endian=endian):
            sample = Sample(name="x", sample_rate=rate, num_channels=channels)
            encoding = StreamEncoding(
                endianess=endian,
                sample_width=width,
                num_interleaved_channels=channels,
                is_signed=signed,
            )
            return sample, encoding
        compare(make_args, ("real", rate, channels, width, signed, endian))

# probe objects: attribute read order, odd value types, missing attributes
odd = [None, 2.0, 2.5, True, "2", b"ab", [1, 2], (3,), 1 + 1j]
for rate, channels, width in itertools.product([44100] + odd, [2] + odd, [2] + odd):
    def make_args(log, rate=rate, channels=channels, width=width):
        return (
            Probe("sample", log, sample_rate=rate),
            Probe("encoding", log, num_interleaved_channels=channels, sample_width=width),
        )
    compare(make_args, ("probe", rate, channels, width))

for missing in itertools.product((False, True), repeat=3):
    def make_args(log, missing=missing):
        s_attrs = {} if missing[0] else {"sample_rate": 44100}
        e_attrs = {}
        if not missing[1]:
            e_attrs["num_interleaved_channels"] = 2
        if not missing[2]:
            e_attrs["sample_width"] = 2
        return Probe("sample", log, **s_attrs), Probe("encoding", log, **e_attrs)
    compare(make_args, ("missing", missing))

for args in ((None, None), (None, StreamEncoding()), (Sample(), None)):
    compare(lambda log, args=args: args, ("none", args))


# complete RIFF build: tree vs. module patched with the original function
def build_riff(fmt_impl, rate, width, payloads):
    streams = [
        DataStream(io.BytesIO(p), StreamEncoding(sample_width=width, num_interleaved_channels=1))
        for p in payloads
    ]
    sample = Sample(name="x", sample_rate=rate, num_channels=len(streams), data_streams=streams)
    out = io.BytesIO()
    with patch("smpl_extract.generalized.wav.get_fmt_chunk_data", fmt_impl):
        try:
            gwav.WavSampleBuilder.build_stream(sample, out)
        except BaseException as e:  # noqa
            return ("exc", type(e).__name__, str(e), out.getvalue())
    return ("ok", out.getvalue())


tree_impl = gwav.get_fmt_chunk_data
data = bytes((i * 29 + 3) % 256 for i in range(1001))
for rate, width, n_streams in itertools.product((0, 22050, 44100, 2**32), (1, 2, 4), (1, 2)):
    checked += 1
    payloads = [data] * n_streams
    a = build_riff(orig_get_fmt_chunk_data, rate, width, payloads)
    b = build_riff(tree_impl, rate, width, payloads)
    if a != b:
        failures += 1
        print("RIFF MISMATCH", rate, width, n_streams)

print(f"checked {checked} cases, {failures} mismatches")
sys.exit(1 if failures else 0)
