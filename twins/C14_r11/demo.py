"""Equivalence demo for r11 (smpl_extract/akai/file_entry.py: the nested
helper is_table_end of FileEntriesAdapter._parse, which peeks at the end flag
of the next file table entry and rewinds).

is_table_end is a closure, so it is exercised through FileEntriesAdapter: an
inline copy of the ORIGINAL adapter (with the original helper) is compared
with the live one on file tables read from a tracing stream.

Inputs: tables with 0..6 entries, end flag present / absent / in the middle /
in every entry slot, the two flag bytes damaged with every byte value,
every type byte in one entry, bytes 8..9 of a regular entry spelling the end
flag, tables truncated at EVERY byte length,
tables whose tail cannot be read (short reads from EVERY offset on), random
multi-byte damage confined to one entry, fully random tables, and streams
whose seek/tell/read raise.

Compared: list of (name, type) of the entries, the realised files (type, name
and sample bytes), exception type and text, final stream position and the
complete trace of tell/seek/read calls (with arguments) made on the table
stream.

Exit 0 when everything agrees, 1 otherwise.
"""
import io
import random
import struct
import sys
from io import SEEK_CUR
from io import SEEK_END
from io import SEEK_SET
from typing import Iterable
from typing import List
from typing import Union

from construct.core import ConstructError
from construct.core import Int16ul
from construct.core import Lazy
from construct.core import StreamError
from construct.core import Subconstruct
from construct.expr import this

import smpl_extract.akai.file_entry as fe
from smpl_extract.akai.akai_string import char_ascii_to_akai
from smpl_extract.akai.data_types import FILE_TABLE_END_FLAG
from smpl_extract.akai.file import FileAdapter
from smpl_extract.akai.file import FileConstruct
from smpl_extract.akai.file_entry import FileEntry
from smpl_extract.akai.file_entry import FileEntryConstruct
from smpl_extract.akai.file_entry import FileEntryContainer
from smpl_extract.util.constructs import pull_child_info
from smpl_extract.util.fat import RequestedInvalidSector


# ---------------------------------------------------------------- original
class OrigFileEntriesAdapter(Subconstruct):

    def __init__(self, sat, subcon):
        super().__init__(subcon)  # type: ignore
        self.sat = sat

    def _parse(self, stream, context, path)->Iterable[FileEntry]:

        def is_table_end(stream_inner):
            original_address = stream_inner.tell()

            stream_inner.seek(8, SEEK_CUR)
            try:
                end_flag = Int16ul.parse_stream(stream_inner)
            except (StreamError):
                return True

            stream_inner.seek(original_address, SEEK_SET)

            result = (end_flag == FILE_TABLE_END_FLAG)
            return result

        child_info = pull_child_info(context)
        parent = child_info.parent
        sat = self.sat(context) if callable(self.sat) else self.sat

        # read file entries containers
        stream.seek(0, SEEK_END)
        file_table_size = stream.tell()
        stream.seek(0, SEEK_SET)

        table_entry_size = self.subcon.sizeof()
        max_table_entry_cnt = file_table_size // table_entry_size

        file_entries: List[FileEntry] = []
        for _i in range(max_table_entry_cnt):
            if is_table_end(stream):
                break
            file_entry_container: Union[FileEntryContainer, None] = None
            entry_address = stream.tell()
            try:
                file_entry_container = self.subcon.parse_stream(stream, _=context, sat=sat)
            except (ConstructError, RequestedInvalidSector):
                # skip the bad entry, stay aligned with the table
                stream.seek(entry_address + table_entry_size, SEEK_SET)

            if file_entry_container is not None and file_entry_container.start > 0:
                name = file_entry_container.name
                file_content = Lazy(FileAdapter(
                        this._.sat,
                        FileConstruct
                    )).parse_stream(
                        file_entry_container.file_stream,  # type: ignore
                        _=context,
                        file_type=file_entry_container.file_type,
                        _elem_name=name,
                        _elem_parent=parent,
                        _elem_routines=child_info.routines
                    )

                if file_content is None:
                    raise ConstructError

                file_entry = FileEntry(
                    file_entry_container.name,
                    file_entry_container.file_type,
                    file_content
                )

                file_entries.append(file_entry)

        result = file_entries
        return result

    def _build(self, obj, stream, context, path):
        raise NotImplementedError


# ---------------------------------------------------------------- helpers
class TracingFile(io.BytesIO):

    def __init__(self, data, fail_on=None, read_limit=None):
        super().__init__(data)
        self.trace = []
        self.fail_on = fail_on      # (op, nth) -> raise OSError
        # bytes at and after read_limit cannot be read although seek/tell see
        # them (a table whose backing sectors are cut off)
        self.read_limit = read_limit

    def _maybe_fail(self, op):
        if self.fail_on and self.fail_on[0] == op:
            n = sum(1 for t in self.trace if t[0] == op)
            if n == self.fail_on[1]:
                raise OSError("injected %s failure" % op)

    def tell(self):
        self._maybe_fail("tell")
        pos = super().tell()
        self.trace.append(("tell", pos))
        return pos

    def seek(self, *args):
        self._maybe_fail("seek")
        pos = super().seek(*args)
        self.trace.append(("seek", args, pos))
        return pos

    def read(self, *args):
        self._maybe_fail("read")
        pos = super().tell()
        data = super().read(*args)
        if self.read_limit is not None and pos + len(data) > self.read_limit:
            data = data[:max(0, self.read_limit - pos)]
        self.trace.append(("read", args, len(data)))
        return data


def sample(n, seed):
    rng = random.Random(seed)
    return b"\x03" + b"\x00" * 149 + bytes(rng.getrandbits(8) for _ in range(n))


SAMPLES = {k: sample(64 + 16 * k, k) for k in range(1, 12)}


class Sat:
    def get_segment(self, start):
        if start >= 0x8000:
            raise RequestedInvalidSector
        return io.BytesIO(SAMPLES.get(start, b"\x00" * 400))


class Parent:
    path = ["IMG", "A:", "VOL"]


def akai_name(text):
    return bytes(char_ascii_to_akai(text.ljust(12)[:12]))


def entry(name, ftype, size, start):
    return akai_name(name) + bytes(4) + bytes([ftype]) \
        + size.to_bytes(3, "little") + struct.pack("<H", start) + bytes(2)


END = bytes(8) + struct.pack("<H", FILE_TABLE_END_FLAG) + bytes(14)
assert len(END) == 24 and FileEntryConstruct.sizeof() == 24


def run(adapter_cls, data, fail_on=None, read_limit=None):
    stream = TracingFile(data, fail_on, read_limit)
    adapter = adapter_cls(this.sat, FileEntryConstruct)
    parent = Parent()
    try:
        entries = adapter.parse_stream(
            stream, sat=Sat(), _elem_parent=parent, _elem_routines={}
        )
    except BaseException as e:  # noqa: B902
        return ("raise", type(e), str(e), list(stream.trace))
    pos = io.BytesIO.tell(stream)
    listing = [(type(x).__name__, x.name, x.file_type) for x in entries]
    files = []
    for x in entries:
        try:
            f = x.file
            item = [type(f).__name__, getattr(f, "name", None),
                    list(getattr(f, "path", []))]
            ds = getattr(f, "_data_stream", None)
            if ds is not None:
                ds.seek(0)
                item.append(ds.read(4096))
            files.append(item)
        except Exception as e:
            files.append(("file-raise", type(e), str(e)))
    return ("ok", type(entries), listing, files, pos, list(stream.trace))


failures = []
checked = 0


def compare(label, data, fail_on=None, read_limit=None):
    global checked
    checked += 1
    a = run(OrigFileEntriesAdapter, data, fail_on, read_limit)
    b = run(fe.FileEntriesAdapter, data, fail_on, read_limit)
    if a != b:
        failures.append(f"{label}: {str(a)[:400]} != {str(b)[:400]}")
    return b


def main():
    rng = random.Random(0xC14)
    e = [
        entry("FIRST", 0x73, len(SAMPLES[1]), 1),
        entry("SECOND", 0xF3, len(SAMPLES[2]), 2),
        entry("THIRD", 0x73, len(SAMPLES[3]), 3),
        entry("PROG", 0x70, 300, 4),
        entry("ZERO START", 0x73, 100, 0),
        entry("SIXTH", 0x73, len(SAMPLES[6]), 6),
    ]

    # entry counts, with / without end marker, with trailing zero padding
    for n in range(0, 7):
        body = b"".join(e[:n])
        compare(f"n={n} no end", body)
        compare(f"n={n} end", body + END)
        compare(f"n={n} end+pad", body + END + bytes(24 * 3))
        compare(f"n={n} pad only", body + bytes(24 * 2))
        compare(f"n={n} end then more", body + END + b"".join(e[:2]))
        compare(f"n={n} odd tail", body + END[:13])

    good = b"".join(e) + END + bytes(48)

    # end marker in every slot
    for slot in range(0, 8):
        parts = list(e) + [bytes(24)]
        parts.insert(slot, END)
        compare(f"end at {slot}", b"".join(parts))

    # every truncation length
    for length in range(0, len(good) + 1):
        compare(f"truncated {length}", good[:length])
    # every unreadable-tail length: this is what reaches the StreamError
    # branch of the helper (short read while peeking), at every alignment;
    # the stream position is then left where the failed peek ended
    for limit in range(0, len(good) + 1):
        compare(f"unreadable from {limit}", good, None, limit)
    for limit in range(0, 80):
        compare(f"unreadable from {limit} (2 entries)", good[:48], None, limit)

    # the two flag bytes of the end marker and of entry 1: every value
    for base, what in ((6 * 24, "end marker"), (1 * 24, "entry 1")):
        for off in (8, 9):
            for value in range(256):
                d = bytearray(good)
                d[base + off] = value
                compare(f"{what} byte {off}={value:#x}", bytes(d))
    # a regular entry whose bytes 8..9 spell the end flag
    for idx in range(6):
        d = bytearray(good)
        d[idx * 24 + 8:idx * 24 + 10] = struct.pack("<H", FILE_TABLE_END_FLAG)
        compare(f"entry {idx} looks like end", bytes(d))
        d[idx * 24 + 8:idx * 24 + 10] = struct.pack(">H", FILE_TABLE_END_FLAG)
        compare(f"entry {idx} looks like swapped end", bytes(d))

    # every type byte / every start low+high byte in entry 2 (property C14)
    for off in (16, 20, 21, 17, 0, 11):
        for value in range(256):
            d = bytearray(good)
            d[2 * 24 + off] = value
            compare(f"entry 2 byte {off}={value:#x}", bytes(d))

    # random damage confined to one entry
    for _ in range(600):
        d = bytearray(good)
        base = rng.randrange(0, 7) * 24
        for _ in range(rng.randrange(1, 10)):
            d[base + rng.randrange(24)] = rng.getrandbits(8)
        compare("random entry damage", bytes(d))

    # fully random tables of random length
    for _ in range(400):
        n = rng.randrange(0, 200)
        compare("random table", bytes(rng.getrandbits(8) for _ in range(n)))
    for _ in range(200):
        # random, but with plausible type bytes so that entries do parse
        n = rng.randrange(0, 8)
        d = bytearray()
        for _ in range(n):
            d += entry("R%d" % rng.randrange(100), rng.choice([0x73, 0xF3, 0x70, 0x01]),
                       rng.randrange(0, 500), rng.randrange(0, 12))
            if rng.random() < 0.15:
                d += END
        d += bytes(rng.randrange(0, 30))
        compare("random plausible table", bytes(d))

    # failing stream operations propagate identically
    for op in ("tell", "seek", "read"):
        for nth in range(0, 12):
            compare(f"{op} fails at {nth}", good, (op, nth))
            compare(f"{op} fails at {nth} (short)", good[:30], (op, nth))

    # expected values, independent of the inline copy
    global checked
    res = run(fe.FileEntriesAdapter, good)
    checked += 1
    if not (res[0] == "ok" and [x[1] for x in res[2]]
            == ["FIRST", "SECOND", "THIRD", "PROG", "SIXTH"]):
        failures.append(f"good listing: {str(res)[:300]}")
    checked += 1
    if not (res[0] == "ok" and res[3][0][3] == b""):
        failures.append("sample bytes of FIRST")
    checked += 1
    if not (res[0] == "ok" and res[4] == 6 * 24):
        failures.append(f"position after parse: {res[4]}")
    d = bytearray(good)
    d[1 * 24 + 16] = 0x01
    res = run(fe.FileEntriesAdapter, bytes(d))
    checked += 1
    if not (res[0] == "ok" and [x[1] for x in res[2]]
            == ["FIRST", "THIRD", "PROG", "SIXTH"]):
        failures.append(f"damaged type byte drops only that entry: {str(res)[:300]}")
    res = run(fe.FileEntriesAdapter, good, None, 24 + 9)
    checked += 1
    # peek fails on the 2nd entry (only 1 of the 2 flag bytes readable):
    # table treated as ended, position NOT restored (stays after the peek)
    if not (res[0] == "ok" and [x[1] for x in res[2]] == ["FIRST"]
            and res[4] == 24 + 10):
        failures.append(f"short tail: {str(res)[:300]}")

    print(f"{checked} checks, {len(failures)} failures")
    for msg in failures[:15]:
        print("FAIL:", msg)
    return 1 if failures else 0


if __name__ == "__main__":
    sys.exit(main())
