"""Equivalence demo for r18 (smpl_extract/akai/file_entry.py, the lazy
property FileEntry.file - the per-file parse that Volume._realize_files
triggers for every entry of a volume and whose InvalidFileEntry /
ConstructError it swallows, so that a damaged file drops out of the listing
alone).

The refactoring rewrites `if not self._file: self._file = f(); return
self._file` as a walrus guard with an early return of the cached object and a
local for the freshly parsed one.

An inline copy of the ORIGINAL class is compared with the live one.

 A. unit level: scripted content callables (return truthy objects, falsy
    objects such as None / 0 / "" / [] / objects with __bool__ or __len__,
    objects whose __bool__ raises or logs or flips, raise ConstructError /
    InvalidFileEntry / KeyError a number of times before succeeding) are read
    through .file several times, interleaved with outside writes to `_file`.
    Compared after every access: identity of the returned object, exception
    type/text, the log of content calls and __bool__ calls, and the `_file`
    slot; random scripts on top.  The class attributes (property object
    without setter/deleter, constructor signature, instance dict) are compared
    too.
 B. Volume level: the live Volume realises lists that mix good, failing and
    falsy entries built from either class; `files` is read repeatedly, with
    and without routines.  Compared: file lists, call logs, cached state.
 C. end to end: synthetic AKAI partitions with the damage of property C14
    (every value of the type byte, of the size bytes and of the start sector of
    one entry, every byte of an entry set to several values, random
    multi-byte damage confined to one entry, SAT damage) are listed with the
    original class patched into the module and with the live one, then every
    volume's files are realised twice through Volume.files.  Compared: error
    type/text, entry and file names, paths, decoded sample bytes, the trace of
    every seek/read/tell on the image stream.

Exit 0 when everything agrees, 1 otherwise.
"""
import inspect
import io
import random
import struct
import sys
from typing import Callable

from construct.core import ConstructError
from construct.core import Int16ul
from construct.core import Struct
from construct.expr import this

import smpl_extract.akai.file_entry as fe
from smpl_extract.akai.akai_string import char_ascii_to_akai
from smpl_extract.akai.data_types import AKAI_PARTITION_MAGIC
from smpl_extract.akai.data_types import AKAI_SAT_ENTRY_CNT
from smpl_extract.akai.data_types import AKAI_VOLUME_ENTRY_CNT
from smpl_extract.akai.data_types import FileType
from smpl_extract.akai.data_types import VolumeType
from smpl_extract.akai.file_entry import InvalidFileEntry
from smpl_extract.akai.partition import PartitionHeaderConstruct
from smpl_extract.akai.sat import SegmentAllocationTable
from smpl_extract.akai.sat import SegmentAllocationTableAdapter
from smpl_extract.akai.volume import Volume
from smpl_extract.akai.volume import VolumeEntryConstruct
from smpl_extract.util.stream import StreamOffset


# ---------------------------------------------------------------- original
class OrigFileEntry:

    def  __init__(
            self,
            name: str,
            file_type: FileType,
            f_file_content: Callable
    ) -> None:
        self.name = name
        self.file_type = file_type
        self._file = None
        self._f_file_content = f_file_content


    @property
    def file(self):
        if not self._file:
            self._file = self._f_file_content()
        return self._file


OrigFileEntry.__name__ = "FileEntry"
OrigFileEntry.__qualname__ = "FileEntry"
LiveFileEntry = fe.FileEntry

failures = []
checked = 0


def check(cond, msg):
    global checked
    checked += 1
    if not cond:
        failures.append(msg)


# ---------------------------------------------------------------- part A
class Obj:
    """a content object with scripted truthiness"""

    def __init__(self, tag, truth, log):
        self.tag = tag
        self.truth = list(truth)      # consumed one per bool(); last one sticks
        self.log = log

    def __bool__(self):
        self.log.append(("bool", self.tag))
        value = self.truth[0]
        if len(self.truth) > 1:
            self.truth.pop(0)
        if isinstance(value, BaseException):
            raise value
        return value

    def __repr__(self):
        return f"Obj({self.tag})"


class Sized:

    def __init__(self, tag, n, log):
        self.tag = tag
        self.n = n
        self.log = log

    def __len__(self):
        self.log.append(("len", self.tag))
        return self.n

    def __repr__(self):
        return f"Sized({self.tag})"


def build_values(script, log):
    """script item -> concrete value or exception (fresh per run)"""
    out = []
    for i, item in enumerate(script):
        kind = item[0]
        if kind == "obj":
            out.append(("ret", Obj(i, item[1], log)))
        elif kind == "sized":
            out.append(("ret", Sized(i, item[1], log)))
        elif kind == "plain":
            out.append(("ret", item[1]))
        elif kind == "raise":
            out.append(("raise", item[1]))
    return out


def tag_of(value):
    if isinstance(value, (Obj, Sized)):
        return repr(value)
    return (type(value).__name__, repr(value))


def run_script(cls, script, actions):
    log = []
    values = build_values(script, log)
    state = {"i": 0}

    def content():
        i = state["i"]
        log.append(("content", i))
        state["i"] = i + 1
        kind, value = values[min(i, len(values) - 1)]
        if kind == "raise":
            raise value("boom %d" % i)
        return value

    entry = cls("NAME", FileType.SAMPLE_S1000, content)
    out = []
    for action in actions:
        if action == "get":
            try:
                got = entry.file
            except BaseException as e:  # noqa: B902
                out.append(("raise", type(e), str(e)))
            else:
                slot = entry.__dict__["_file"]
                out.append(("ok", tag_of(got), got is slot))
        elif action == "reset":
            entry._file = None
            out.append("reset")
        elif action == "plant":
            entry._file = "planted"
            out.append("plant")
        elif action == "plant0":
            entry._file = 0
            out.append("plant0")
        out.append(("slot", tag_of(entry.__dict__["_file"]), len(log)))
    return (out, list(log), sorted(entry.__dict__), entry.name, entry.file_type)


def compare_script(label, script, actions):
    a = run_script(OrigFileEntry, script, actions)
    b = run_script(LiveFileEntry, script, actions)
    check(a == b, f"{label} {script} {actions}: {str(a)[:400]} != {str(b)[:400]}")
    return b


def part_a():
    gets = ["get"] * 4
    atoms = [
        ("plain", "file"), ("plain", None), ("plain", 0), ("plain", ""),
        ("plain", []), ("plain", [0]), ("plain", 0.0), ("plain", b""),
        ("plain", ()), ("plain", {}), ("plain", False), ("plain", True),
        ("obj", [True]), ("obj", [False]), ("obj", [False, True]),
        ("obj", [True, False]), ("obj", [False, False, True]),
        ("obj", [RuntimeError("bool fails")]),
        ("obj", [True, RuntimeError("bool fails later")]),
        ("obj", [False, RuntimeError("bool fails later")]),
        ("sized", 0), ("sized", 3),
        ("raise", ConstructError), ("raise", InvalidFileEntry),
        ("raise", KeyError), ("raise", KeyboardInterrupt),
    ]
    for a1 in atoms:
        compare_script("single", [a1], gets)
        compare_script("single+reset", [a1], ["get", "reset", "get", "get"])
        compare_script("single+plant", [a1], ["plant", "get", "get", "plant0", "get"])
        for a2 in atoms:
            compare_script("pair", [a1, a2], gets)
            compare_script("pair+reset", [a1, a2], ["get", "get", "reset", "get", "get"])
            for a3 in (("plain", "third"), ("raise", ConstructError), ("obj", [False])):
                compare_script("triple", [a1, a2, a3], ["get"] * 5)
    rng = random.Random(0xC14)
    for _ in range(3000):
        script = [rng.choice(atoms) for _ in range(rng.randrange(1, 6))]
        actions = [
            rng.choice(["get", "get", "get", "reset", "plant", "plant0"])
            for _ in range(rng.randrange(1, 9))
        ]
        compare_script("random", script, actions)

    # independent expectations
    res = compare_script("expect", [("raise", ConstructError), ("plain", "file")], gets)
    gets_only = [x for x in res[0] if x[0] in ("ok", "raise")]
    check(gets_only[0][:2] == ("raise", ConstructError)
          and all(g == ("ok", ("str", "'file'"), True) for g in gets_only[1:])
          and res[1] == [("content", 0), ("content", 1)],
          f"a failed parse is retried, a good one is cached: {res}")
    res = compare_script("expect-none", [("plain", None)], gets)
    check(res[1] == [("content", i) for i in range(4)],
          f"a None result is parsed again on every access: {res[1]}")

    # class shape
    for cls in (OrigFileEntry, LiveFileEntry):
        prop = inspect.getattr_static(cls, "file")
        check(isinstance(prop, property) and prop.fset is None and prop.fdel is None
              and prop.fget.__name__ == "file", f"property shape {cls}")
        check(str(inspect.signature(cls.__init__))
              == str(inspect.signature(OrigFileEntry.__init__)), "init signature")
        e = cls("N", FileType.PROGRAM_S1000, lambda: 1)
        check(sorted(e.__dict__) == ["_f_file_content", "_file", "file_type", "name"]
              and e._file is None, "fresh instance")
        try:
            e.file = 5
            check(False, "file must stay read-only")
        except AttributeError:
            check(True, "")
    check(sorted(k for k in vars(LiveFileEntry) if not k.startswith("__"))
          == sorted(k for k in vars(OrigFileEntry) if not k.startswith("__")),
          "class members")


# ---------------------------------------------------------------- part B
def run_volume(cls, script_per_entry, with_routines, reads):
    log = []
    entries = []
    for ei, script in enumerate(script_per_entry):
        values = build_values(script, log)
        state = {"i": 0}

        def content(values=values, state=state, ei=ei):
            i = state["i"]
            log.append(("content", ei, i))
            state["i"] = i + 1
            kind, value = values[min(i, len(values) - 1)]
            if kind == "raise":
                raise value("boom %d/%d" % (ei, i))
            return value

        entries.append(cls(f"E{ei}", FileType.SAMPLE_S1000, content))
    routines = {}
    if with_routines:
        routines = {
            "rev": lambda files: list(reversed(files)),
            "dup": lambda files: files + files[:1],
        }
    volume = Volume(
        name="VOL", volume_type=VolumeType.VOLUME_S1000, path=["IMG", "A:", "VOL"],
        routines=routines, file_entries=entries
    )
    out = []
    for _ in range(reads):
        try:
            files = volume.files
        except BaseException as e:  # noqa: B902
            out.append(("raise", type(e), str(e)))
        else:
            out.append(("ok", [tag_of(f) for f in files]))
        out.append((volume._is_files_realized, [tag_of(f) for f in volume._files],
                    [tag_of(e.__dict__["_file"]) for e in entries]))
    return (out, log)


def part_b():
    rng = random.Random(0xB18)
    atoms = [
        ("plain", "file"), ("plain", None), ("plain", 0), ("plain", ""),
        ("obj", [True]), ("obj", [False]), ("obj", [False, True]),
        ("sized", 0), ("sized", 2),
        ("raise", ConstructError), ("raise", InvalidFileEntry),
        ("raise", KeyError), ("raise", IndexError),
    ]
    for _ in range(2500):
        scripts = [
            [rng.choice(atoms) for _ in range(rng.randrange(1, 3))]
            for _ in range(rng.randrange(0, 7))
        ]
        routines = rng.random() < 0.5
        a = run_volume(OrigFileEntry, scripts, routines, 3)
        b = run_volume(LiveFileEntry, scripts, routines, 3)
        check(a == b, f"volume {scripts}: {str(a)[:400]} != {str(b)[:400]}")
    res = run_volume(
        LiveFileEntry,
        [[("plain", "one")], [("raise", ConstructError)], [("plain", "three")]],
        False, 2
    )
    check(res[0][0] == ("ok", [("str", "'one'"), ("str", "'three'")])
          and res[0][2] == res[0][0],
          f"a failing entry disappears alone: {res[0]}")


# ---------------------------------------------------------------- part C
SECT = 0x2000
PREAMBLE_HDR_LEN = 2 + 2 + len(AKAI_PARTITION_MAGIC) + 4
PREAMBLE_LEN = PREAMBLE_HDR_LEN + 16 * AKAI_VOLUME_ENTRY_CNT + 2 * AKAI_SAT_ENTRY_CNT

PreambleParser = Struct(
    "header" / PartitionHeaderConstruct,
    "volume_entries" / VolumeEntryConstruct[AKAI_VOLUME_ENTRY_CNT],
    "sat" / SegmentAllocationTableAdapter(
        this.header.partition_stream,
        Int16ul[AKAI_SAT_ENTRY_CNT]  # type: ignore
    ),
)


def akai_name(text):
    return bytes(char_ascii_to_akai(text.ljust(12)[:12]))


def record(name, ftype, size, start, pad1=b"\0" * 4, pad2=b"\0\0"):
    return (
        akai_name(name) + pad1 + bytes([ftype]) + size.to_bytes(3, "little")
        + struct.pack("<H", start) + pad2
    )


def make_partition(size, volumes):
    """volumes: list of (name, type, [(fname, ftype, data)])."""
    buf = bytearray(size * SECT)
    hdr = (
        struct.pack("<H", size)
        + b"\x00\x00" + AKAI_PARTITION_MAGIC + b"\x55\xba\x2f\x00"
    )
    buf[:len(hdr)] = hdr
    sat = [0] * AKAI_SAT_ENTRY_CNT
    sat[0] = sat[1] = sat[2] = 0x4000
    next_sector = 3
    vol_entries = b""
    for vname, vtype, files in volumes:
        vsect = next_sector
        next_sector += 1
        sat[vsect] = 0xC000
        vol_entries += akai_name(vname) + struct.pack("<HH", vtype, vsect)
        table = b""
        for fname, ftype, data in files:
            nsect = max(1, -(-len(data) // SECT))
            start = next_sector
            for k in range(nsect):
                sat[start + k] = start + k + 1 if k < nsect - 1 else 0xC000
            next_sector += nsect
            buf[start * SECT:start * SECT + len(data)] = data
            table += record(fname, ftype, len(data), start)
        table += b"\x00" * 8 + struct.pack("<H", 0xD747) + b"\x00" * 14
        buf[vsect * SECT:vsect * SECT + len(table)] = table
    assert next_sector <= max(size, 3)
    off = len(hdr)
    buf[off:off + len(vol_entries)] = vol_entries
    off = len(hdr) + 16 * AKAI_VOLUME_ENTRY_CNT
    buf[off:off + 2 * AKAI_SAT_ENTRY_CNT] = struct.pack(
        f"<{AKAI_SAT_ENTRY_CNT}H", *sat
    )
    return bytes(buf)


class TracingFile(io.BytesIO):

    def __init__(self, data):
        super().__init__(data)
        self.trace = []

    def tell(self):
        pos = super().tell()
        self.trace.append(("tell", pos))
        return pos

    def seek(self, *args):
        pos = super().seek(*args)
        self.trace.append(("seek", args, pos))
        return pos

    def read(self, *args):
        data = super().read(*args)
        self.trace.append(("read", args, len(data)))
        return data


_preamble_cache = {}


def load_image(data):
    """header, volume table and SAT are decoded once per distinct preamble
    (the SAT decoder is slow and not under test); the SAT object of an image is
    rebuilt around that image's own traced stream the way the partition parser
    builds it (StreamOffset over the file, offset 0)"""
    key = bytes(data[:PREAMBLE_LEN])
    if key not in _preamble_cache:
        try:
            pre = PreambleParser.parse_stream(io.BytesIO(data))
        except BaseException as e:  # noqa: B902
            _preamble_cache[key] = ("preamble-raise", type(e), str(e))
        else:
            check(type(pre.sat) is SegmentAllocationTable
                  and type(pre.header.partition_stream) is StreamOffset
                  and pre.header.partition_stream.offset == 0, "preamble shape")
            _preamble_cache[key] = (
                "ok", pre.header.total_size, pre.sat.size, pre.sat.sector_links
            )
    cached = _preamble_cache[key]
    if cached[0] == "preamble-raise":
        return cached
    f = TracingFile(data)
    partition_stream = StreamOffset(f, cached[1], offset=0)
    sat = SegmentAllocationTable(partition_stream, cached[2], cached[3])
    return (f, sat)


def describe_file(f):
    item = [type(f).__name__, getattr(f, "name", None), list(getattr(f, "path", []))]
    stream = getattr(f, "_data_stream", None)
    if stream is not None:
        try:
            stream.seek(0)
            item.append(stream.read(4096))
        except BaseException as e:  # noqa: B902
            item.append(("data-raise", type(e), str(e)))
    return item


def run_image(entry_cls, loaded, volume_starts):
    if loaded[0] == "preamble-raise":
        return loaded
    f, sat = loaded
    f.seek(0)
    f.trace.clear()
    out = []
    fe.FileEntry = entry_cls
    try:
        for start in volume_starts:
            f.trace.append(("--- volume", start))
            volume = Volume(
                name="VOL", volume_type=VolumeType.VOLUME_S1000, path=["IMG", "A:", "VOL"],
                routines={}
            )
            try:
                table_stream = sat.get_segment(start)
                adapter = fe.FileEntriesAdapter(sat, fe.FileEntryConstruct)
                entries = adapter.parse_stream(
                    table_stream, _elem_parent=volume, _elem_routines={}
                )
            except BaseException as e:  # noqa: B902
                out.append(("table-raise", type(e), str(e)))
                continue
            row = [("entries", [(type(x).__name__, type(x) is entry_cls, x.name,
                                 str(x.file_type)) for x in entries])]
            volume.file_entries = entries
            for _ in range(2):
                f.trace.append(("--- files",))
                try:
                    files = volume.files
                except BaseException as e:  # noqa: B902
                    row.append(("files-raise", type(e), str(e)))
                else:
                    row.append(("files", [describe_file(x) for x in files]))
            # direct access to each entry afterwards (cached or retried)
            f.trace.append(("--- direct",))
            for x in entries:
                try:
                    got = x.file
                except BaseException as e:  # noqa: B902
                    row.append(("direct-raise", x.name, type(e), str(e)))
                else:
                    row.append(("direct", x.name, type(got).__name__,
                                got is x.__dict__["_file"]))
            out.append(row)
    finally:
        fe.FileEntry = LiveFileEntry
    return ("ok", out, list(f.trace))


def sample(n, seed):
    rng = random.Random(seed)
    return b"\x03" + b"\x00" * 149 + bytes(rng.getrandbits(8) for _ in range(n))


def part_c():
    rng = random.Random(0x18C)
    s1, s2, s3 = sample(200, 1), sample(20000, 2), sample(64, 3)
    volumes = [
        ("VOL ONE", 1, [("SAMPLE A", 0x73, s1), ("SAMPLE B", 0xF3, s2),
                        ("THIRD", 0x73, s3), ("FOURTH", 0xF3, s1)]),
        ("SECOND", 3, [("X", 0x73, s3)]),
        ("EMPTY", 1, []),
    ]
    good = make_partition(16, volumes)
    starts = (3, 10, 12, 4000)
    more_starts = starts + (2, 15)
    images = [("good", good), ("truncated-body", good[:6 * SECT]),
              ("truncated-sample", good[:4 * SECT + 100])]
    ft = 3 * SECT
    for value in range(256):
        for off in (16, 17, 18, 19, 20, 21):     # type, size (3), start (2)
            d = bytearray(good)
            d[ft + 1 * 24 + off] = value
            images.append((f"file[1]+{off}={value:#x}", bytes(d)))
    for entry in (0, 2, 3, 4):
        for field_off in range(24):
            for value in (0x00, 0x0A, 0xD7, 0xFF):
                d = bytearray(good)
                d[ft + entry * 24 + field_off] = value
                images.append((f"file[{entry}]+{field_off}={value:#x}", bytes(d)))
    for _ in range(150):
        d = bytearray(good)
        base = ft + rng.randrange(0, 5) * 24
        for _ in range(rng.randrange(2, 8)):
            d[base + rng.randrange(24)] = rng.getrandbits(8)
        images.append(("random-entry-damage", bytes(d)))
    # damage inside the sample headers (the lazily parsed part)
    for _ in range(150):
        d = bytearray(good)
        base = rng.choice([4, 5, 8, 9, 11]) * SECT
        for _ in range(rng.randrange(1, 6)):
            d[base + rng.randrange(0, 150)] = rng.getrandbits(8)
        images.append(("sample-header-damage", bytes(d)))
    sat_off = PREAMBLE_HDR_LEN + 16 * AKAI_VOLUME_ENTRY_CNT
    for _ in range(40):
        d = bytearray(good)
        for _ in range(rng.randrange(1, 4)):
            idx = rng.randrange(0, 18)
            d[sat_off + 2 * idx:sat_off + 2 * idx + 2] = struct.pack(
                "<H", rng.choice([0, 3, 4, 5, 11, 12, 0x4000, 0x8000, 0xC000,
                                  0xFFFF, rng.randrange(0, 0x10000)])
            )
        images.append(("sat-damage", bytes(d)))

    for label, data in images:
        loaded = load_image(data)
        which = more_starts if label in ("good", "truncated-body", "sat-damage") \
            else starts
        a = run_image(OrigFileEntry, loaded, which)
        b = run_image(LiveFileEntry, loaded, which)
        check(a == b, f"image mismatch {label}: {str(a)[:500]} != {str(b)[:500]}")

    # expected values, independent of the inline copy
    res = run_image(LiveFileEntry, load_image(good), (3, 10, 12))
    check(res[0] == "ok" and all(isinstance(v, list) for v in res[1]),
          f"good image lists: {str(res)[:300]}")
    if res[0] == "ok" and isinstance(res[1][0], list):
        names = [[e[2] for e in v[0][1]] for v in res[1]]
        check(names == [["SAMPLE A", "SAMPLE B", "THIRD", "FOURTH"], ["X"], []],
              f"entry names {names}")
        files = res[1][0][1]
        check(files[0] == "files" and [x[1] for x in files[1]]
              == ["SAMPLE A", "SAMPLE B", "THIRD", "FOURTH"], f"file names {files}")
        check(files[1][0][2] == ["IMG", "A:", "VOL", "SAMPLE A"]
              and files[1][0][-1] == b"", "sample A path/bytes")
        check(res[1][0][2] == files, "second read of files is the same")
    d = bytearray(good)
    d[5 * SECT] = 0x77       # first byte of SAMPLE B's header: no longer a sample
    res = run_image(LiveFileEntry, load_image(bytes(d)), (3,))
    check(res[0] == "ok" and isinstance(res[1][0], list), "damaged header lists")
    if res[0] == "ok" and isinstance(res[1][0], list):
        check([e[2] for e in res[1][0][0][1]]
              == ["SAMPLE A", "SAMPLE B", "THIRD", "FOURTH"], "entries all there")


def main():
    check(fe.FileEntry is LiveFileEntry, "setup")
    part_a()
    part_b()
    part_c()
    check(fe.FileEntry is LiveFileEntry, "module restored")
    print(f"{checked} checks, {len(failures)} failures")
    for msg in failures[:15]:
        print("FAIL:", msg)
    return 1 if failures else 0


if __name__ == "__main__":
    sys.exit(main())
