"""Equivalence demo for r8: get_smpl_chunk_data loop conversion
(smpl_extract/generalized/wav.py).

An inline copy of the ORIGINAL get_smpl_chunk_data is compared with the one in
the tree on a large grid of loop tables (corner values included), sample
rates, root keys and tuning values: returned container (field by field, with
types), the bytes it builds to, and exceptions (type and message).
Exit 0 when everything agrees, 1 otherwise.
"""
import itertools
import math
import sys

from smpl_extract.formats.wav import SmpteFormat
from smpl_extract.formats.wav import WavLoopContainer
from smpl_extract.formats.wav import WavLoopType
from smpl_extract.formats.wav import WavSampleChunkContainer
from smpl_extract.formats.wav import WavSampleChunkStruct
from smpl_extract.generalized import wav as gwav
from smpl_extract.generalized.sample import LoopRegion
from smpl_extract.generalized.sample import LoopType
from smpl_extract.generalized.sample import Sample
from smpl_extract.generalized.wav import get_smpl_normalized_pitch
from smpl_extract.midi import MidiNote


_DEFAULT_SAMPLE_RATE = 44100
def orig_get_smpl_chunk_data(sample):
    # verbatim copy of the original implementation

    sample_rate = sample.sample_rate
    if sample_rate == 0:
        sample_rate = _DEFAULT_SAMPLE_RATE

    loop_type_mapping = {
        LoopType.FORWARD:       WavLoopType.FORWARD,
        LoopType.ALTERNATING:   WavLoopType.ALTERNATING,
        LoopType.REVERSE:       WavLoopType.REVERSE
    }

    loop_headers = []
    if len(sample.loop_regions):
        for i, loop in enumerate(sample.loop_regions):
            play_cnt = 0
            if loop.play_cnt is not None:
                play_cnt = loop.play_cnt
            elif not loop.repeat_forever and loop.duration is not None:
                loop_duration = loop.duration
                loop_total_duration = (loop.end_sample - loop.start_sample)/sample_rate
                if loop_total_duration == 0:
                    continue
                play_cnt = round(loop_duration/loop_total_duration)

            loop_type = loop_type_mapping.get(
                loop.loop_type,
                WavLoopType.FORWARD
            )

            loop_headers.append(WavLoopContainer(
                cue_id=i,
                loop_type=loop_type,
                start_byte=loop.start_sample,
                end_byte=loop.end_sample,
                fraction=0,
                play_cnt=play_cnt
            ))
    sample_period_nano = (10**9)/sample_rate

    pitch_semi = sample.pitch_offset_semi or 0
    pitch_cents = sample.pitch_offset_cents or 0
    note_pitch_offset, pitch_cents_normalized = get_smpl_normalized_pitch(
        pitch_semi,
        pitch_cents
    )
    midi_note = sample.midi_note or MidiNote.from_string("C4")
    adj_note_pitch = MidiNote.from_midi_byte(
        midi_note.to_midi_byte() + note_pitch_offset
    )
    smpl_header = WavSampleChunkContainer(
        manufacturer=0,
        product=0,
        sample_period=round(sample_period_nano),
        midi_note=adj_note_pitch,
        pitch_fraction=pitch_cents_normalized,
        smpte_format=SmpteFormat.NONE,
        smpte_offset=0,
        sample_loops=loop_headers,
        sampler_data=b""
    )
    return smpl_header


def typed(value):
    if isinstance(value, list):
        return [typed(x) for x in value]
    if isinstance(value, dict):
        return (type(value).__name__, [(k, typed(v)) for k, v in value.items()])
    return (type(value).__name__, repr(value))


def observe(fn, sample):
    try:
        result = fn(sample)
    except Exception as e:  # noqa: BLE001 - exceptions are part of behaviour
        return ("exc", type(e).__name__, str(e))
    try:
        built = WavSampleChunkStruct.build(result)
    except Exception as e:  # noqa: BLE001
        built = ("build-exc", type(e).__name__, str(e))
    return ("ok", typed(result), built)


def loop_regions():
    positions = [(0, 0), (0, 1), (5, 5), (10, 4), (0, 44100), (100, 44200),
                 (0, 0xFFFFFFFF), (7, 22057)]
    modes = [
        dict(),                                          # repeat forever
        dict(play_cnt=0),
        dict(play_cnt=3),
        dict(play_cnt=3, repeat_forever=False, duration=9.0),
        dict(repeat_forever=False),                      # no duration
        dict(repeat_forever=True, duration=2.0),
        dict(repeat_forever=False, duration=0.0),
        dict(repeat_forever=False, duration=0.5),
        dict(repeat_forever=False, duration=1.0),
        dict(repeat_forever=False, duration=2.5),
        dict(repeat_forever=False, duration=1e-9),
        dict(repeat_forever=False, duration=12345.678),
        dict(repeat_forever=False, duration=-3.0),
        dict(repeat_forever=False, duration=7),
        dict(repeat_forever=False, duration=math.inf),
        dict(repeat_forever=False, duration=math.nan),
        dict(repeat_forever=0, duration=1.0),
        dict(repeat_forever=None, duration=1.0),
        dict(repeat_forever=False, duration="1"),
    ]
    types = [LoopType.FORWARD, LoopType.ALTERNATING, LoopType.REVERSE, 99, None]
    out = []
    for k, ((start, end), mode) in enumerate(itertools.product(positions, modes)):
        out.append(LoopRegion(start, end, types[k % len(types)], **mode))
    out.append(LoopRegion(None, 5, repeat_forever=False, duration=1.0))
    out.append(LoopRegion(None, 5))
    out.append(LoopRegion(1, 5, loop_type=[1]))
    return out


def samples():
    regions = loop_regions()
    rates = [0, 1, 8000, 22050, 44100, 48000, 96000, -44100, 44100.0, 1 << 31]
    # every single region x every rate
    for region, rate in itertools.product(regions, rates):
        yield Sample(sample_rate=rate, loop_regions=[region])
    # loop tables of several entries (dropped entries keep their cue ids)
    for size in (0, 2, 3, 8):
        for offset in range(0, len(regions) - size, 5):
            for rate in (0, 44100):
                yield Sample(sample_rate=rate,
                             loop_regions=regions[offset:offset + size])
    yield Sample(loop_regions=None)
    yield Sample(loop_regions=tuple(regions[:3]))
    yield Sample(sample_rate=None, loop_regions=regions[:3])
    # header sweep: root key x semitone x cents, with a timed loop
    timed = LoopRegion(10, 22060, LoopType.ALTERNATING,
                       repeat_forever=False, duration=1.75)
    for key in (None, 0, 21, 24, 60, 108, 127, 150):
        note = None if key is None else MidiNote.from_midi_byte(key)
        for semi in (None, -128, -50, -1, 0, 1, 50, 127):
            for cents in (None, -128, -51, -50, -1, 0, 1, 49, 50, 127):
                yield Sample(sample_rate=32000, midi_note=note,
                             pitch_offset_semi=semi, pitch_offset_cents=cents,
                             loop_regions=[timed, LoopRegion(5, 5,
                                 repeat_forever=False, duration=1.0)])


def main():
    n = 0
    bad = 0
    stats = {"ok": 0, "exc": 0, "dropped": 0, "timed": 0}
    for sample in samples():
        a = observe(orig_get_smpl_chunk_data, sample)
        b = observe(gwav.get_smpl_chunk_data, sample)
        n += 1
        stats[a[0]] += 1
        if a[0] == "ok" and isinstance(a[2], bytes):
            cnt = int.from_bytes(a[2][28:32], "little")
            if len(a[2]) != 36 + 24 * cnt:
                print("size relation broken")
                return 1
            try:
                stats["dropped"] += cnt < len(sample.loop_regions)
                stats["timed"] += any(
                    int.from_bytes(a[2][56 + 24 * i:60 + 24 * i], "little") > 0
                    for i in range(cnt))
            except TypeError:
                pass
        if a != b:
            bad += 1
            if bad < 6:
                print("MISMATCH", sample.sample_rate, sample.loop_regions)
                print("   orig:", a)
                print("   new: ", b)
    print(f"{n} cases {stats}, {bad} mismatches")
    if min(stats.values()) < 20:
        print("demo lost its coverage")
        return 1
    return 1 if bad else 0


if __name__ == "__main__":
    sys.exit(main())
