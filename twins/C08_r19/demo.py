"""Equivalence demo for r19 (StreamReversed._read: numpy respelling).

The ORIGINAL StreamReversed._read is pasted into a mix-in placed in front of
StreamReversed (the only adaptation: the zero-argument `super()` of the
original is written `super(StreamReversed, self)` so that, from the mix-in,
it still reaches StreamWrapper._read exactly as it did inside the class).
Twin reversed views (live / original _read) over twin logging images - alone
and nested over/under offset windows, sector streams and chained file
streams - are driven through identical histories of seek / tell / read(n) /
read(None).  Covered: sample widths 1..6 and 8, every aligned and unaligned
(position, size) pair on small views (BadReadSize / BadAlign paths), size 0,
reads at and across the end, views longer than the image (short parent
read -> reshape ValueError), sample_width 0 and non-int widths, direct _read
calls with negative / -1 / oversized sizes, parents returning bytearray /
memoryview / None.  After every call the demo compares the return value and
its type, exception type and text, position / true_size / end_of_file of all
layers and the ordered log of calls on the underlying image.  For aligned
reads the result is also checked against the independently computed
sample-reversed content.  Exit 0 = all agree, 1 = mismatch.
"""
import itertools
import random
import sys
from io import BytesIO, SEEK_CUR, SEEK_END, SEEK_SET

import numpy as np

from smpl_extract.util.fat import FileStream
from smpl_extract.util.sector import SectorStream
from smpl_extract.util.stream import StreamOffset
from smpl_extract.util.stream import StreamReversed
from smpl_extract.util.stream import StreamWrapper


class OrigRead:
    """Original StreamReversed._read (see module docstring about super)."""

    def _read(self, size: int) -> bytes:
        raw = super(StreamReversed, self)._read(size)

        arr = np.frombuffer(raw, np.dtype("int8"))
        num_cols = self.sample_width
        num_rows = size // self.sample_width

        arr = np.reshape(arr, [num_rows, num_cols])
        arr = np.flip(arr, 0)
        arr = arr.flatten(order="C")

        result = arr.tobytes()
        return result


class OReversed(OrigRead, StreamReversed): ...


LIVE = dict(w=StreamWrapper, o=StreamOffset, r=StreamReversed,
            s=SectorStream, f=FileStream)
ORIG = dict(w=StreamWrapper, o=StreamOffset, r=OReversed,
            s=SectorStream, f=FileStream)


class Image(BytesIO):
    """BytesIO that logs every call made on it."""

    kind = bytes

    def __init__(self, data):
        super().__init__(data)
        self.log = []

    def tell(self):
        r = super().tell()
        self.log.append(("tell", r))
        return r

    def seek(self, *a):
        r = super().seek(*a)
        self.log.append(("seek", a, r))
        return r

    def read(self, *a):
        r = super().read(*a)
        self.log.append(("read", a, r))
        if self.kind is None:
            return None
        return self.kind(r)


class ByteArrayImage(Image):
    kind = bytearray


class MemoryViewImage(Image):
    kind = memoryview


class NoneImage(Image):
    kind = None


def call(fn, *a):
    try:
        r = fn(*a)
        return ("ok", type(r).__name__, r)
    except Exception as e:  # noqa: BLE001
        return ("exc", type(e).__name__, str(e))


def state(v):
    out = []
    while isinstance(v, StreamWrapper):
        out.append((v.position, v.true_size, v.end_of_file))
        v = v.substream
    return out


def image_of(v):
    while isinstance(v, StreamWrapper):
        v = v.substream
    return v


def build(classes, spec, data, image_class=Image):
    stream = image_class(data)
    for kind, params in spec:
        stream = classes[kind](stream, **params)
    return stream


def reversed_samples(content, width):
    samples = [content[i:i + width] for i in range(0, len(content), width)]
    return b"".join(reversed(samples))


failures = 0
checks = 0


def compare(tag, spec, data, history, logical=None, image_class=Image):
    global failures, checks
    a = build(LIVE, spec, data, image_class)
    b = build(ORIG, spec, data, image_class)
    for step, (op, args) in enumerate(history):
        before = a.position
        ra = call(getattr(a, op), *args)
        rb = call(getattr(b, op), *args)
        checks += 1
        ok = (ra == rb and state(a) == state(b)
              and image_of(a).log == image_of(b).log)
        if ok and logical is not None and op == "read" and ra[0] == "ok" \
                and args[0] is not None and args[0] >= 0:
            want = logical[before:before + args[0]]
            ok = ra[2] == want and a.position == before + len(want)
        if not ok:
            failures += 1
            if failures <= 10:
                print("MISMATCH", tag, spec, "step", step, op, args)
                print("  live:", ra, state(a))
                print("  orig:", rb, state(b))
            return


def main():
    global failures, checks
    rng = random.Random(1919)

    # 1. all (position, size) pairs, aligned or not, two reads in a row
    for width in (1, 2, 3, 4, 5, 6, 8):
        n = 24
        data = bytes(rng.randrange(256) for _ in range(n + 5))
        size = (n // width) * width
        spec = [("r", dict(size=size, sample_width=width))]
        logical = reversed_samples(data[:size], width)
        for pos in range(0, size + 2):
            for rd in list(range(0, size + 3)) + [None, -1]:
                compare("grid", spec, data,
                        [("seek", (pos, SEEK_SET)), ("read", (rd,)), ("read", (rd,)), ("tell", ())],
                        logical)

    # 2. exhaustive short histories on a tiny view
    data = bytes(range(1, 13))
    ops = [("seek", (o, w)) for o in (-2, 0, 1, 2, 4) for w in (SEEK_SET, SEEK_CUR, SEEK_END)]
    ops += [("read", (k,)) for k in (0, 1, 2, 3, 4, 6, 12, 14, None)] + [("tell", ())]
    for width in (1, 2, 4):
        spec = [("r", dict(size=12, sample_width=width))]
        logical = reversed_samples(data, width)
        for history in itertools.product(ops, repeat=2):
            compare("tiny2", spec, data, history, logical)
        for history in itertools.product(ops[::2], repeat=3):
            compare("tiny3", spec, data, history, logical)

    # 3. odd configurations and error paths
    data = bytes(range(40, 70))
    odd_specs = [
        [("r", dict(size=40, sample_width=2))],        # view longer than image
        [("r", dict(size=64, sample_width=4))],
        [("r", dict(size=0, sample_width=2))],
        [("r", dict(size=30, sample_width=0))],        # ZeroDivisionError path
        [("r", dict(size=30, sample_width=2.0))],
        [("r", dict(size=30, sample_width=True))],
        [("r", dict(size=30, sample_width=-2))],
        [("r", dict(size=30, sample_width=3, position=3))],
        [("r", dict(size=30, sample_width=3, position=4))],
        [("r", dict(size=29, sample_width=2))],        # size not a multiple
        [("r", dict(size=30, sample_width=2, buffer_length=3))],
        [("r", dict(size=30, sample_width=2, buffer_length=4))],
    ]
    for spec in odd_specs:
        for pos in (0, 1, 2, 3, 4, 10, 28, 30, 36, 40):
            for rd in (0, 1, 2, 3, 4, 6, 12, 30, 40, 64, None):
                compare("odd", spec, data,
                        [("seek", (pos, SEEK_SET)), ("read", (rd,)), ("tell", ()), ("read", (2,))])
        # direct calls of the refactored method
        for rd in (-4, -2, -1, 0, 1, 2, 4, 30, 32, 100):
            for pos in (0, 2, 28):
                compare("direct", spec, data,
                        [("seek", (pos, SEEK_SET)), ("_read", (rd,)), ("tell", ()), ("_read", (rd,))])

    # 4. parents whose read returns something else than bytes
    for image_class in (ByteArrayImage, MemoryViewImage, NoneImage):
        for width in (1, 2, 3):
            spec = [("r", dict(size=30, sample_width=width))]
            for pos in (0, 3, 6, 30):
                for rd in (0, 3, 6, 12, 40):
                    compare("kinds", spec, data,
                            [("seek", (pos, SEEK_SET)), ("read", (rd,)), ("read", (rd,))],
                            image_class=image_class)

    # 5. nestings up to depth 4, long random histories
    for _ in range(250):
        n = rng.randrange(8, 80)
        data = bytes(rng.randrange(256) for _ in range(n))
        width = rng.choice([1, 2, 3, 4])
        sl = rng.choice([1, 2, 3, 4, 6])
        cnt = n // sl
        chain = list(range(cnt))
        rng.shuffle(chain)
        flen = cnt * sl
        rlen = (flen // width) * width
        wlen = ((n - 2) // width) * width
        nest = [
            [("o", dict(size=wlen, offset=1)), ("r", dict(size=wlen, sample_width=width))],
            [("f", dict(sector_size=sl, sector_list=chain)),
             ("r", dict(size=rlen, sample_width=width))],
            [("r", dict(size=(n // width) * width, sample_width=width)),
             ("s", dict(size=(n // width) * width, sector_length=width))],
            [("r", dict(size=(n // width) * width, sample_width=width)),
             ("s", dict(size=(n // width) * width, sector_length=sl))],
            [("f", dict(sector_size=sl, sector_list=chain)),
             ("r", dict(size=rlen, sample_width=width)),
             ("o", dict(size=max(rlen - width, 0), offset=width))],
            [("f", dict(sector_size=sl, sector_list=chain)),
             ("r", dict(size=rlen, sample_width=width)),
             ("o", dict(size=max(rlen - 1, 0), offset=1))],
            [("r", dict(size=(n // width) * width, sample_width=width)),
             ("r", dict(size=(n // width) * width, sample_width=width))],
            [("o", dict(size=n, offset=0)),
             ("f", dict(sector_size=sl, sector_list=chain)),
             ("r", dict(size=rlen, sample_width=width)),
             ("r", dict(size=rlen, sample_width=1))],
        ]
        for spec in nest:
            top = build(LIVE, spec, data).end_of_file
            history = []
            for _ in range(40):
                k = rng.random()
                if k < 0.35:
                    history.append(("seek", (rng.randrange(-3, top + 4),
                                             rng.choice([SEEK_SET, SEEK_CUR, SEEK_END]))))
                elif k < 0.5:
                    history.append(("seek", (width * rng.randrange(0, top // width + 1), SEEK_SET)))
                elif k < 0.9:
                    history.append(("read", (rng.choice(
                        [0, 1, width, 2 * width, 3 * width, 5 * width + 1, top, top + width, None]),)))
                else:
                    history.append(("tell", ()))
            compare("nest", spec, data, history)

    print(f"{checks} calls compared, {failures} mismatching histories")
    return 1 if failures else 0


if __name__ == "__main__":
    sys.exit(main())
