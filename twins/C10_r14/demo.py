"""Equivalence demo for r14 (what `ls` renders for a leaf item:
elements.LeafElement.is_public_field / itemize, used by
LeafElement.get_info).

The methods as currently in the tree are compared with an inline copy of the
ORIGINAL implementations:
  * is_public_field on every combination of many `item_name` values (empty,
    underscore-led, excluded, blank, unicode, str subclasses, bytes, lists,
    tuples, None, ints, objects with odd __len__/__getitem__/__eq__) and
    many `excluded_keys` values (omitted, None, [], lists, tuples, sets,
    dicts, a str (substring test), generators, containers whose __contains__
    raises or returns odd values): same result (value and type) or same
    exception;
  * itemize / get_info().to_string() on synthetic LeafElement dataclasses
    (public, private, excluded, nested dataclass, list, dict, empty values,
    a field whose getattr raises, subclasses overriding is_public_field and
    recording its calls): same items, same text, same call sequence;
  * end to end: ls_action on a CDDA bin/cue image (its tracks are
    LeafElements) and on an AKAI image, for found and not-found paths, with
    the original methods patched onto LeafElement versus the tree's methods:
    same stdout.
Exit 0 when all agree, else 1.
"""
import contextlib
from dataclasses import dataclass
from dataclasses import field
from dataclasses import fields
import io
import os
import shutil
import sys
import tempfile
from typing import Any
from typing import ClassVar
from typing import List
from typing import Optional

import smpl_extract.actions as actions
from smpl_extract.akai.data_types import AKAI_PARTITION_MAGIC
from smpl_extract.akai.data_types import AKAI_SAT_ENTRY_CNT
from smpl_extract.akai.data_types import AKAI_SECTOR_SIZE
from smpl_extract.akai.data_types import AKAI_VOLUME_ENTRY_CNT
from smpl_extract.akai.data_types import FILE_TABLE_END_FLAG
from smpl_extract.elements import LeafElement
from smpl_extract.util.dataclass import itemize_general


# ---- ORIGINAL implementations (verbatim) ----------------------------------
def orig_is_public_field(
        self,
        item_name: str,
        excluded_keys: Optional[List[str]] = None
) -> bool:
    if len(item_name) <= 0:
        return False
    if item_name[0] == "_":
        return False
    if excluded_keys is not None:
        if item_name in excluded_keys:
            return False
    return True


def orig_itemize(self):
    DEFAULT_EXCLUDE = [
        "name",
        "path",
        "type_id",
        "type_name",
        "safe_name",
        "export_name"
    ]
    items_dict = {
        k.name: getattr(self, k.name)
        for k in fields(self)
        if self.is_public_field(k.name, DEFAULT_EXCLUDE)
    }
    result = itemize_general(items_dict)
    return result


new_is_public_field = LeafElement.is_public_field
new_itemize = LeafElement.itemize


@contextlib.contextmanager
def original_world():
    """Patch the original methods onto LeafElement itself."""
    saved = (LeafElement.is_public_field, LeafElement.itemize)
    LeafElement.is_public_field = orig_is_public_field
    LeafElement.itemize = orig_itemize
    try:
        yield
    finally:
        LeafElement.is_public_field, LeafElement.itemize = saved


# ---- part 1: is_public_field ----------------------------------------------
class StrSub(str):
    pass


class LiarLen:
    """len() says empty although indexing works."""
    def __len__(self):
        return 0

    def __getitem__(self, index):
        return "x"


class OddFirst:
    """First element compares in an unusual way."""
    class First:
        def __init__(self, eq, ne):
            self.eq, self.ne = eq, ne

        def __eq__(self, other):
            return self.eq

        def __ne__(self, other):
            return self.ne

        def __hash__(self):
            return 1

    def __init__(self, eq, ne):
        self.first = OddFirst.First(eq, ne)

    def __len__(self):
        return 3

    def __getitem__(self, index):
        return self.first

    def __hash__(self):
        return 7

    def __repr__(self):
        return f"OddFirst({self.first.eq!r},{self.first.ne!r})"


class NoIndex:
    def __len__(self):
        return 2


class BoomContains:
    def __contains__(self, item):
        raise RuntimeError("contains")


class OddContains:
    def __init__(self, value):
        self.value = value

    def __contains__(self, item):
        return self.value

    def __repr__(self):
        return f"OddContains({self.value!r})"


ITEM_NAMES = [
    "", "_", "__", "_x", "x", "x_", " ", " _", "name", "path", "type_id",
    "type_name", "safe_name", "export_name", "Name", "names", "nam",
    "start", "ä", "☃_", "\n", "0", StrSub(""), StrSub("_a"),
    StrSub("name"), b"", b"_x", b"name", [], ["_"], ["_x", "y"], ["name"],
    (), ("_",), ("name",), None, 0, 5, 1.5, LiarLen(), NoIndex(),
    OddFirst(True, True), OddFirst(False, False), OddFirst(True, False),
    OddFirst(False, True), OddFirst(0, 1), OddFirst("", "x"),
    range(0), range(3), {"_": 1}, {0: "_"}, frozenset(),
]


def excluded_variants():
    default = ["name", "path", "type_id", "type_name", "safe_name",
               "export_name"]
    return [
        ("omitted", lambda: "omitted"),
        ("none", lambda: None),
        ("empty-list", lambda: []),
        ("default", lambda: list(default)),
        ("tuple", lambda: tuple(default)),
        ("set", lambda: set(default)),
        ("frozenset", lambda: frozenset(default)),
        ("dict", lambda: dict.fromkeys(default)),
        ("str", lambda: "name path start"),
        ("empty-str", lambda: ""),
        ("bytes", lambda: b"name _x"),
        ("generator", lambda: (n for n in default)),
        ("nested", lambda: [["name"], ("name",), ["_"], None, 0]),
        ("boom", lambda: BoomContains()),
        ("odd-true", lambda: OddContains("yes")),
        ("odd-false", lambda: OddContains("")),
        ("odd-zero", lambda: OddContains(0)),
        ("int", lambda: 5),
        ("false", lambda: False),
        ("zero", lambda: 0),
    ]


def call_public(func, owner, item_name, make_excluded):
    excluded = make_excluded()
    try:
        if isinstance(excluded, str) and excluded == "omitted":
            value = func(owner, item_name)
        else:
            value = func(owner, item_name, excluded)
        return ("ok", type(value).__name__, repr(value))
    except BaseException as exc:  # noqa: B902
        return ("exc", type(exc).__name__, str(exc))


# ---- part 2: itemize / get_info on synthetic leaves -----------------------
@dataclass
class Inner:
    depth: int = 3
    _hidden: str = "inner private is still shown by itemize_general"
    label: str = "in"


class Explosive:
    """Descriptor whose read fails."""
    def __get__(self, obj, objtype=None):
        if obj is None:
            return self
        raise ValueError("cannot read")


def make_leaf_classes():
    @dataclass
    class Plain(LeafElement):
        name: str = "PLAIN"
        type_name: str = "Thing"
        start: int = 4
        end: int = 9
        _private: int = 1
        path: Any = None
        safe_name_: str = "kept"
        export_name: str = "dropped"
        type_id: Any = 2
        notes: Any = field(default_factory=lambda: ["a", ["b", "c"], ()])
        inner: Any = field(default_factory=Inner)
        table: Any = field(default_factory=lambda: {"k": "v", "e": {}, "n": 1})
        blank: str = ""
        nothing: Any = None
        raw: bytes = b"\x00\x01"

    @dataclass
    class Empty(LeafElement):
        name: str = ""
        type_name: str = ""

    @dataclass
    class OnlyPrivate(LeafElement):
        name: str = "x"
        type_name: str = "t"
        _a: int = 1
        __b: int = 2

    @dataclass
    class Recording(LeafElement):
        name: str = "REC"
        type_name: str = "Rec"
        alpha: int = 1
        _beta: int = 2
        gamma: str = "g"
        log: ClassVar[list] = []

        def is_public_field(self, item_name, excluded_keys=None):
            self.log.append((
                item_name, type(excluded_keys).__name__,
                None if excluded_keys is None else list(excluded_keys),
            ))
            if item_name == "gamma":
                return False
            return super().is_public_field(item_name, excluded_keys)

    @dataclass
    class Mutating(LeafElement):
        """An override that (ab)uses the list it is handed."""
        name: str = "MUT"
        type_name: str = "Mut"
        alpha: int = 1
        beta: int = 2
        seen: ClassVar[list] = []

        def is_public_field(self, item_name, excluded_keys=None):
            self.seen.append(len(excluded_keys))
            return super().is_public_field(item_name, excluded_keys)

    @dataclass
    class Failing(LeafElement):
        name: str = "FAIL"
        type_name: str = "Fail"
        good: int = 1
        bad: Any = None

    Failing.bad = Explosive()

    @dataclass
    class Unsized(LeafElement):
        name: str = "UNS"
        type_name: str = "Uns"
        value: Any = field(default_factory=lambda: {"weird": iter(())})

    return [Plain, Empty, OnlyPrivate, Recording, Mutating, Failing, Unsized]


def exercise_leaf(cls):
    out = []
    if hasattr(cls, "log"):
        cls.log.clear()
    if hasattr(cls, "seen"):
        cls.seen.clear()
    for attempt in range(2):
        try:
            leaf = cls()
        except BaseException as exc:  # noqa: B902
            out.append(("ctor-exc", type(exc).__name__, str(exc)))
            continue
        for label, call in (
            ("itemize", lambda: repr(leaf.itemize())),
            ("info", lambda: leaf.get_info().to_string()),
        ):
            try:
                out.append((label, call()))
            except BaseException as exc:  # noqa: B902
                out.append((label + "-exc", type(exc).__name__, str(exc)))
    out.append(("log", repr(getattr(cls, "log", None))))
    out.append(("seen", repr(getattr(cls, "seen", None))))
    out.append(("fields", [f.name for f in fields(cls)]))
    return out


# ---- part 3: end to end ---------------------------------------------------
def akai_name(text):
    out = []
    for ch in text.ljust(12)[:12]:
        if ch.isdigit():
            out.append(ord(ch) - ord("0"))
        elif "A" <= ch <= "Z":
            out.append(0x0B + ord(ch) - ord("A"))
        else:
            out.append({" ": 0x0A, "#": 0x25, "+": 0x26, "-": 0x27,
                        ".": 0x28}[ch])
    return bytes(out)


def make_partition(sectors, volumes=()):
    header = (
        sectors.to_bytes(2, "little") + b"\x00\x00" + AKAI_PARTITION_MAGIC
        + bytes([0x55, 0xBA]) + b"\x2f\x00"
    )
    sat = [0] * AKAI_SAT_ENTRY_CNT
    entries = b""
    bodies = {}
    next_sector = 4
    for n in range(AKAI_VOLUME_ENTRY_CNT):
        if n < len(volumes):
            name, vtype = volumes[n]
            entries += (
                akai_name(name) + vtype.to_bytes(2, "little")
                + next_sector.to_bytes(2, "little")
            )
            sat[next_sector] = 0xC000
            body = bytearray(AKAI_SECTOR_SIZE)
            body[8:10] = FILE_TABLE_END_FLAG.to_bytes(2, "little")
            bodies[next_sector] = bytes(body)
            next_sector += 1
        else:
            entries += bytes([0x0A] * 12) + b"\x00\x00\x00\x00"
    for s in range(4):
        sat[s] = 0x4000
    sat_bytes = b"".join(v.to_bytes(2, "little") for v in sat)
    blob = bytearray(sectors * AKAI_SECTOR_SIZE)
    head = header + entries + sat_bytes
    blob[:len(head)] = head
    for sector, body in bodies.items():
        blob[sector * AKAI_SECTOR_SIZE:(sector + 1) * AKAI_SECTOR_SIZE] = body
    return bytes(blob)


def write_files(root):
    vols_a = (("VOLUME 001", 1), ("VOLUME 002", 3), ("VOLUME 001", 1))
    files = {
        "akai.img": make_partition(8, vols_a),
        "audio.bin": bytes(2352 * 75 * 3),
        "audio.cue": (
            b"FILE \"audio.bin\" BINARY\n  TRACK 01 AUDIO\n"
            b"    TITLE \"First\"\n    INDEX 01 00:00:00\n"
            b"  TRACK 02 AUDIO\n    INDEX 01 00:01:00\n"
            b"  TRACK 03 AUDIO\n    TITLE \"First\"\n    INDEX 01 00:02:00\n"
        ),
    }
    for name, data in files.items():
        with open(os.path.join(root, name), "wb") as handle:
            handle.write(data)


LS_PATHS = [
    "", "/", "First", " First ", "First/", "first", "First (2)",
    "First (2)\\", "First (3)", "Untitled Track 2", "Untitled Track 2/x",
    "Untitled Track 9", "A", "A/VOLUME 001", "A/VOLUME 001 (2)/", "nope",
    "☃",
]


def run_ls(target, path):
    buf = io.StringIO()
    try:
        with contextlib.redirect_stdout(buf):
            actions.ls_action(target, path)
        return ("ok", buf.getvalue())
    except BaseException as exc:  # noqa: B902
        return ("exc", type(exc).__name__, str(exc), buf.getvalue())


def main():
    failures = 0
    checked = 0

    owner = LeafElement()
    for item_name in ITEM_NAMES:
        for label, make_excluded in excluded_variants():
            expected = call_public(
                orig_is_public_field, owner, item_name, make_excluded)
            actual = call_public(
                new_is_public_field, owner, item_name, make_excluded)
            checked += 1
            if expected != actual:
                failures += 1
                if failures <= 5:
                    print("MISMATCH is_public_field", repr(item_name), label)
                    print("  expected", expected)
                    print("  actual  ", actual)

    # the classes are created afresh for each world so that class-level
    # recorders do not leak from one run into the other
    with original_world():
        expected_all = [
            (cls.__name__, exercise_leaf(cls)) for cls in make_leaf_classes()
        ]
    actual_all = [
        (cls.__name__, exercise_leaf(cls)) for cls in make_leaf_classes()
    ]
    for expected, actual in zip(expected_all, actual_all):
        checked += 1
        if expected != actual:
            failures += 1
            print("MISMATCH leaf", expected[0])
            for a, b in zip(expected[1], actual[1]):
                if a != b:
                    print("  expected", a)
                    print("  actual  ", b)
    if "start:" not in str(expected_all[0]) or "_private" in str(
            expected_all[0][1][0]):
        print("synthetic leaf did not render as intended")
        failures += 1

    root = tempfile.mkdtemp()
    try:
        write_files(root)
        saw_leaf = False
        for name in ("audio.cue", "akai.img"):
            target = os.path.join(root, name)
            for path in LS_PATHS:
                with original_world():
                    expected = run_ls(target, path)
                actual = run_ls(target, path)
                checked += 1
                if expected[0] == "ok" and "num_channels:" in expected[1] \
                        and "-" * 80 in expected[1]:
                    saw_leaf = True
                if expected != actual:
                    failures += 1
                    if failures <= 5:
                        print("MISMATCH ls", name, repr(path))
                        print("  expected", expected)
                        print("  actual  ", actual)
        if not saw_leaf:
            print("fixtures never rendered a leaf info tree")
            failures += 1
    finally:
        shutil.rmtree(root, ignore_errors=True)

    print(f"checked {checked} cases, {failures} mismatches")
    return 1 if failures else 0


if __name__ == "__main__":
    sys.exit(main())
