"""Equivalence demo for r11: smpl_extract.transcoder.PassthroughTranscoder.__next__.

The method is compared with an inline copy of the ORIGINAL on scripted
streams: plain byte streams of many lengths/frame sizes/block sizes, streams
that deliver short reads, raise SectorReadError (or a subclass, or another
exception) at the n-th read, or return None / bytearray / memoryview.  For
every call the outcome (bytes, or exception type + message + type of the
chained __context__), and the log of read() calls on the shared stream must be
identical.  Finally make_transcoder's passthrough path is run end to end.
Exit 0 when everything agrees, 1 otherwise.
"""
from io import BytesIO
import sys

import numpy as np

import smpl_extract.transcoder as T
from smpl_extract.data_streams import DataStream
from smpl_extract.data_streams import Endianess
from smpl_extract.data_streams import StreamEncoding
from smpl_extract.util.stream import SectorReadError


def next_ORIG(self):
    stream = self.data_stream.stream
    try:
        buffer = stream.read(self.buffer_size)
    except T.SectorReadError as e:
        raise StopIteration

    frame_size = self.data_stream.frame_size
    buffer = T.resize_buffer(buffer, frame_size)

    if len(buffer) <= 0:
        raise StopIteration

    return buffer


class SubSectorReadError(SectorReadError):
    pass


class Scripted:
    """Stream whose read() results are scripted; logs every call."""

    def __init__(self, script):
        self.script = list(script)
        self.log = []
        self.i = 0

    def read(self, size=-1):
        self.log.append(("read", size))
        if self.i >= len(self.script):
            return b""
        item = self.script[self.i]
        self.i += 1
        if isinstance(item, BaseException):
            raise item
        if callable(item):
            return item(size)
        return item

    def seek(self, pos, whence=0):
        self.log.append(("seek", pos, whence))
        return 0


class LoggedBytesIO(BytesIO):
    def __init__(self, data):
        super().__init__(data)
        self.log = []

    def read(self, size=-1):
        self.log.append(("read", size, self.tell()))
        return super().read(size)


def drive(next_fn, tr, max_calls):
    """Call next max_calls times (also after exhaustion)."""
    outs = []
    for _ in range(max_calls):
        try:
            r = next_fn(tr)
        except BaseException as e:  # noqa
            ctx = e.__context__
            outs.append(("exc", type(e), str(e),
                         type(ctx) if ctx is not None else None,
                         e.__suppress_context__))
        else:
            val = bytes(r) \
                if isinstance(r, (bytes, bytearray, memoryview)) else repr(r)
            outs.append(("ok", type(r), val))
    return outs


def main():
    bad = 0
    n = 0
    new = T.PassthroughTranscoder.__next__
    rng = np.random.default_rng(1211)

    # 1. plain byte streams
    for width, nch in ((1, 1), (2, 1), (2, 2), (4, 1), (4, 3), (1, 3)):
        enc = StreamEncoding(Endianess.LITTLE, width, nch, True)
        fs = width * nch
        for nbytes in list(range(0, 3 * fs + 2)) + [64, 65, 100, 4096, 4099]:
            data = rng.integers(0, 256, nbytes, dtype=np.uint8).tobytes()
            for bsz in (1, fs, fs + 1, 2 * fs, 7, 16, 4096, 0, -1):
                res = []
                for fn in (next_ORIG, new):
                    s = LoggedBytesIO(data)
                    tr = T.PassthroughTranscoder(DataStream(s, enc), bsz)
                    calls = min(40, nbytes // max(1, bsz) + 4) \
                        if bsz > 0 else 4
                    res.append((drive(fn, tr, calls), s.log))
                n += 1
                if res[0] != res[1]:
                    bad += 1
                    print("MISMATCH", width, nch, nbytes, bsz)

    # 2. scripted streams
    scripts = [
        [b"abcd", b"ef", b"", b"gh"],
        [b"abcd", SectorReadError("bad sector"), b"abcd"],
        [SectorReadError()],
        [b"ab", SubSectorReadError("sub"), b"cd"],
        [b"abcd", OSError("io"), b"abcd"],
        [b"abcd", ValueError("v"), b"abcd"],
        [b"abcd", StopIteration("inner"), b"abcd"],
        [b"abcd", KeyboardInterrupt(), b"abcd"],
        [b"abc", b"a", b"abcdefg", b"", b""],
        [None, b"abcd"],
        [bytearray(b"abcdef"), memoryview(b"abcdefgh"), b"xy"],
        [b"", b"abcd"],
        [lambda size: b"x" * size, lambda size: b"y" * (size + 1),
         lambda size: b"z" * max(0, size - 1)],
        [12345, b"abcd"],
        ["text", "te", b"abcd"],
    ]
    encs = [
        StreamEncoding(Endianess.LITTLE, 1, 1, True),
        StreamEncoding(Endianess.BIG, 2, 1, True),
        StreamEncoding(Endianess.LITTLE, 2, 2, False),
        StreamEncoding(Endianess.LITTLE, 4, 3, True),
        StreamEncoding(Endianess.LITTLE, 2, 0, True),   # frame_size 0
    ]
    for script in scripts:
        for enc in encs:
            for bsz in (1, 2, 4, 6, 4096):
                res = []
                for fn in (next_ORIG, new):
                    s = Scripted(script)
                    tr = T.PassthroughTranscoder(DataStream(s, enc), bsz)
                    res.append((drive(fn, tr, len(script) + 2), s.log))
                n += 1
                if res[0] != res[1]:
                    bad += 1
                    print("SCRIPT MISMATCH", script, enc, bsz)
                    print("  ", res[0])
                    print("  ", res[1])

    # 3. end to end through make_transcoder (passthrough is selected when one
    # stream already has the destination encoding); for-loop protocol
    for width, nch in ((1, 1), (2, 1), (2, 2), (4, 3)):
        for order in (Endianess.LITTLE, Endianess.BIG):
            enc = StreamEncoding(order, width, nch, True)
            for nbytes in (0, 1, width * nch, 5 * width * nch + 1, 9001):
                data = rng.integers(0, 256, nbytes, dtype=np.uint8).tobytes()
                res = []
                for fn in (next_ORIG, new):
                    s = LoggedBytesIO(data)
                    tr = T.make_transcoder([DataStream(s, enc)], enc)
                    assert isinstance(tr, T.PassthroughTranscoder)
                    saved = T.PassthroughTranscoder.__next__
                    T.PassthroughTranscoder.__next__ = fn
                    try:
                        out = [bytes(b) for b in tr]
                    finally:
                        T.PassthroughTranscoder.__next__ = saved
                    res.append((out, s.log))
                n += 1
                if res[0] != res[1]:
                    bad += 1
                    print("E2E MISMATCH", width, nch, order, nbytes)
                whole = nbytes - nbytes % (width * nch)
                if b"".join(res[1][0]) != data[:whole] and \
                        nbytes % (width * nch) == 0:
                    bad += 1
                    print("E2E CONTENT", width, nch, order, nbytes)

    print(f"{n} cases, {bad} mismatches")
    return 1 if bad else 0


if __name__ == "__main__":
    sys.exit(main())
