"""Equivalence demo for r12: WavRiffChunkType / WavRiffBodyStruct declarations
(smpl_extract/formats/wav.py).

An inline copy of the ORIGINAL declarations (chunk type enum, chunk struct,
RIFF body struct, RIFF struct) is compared with the ones in the tree:
  * the enum construct's tables (names, values, value types, order), attribute
    access and encode/decode of known, unknown and invalid ids;
  * the declared layout of the structs (field names, order, construct types,
    flags, sizeof outcome);
  * bytes built from many RIFF containers (fmt / smpl with 0..n loops / data
    chunk from lists and generators, chunk order permutations, unknown and
    invalid chunk ids, missing keys) or the build exception (type + message);
  * parse results (fully evaluated) and parse exceptions on well-formed,
    truncated and corrupted byte strings;
  * complete exports through WavSampleAdapter over both RIFF structs.
Exit 0 when everything agrees, 1 otherwise.
"""
import io
import itertools
import sys

from construct.core import Const
from construct.core import Enum as EnumConstruct
from construct.core import GreedyRange
from construct.core import Int32ul
from construct.core import Prefixed
from construct.core import Struct
from construct.core import Switch
from construct.expr import this
from construct.lib.containers import Container
from construct.lib.containers import ListContainer

from smpl_extract.data_streams import DataStream
from smpl_extract.data_streams import Endianess
from smpl_extract.data_streams import StreamEncoding
from smpl_extract.formats import wav as fwav
from smpl_extract.formats.wav import WavDataChunkStruct
from smpl_extract.formats.wav import WavFormatChunkContainer
from smpl_extract.formats.wav import WavFormatChunkStruct
from smpl_extract.formats.wav import WavLoopContainer
from smpl_extract.formats.wav import WavLoopType
from smpl_extract.formats.wav import WavSampleChunkContainer
from smpl_extract.formats.wav import WavSampleChunkStruct
from smpl_extract.generalized.sample import LoopRegion
from smpl_extract.generalized.sample import Sample
from smpl_extract.generalized.wav import WavSampleAdapter
from smpl_extract.midi import MidiNote
from smpl_extract.util import bytes2int


# ---- verbatim copy of the original declarations -----------------------------
OrigWavRiffChunkType = EnumConstruct(
    Int32ul,
    FMT=bytes2int(b"fmt "),
    SMPL=bytes2int(b"smpl"),
    DATA=bytes2int(b"data"),
)
OrigWavRiffChunkStruct = Struct(
    "riff_id"   / OrigWavRiffChunkType,
    "data"      / Prefixed(Int32ul,
        Switch(this.riff_id, {
            OrigWavRiffChunkType.FMT:  WavFormatChunkStruct,
            OrigWavRiffChunkType.SMPL: WavSampleChunkStruct,
            OrigWavRiffChunkType.DATA: WavDataChunkStruct
        })
    )
)


OrigWavRiffBodyStruct = Struct(
    "fourcc"    / Const(b"WAVE"),
    "chunks"    / GreedyRange(OrigWavRiffChunkStruct)
)


OrigRiffStruct = Struct(
    "fourcc"    / Const(b"RIFF"),
    "data"      / Prefixed(Int32ul, OrigWavRiffBodyStruct),
)
# -----------------------------------------------------------------------------

failures = 0
checked = 0


def check(label, a, b):
    global failures, checked
    checked += 1
    if a != b:
        failures += 1
        if failures <= 10:
            print("MISMATCH", label)
            print("  orig:", repr(a)[:600])
            print("  new: ", repr(b)[:600])


def outcome(func, *args):
    try:
        return ("ok", func(*args))
    except BaseException as e:  # noqa
        return ("exc", type(e).__name__, str(e))


# ---- 1. enum construct tables ------------------------------------------------
def enum_tables(enum):
    def norm(x):
        return (type(x).__name__, str(x), int(x) if not isinstance(x, str) else getattr(x, "intvalue", None))
    return {
        "enc": [(norm(k), norm(v)) for k, v in enum.encmapping.items()],
        "dec": [(norm(k), norm(v)) for k, v in enum.decmapping.items()],
        "ksy": [(norm(k), norm(v)) for k, v in enum.ksymapping.items()],
        "subcon": enum.subcon is Int32ul,
        "flagbuildnone": enum.flagbuildnone,
    }


check("enum tables", enum_tables(OrigWavRiffChunkType), enum_tables(fwav.WavRiffChunkType))
for name in ("FMT", "SMPL", "DATA", "fmt", "LIST", "encmapping", "name", "_x"):
    def get(enum, name=name):
        v = getattr(enum, name)
        return (type(v).__name__, str(v), getattr(v, "intvalue", None))
    check(("enum attr", name), outcome(get, OrigWavRiffChunkType), outcome(get, fwav.WavRiffChunkType))

id_values = [
    "FMT", "SMPL", "DATA", "fmt ", "LIST", "", None, 0, 1, -1, 2**32 - 1, 2**32,
    bytes2int(b"fmt "), bytes2int(b"smpl"), bytes2int(b"data"), bytes2int(b"LIST"),
    b"fmt ", 1.5, True,
]
for value in id_values:
    check(("enum build", value),
          outcome(OrigWavRiffChunkType.build, value),
          outcome(fwav.WavRiffChunkType.build, value))
for raw in [b"fmt ", b"smpl", b"data", b"LIST", b"\0\0\0\0", b"\xff\xff\xff\xff", b"fm", b"", b"data+more"]:
    def parse(enum, raw=raw):
        v = enum.parse(raw)
        return (type(v).__name__, str(v), int(v))
    check(("enum parse", raw), outcome(parse, OrigWavRiffChunkType), outcome(parse, fwav.WavRiffChunkType))


# ---- 2. declared layout ------------------------------------------------------
def layout(con, depth=0):
    desc = [type(con).__name__, getattr(con, "name", None), con.flagbuildnone]
    if hasattr(con, "value"):
        desc.append(("value", con.value))
    if hasattr(con, "encmapping"):
        desc.append(("enum", sorted((str(k), int(v)) for k, v in con.encmapping.items())))
    if hasattr(con, "cases"):
        desc.append(("cases", [(type(k).__name__, str(k), layout(v, depth + 1)) for k, v in con.cases.items()]))
    if hasattr(con, "lengthfield"):
        desc.append(("lengthfield", layout(con.lengthfield, depth + 1), con.includelength))
    if hasattr(con, "subcons"):
        desc.append(("subcons", [layout(sc, depth + 1) for sc in con.subcons]))
        desc.append(("_subcons", list(con._subcons.keys())))
    elif hasattr(con, "subcon") and depth < 12:
        desc.append(("subcon", layout(con.subcon, depth + 1)))
    desc.append(("sizeof", outcome(con.sizeof)))
    return desc


check("layout body", layout(OrigWavRiffBodyStruct), layout(fwav.WavRiffBodyStruct))
check("layout riff", layout(OrigRiffStruct), layout(fwav.RiffStruct))
check("layout chunk", layout(OrigWavRiffChunkStruct), layout(fwav.WavRiffChunkStruct))


# ---- 3./4. build and parse ---------------------------------------------------
def evaluate(obj):
    """Fully evaluate a parse result (Lazy data chunks are callables)."""
    if callable(obj) and not isinstance(obj, (dict, list)):
        obj = obj()
    if isinstance(obj, dict):
        return (type(obj).__name__, [(k, evaluate(v)) for k, v in obj.items() if k != "_io"])
    if isinstance(obj, (list, tuple)):
        return (type(obj).__name__, [evaluate(v) for v in obj])
    return (type(obj).__name__, repr(obj))


def build_and_parse(structs, make_obj):
    riff, body, chunk_type = structs
    out = []
    res = outcome(riff.build, make_obj(chunk_type))
    out.append(res)
    if res[0] == "ok":
        raw = res[1]
        out.append(outcome(lambda: evaluate(riff.parse(raw))))
        out.append(outcome(lambda: evaluate(body.parse(raw[8:]))))
        for cut in (0, 3, 4, 7, 8, 11, 12, 15, 19, 20, 24, len(raw) // 2, len(raw) - 1):
            out.append(outcome(lambda cut=cut: evaluate(riff.parse(raw[:cut]))))
        corrupted = bytearray(raw)
        for pos in (0, 4, 5, 8, 12, 16, 17, 20):
            if pos < len(corrupted):
                saved = corrupted[pos]
                corrupted[pos] ^= 0x41
                out.append(outcome(lambda: evaluate(riff.parse(bytes(corrupted)))))
                corrupted[pos] = saved
    return out


ORIG = (OrigRiffStruct, OrigWavRiffBodyStruct, OrigWavRiffChunkType)
TREE = (fwav.RiffStruct, fwav.WavRiffBodyStruct, fwav.WavRiffChunkType)


def fmt_data(channels, rate, bits):
    return WavFormatChunkContainer(audio_format=1, channel_cnt=channels, sample_rate=rate, bits_per_sample=bits)


def smpl_data(n_loops, note=60):
    loops = [
        WavLoopContainer(cue_id=i, loop_type=WavLoopType(i % 3), start_byte=i * 10,
                         end_byte=i * 10 + 100, fraction=0, play_cnt=i)
        for i in range(n_loops)
    ]
    return WavSampleChunkContainer(
        sample_period=22676, midi_note=MidiNote.from_midi_byte(note),
        pitch_fraction=n_loops * 1000, sample_loops=loops,
    )


def gen_blocks(blocks):
    return (b for b in blocks)


block_sets = [
    [], [b""], [b"ab"], [b"abcd", b"efgh"], [b"\x00" * 4096, b"\x01" * 4096, b"\x02" * 10],
    [bytes(range(256))] * 5,
]


def rid(chunk_type, name):
    return getattr(chunk_type, name)


for (channels, rate, bits), n_loops, blocks, as_gen in itertools.product(
        [(1, 44100, 16), (2, 48000, 16), (2, 0, 8), (65535, 2**32 - 1, 65528)],
        [None, 0, 1, 2, 8],
        block_sets,
        [False, True]):
    def make_obj(chunk_type, channels=channels, rate=rate, bits=bits,
                 n_loops=n_loops, blocks=blocks, as_gen=as_gen):
        chunks = [Container({"riff_id": rid(chunk_type, "FMT"), "data": fmt_data(channels, rate, bits)})]
        if n_loops is not None:
            chunks.append(Container({"riff_id": rid(chunk_type, "SMPL"), "data": smpl_data(n_loops)}))
        data = gen_blocks(blocks) if as_gen else list(blocks)
        chunks.append(Container({"riff_id": rid(chunk_type, "DATA"), "data": data}))
        return Container({"data": Container({"chunks": chunks})})
    check(("riff", channels, rate, bits, n_loops, len(blocks), as_gen),
          build_and_parse(ORIG, make_obj), build_and_parse(TREE, make_obj))

# chunk order permutations, ids given as str / int / EnumIntegerString, bad ids, missing keys
id_spellings = {
    "attr": lambda ct, n: getattr(ct, n),
    "str": lambda ct, n: n,
    "int": lambda ct, n: {"FMT": bytes2int(b"fmt "), "SMPL": bytes2int(b"smpl"), "DATA": bytes2int(b"data")}[n],
}
for perm in itertools.permutations(["FMT", "SMPL", "DATA"]):
    for count in (0, 1, 2, 3):
        for spelling, f_id in id_spellings.items():
            def make_obj(chunk_type, perm=perm, count=count, f_id=f_id):
                payload = {"FMT": fmt_data(2, 44100, 16), "SMPL": smpl_data(3), "DATA": [b"abcdefgh"]}
                chunks = [Container({"riff_id": f_id(chunk_type, n), "data": payload[n]}) for n in perm[:count]]
                return Container({"data": Container({"chunks": chunks})})
            check(("perm", perm, count, spelling),
                  build_and_parse(ORIG, make_obj), build_and_parse(TREE, make_obj))

bad_objects = [
    lambda ct: Container({"data": Container({"chunks": [Container({"riff_id": "LIST", "data": [b"x"]})]})}),
    lambda ct: Container({"data": Container({"chunks": [Container({"riff_id": bytes2int(b"LIST"), "data": [b"x"]})]})}),
    lambda ct: Container({"data": Container({"chunks": [Container({"riff_id": None, "data": None})]})}),
    lambda ct: Container({"data": Container({"chunks": [Container({"riff_id": ct.FMT})]})}),
    lambda ct: Container({"data": Container({"chunks": [Container({"data": [b"x"]})]})}),
    lambda ct: Container({"data": Container({"chunks": None})}),
    lambda ct: Container({"data": Container({})}),
    lambda ct: Container({"data": Container({"fourcc": b"WAVE", "chunks": []})}),
    lambda ct: Container({"data": Container({"fourcc": b"EVAW", "chunks": []})}),
    lambda ct: Container({"fourcc": b"RIFX", "data": Container({"chunks": []})}),
    lambda ct: Container({}),
    lambda ct: None,
    lambda ct: Container({"data": Container({"chunks": [Container({"riff_id": ct.DATA, "data": [b"x", 5]})]})}),
    lambda ct: Container({"data": Container({"chunks": [Container({"riff_id": ct.SMPL, "data": fmt_data(1, 1, 8)})]})}),
]
for idx, make_obj in enumerate(bad_objects):
    check(("bad", idx), build_and_parse(ORIG, make_obj), build_and_parse(TREE, make_obj))

# raw parse inputs
raw_inputs = [
    b"", b"RIFF", b"RIFF\x04\x00\x00\x00WAVE", b"RIFF\x04\x00\x00\x00WAVX", b"RIFF\x03\x00\x00\x00WAVE",
    b"RIFF\x10\x00\x00\x00WAVEdata\x04\x00\x00\x00abcd",
    b"RIFF\x10\x00\x00\x00WAVELIST\x04\x00\x00\x00abcd",
    b"RIFF\x10\x00\x00\x00WAVEdata\x08\x00\x00\x00abcd",
    b"RIFF\xff\xff\xff\xffWAVEdata\x04\x00\x00\x00abcd",
    b"RIFF\x10\x00\x00\x00WAVEdata\x04\x00\x00\x00abcdTRAILING",
]
for raw in raw_inputs:
    check(("raw riff", raw),
          outcome(lambda: evaluate(OrigRiffStruct.parse(raw))),
          outcome(lambda: evaluate(fwav.RiffStruct.parse(raw))))
    check(("raw body", raw),
          outcome(lambda: evaluate(OrigWavRiffBodyStruct.parse(raw[8:]))),
          outcome(lambda: evaluate(fwav.WavRiffBodyStruct.parse(raw[8:]))))


# ---- 5. complete exports -----------------------------------------------------
def export(riff_struct, rate, width, n_streams, n_bytes, note, loops, big):
    payload = bytes((i * 31 + 7) % 256 for i in range(n_bytes))
    enc = StreamEncoding(
        endianess=Endianess.BIG if big else Endianess.LITTLE,
        sample_width=width, num_interleaved_channels=1,
    )
    streams = [DataStream(io.BytesIO(payload[i:]), enc) for i in range(n_streams)]
    sample = Sample(
        name="x", sample_rate=rate, num_channels=n_streams, data_streams=streams,
        midi_note=note, loop_regions=list(loops),
    )
    out = io.BytesIO()
    try:
        WavSampleAdapter(riff_struct).build_stream(sample, out)
    except BaseException as e:  # noqa
        return ("exc", type(e).__name__, str(e), out.getvalue())
    return ("ok", out.getvalue())


loop_sets = [
    [],
    [LoopRegion(start_sample=1, end_sample=99)],
    [LoopRegion(start_sample=0, end_sample=0, repeat_forever=False, duration=1.0),
     LoopRegion(start_sample=5, end_sample=500, play_cnt=3)],
]
for rate, width, n_streams, n_bytes, note, loops, big in itertools.product(
        (0, 22050, 44100), (1, 2), (0, 1, 2), (0, 1, 9, 4096, 10001),
        (None, MidiNote.from_midi_byte(60)), loop_sets, (False, True)):
    args = (rate, width, n_streams, n_bytes, note, loops, big)
    check(("export", rate, width, n_streams, n_bytes, str(note), len(loops), big),
          export(OrigRiffStruct, *args), export(fwav.RiffStruct, *args))

print(f"checked {checked} cases, {failures} mismatches")
sys.exit(1 if failures else 0)
