"""Equivalence demo for refactoring r2 (FirFilter.get_remaining + convolve_valid helper in smpl_extract/filters/fir.pyx).

The class FirFilter in fir.pyx is plain Python (no cdef), so this demo
  * extracts the text of `class FirFilter` from the fir.pyx that is in the tree
    (refactored or not) and exec()s it  -> LIVE implementation,
  * compares it against an inline copy of the ORIGINAL implementation (ORIG),
  * and against the pre-built extension module (the code that really runs).
All three must agree on return values (dtype, shape, bytes), on the filter
state after every call and on raised exception types, for every block split.
Exit code 0 = all agree, 1 = some difference.
"""
import itertools
import os
import random
import sys

import numpy as np

import smpl_extract.filters.fir as compiled_fir
from smpl_extract.filters import common


# ---------------------------------------------------------------- ORIGINAL --
class OrigFirFilter:

    def __init__(self, h, delay_offset=0):
        self.N = len(h)
        self.h = h
        self.m0 = delay_offset
        self.m1 = self.N - self.m0 - 1
        self.x_prev = np.zeros(self.m1)

    def reset_state(self, **kwargs):
        x_prev = kwargs.get("x_prev", None)
        x_prev = x_prev or np.zeros(self.m1)
        self.x_prev = x_prev

    def convolve_valid(self, x, h):
        if np.size(x) < np.size(h):
            return np.asarray([], dtype=x.dtype)
        y = np.convolve(x, h, "valid")
        return y

    def process(self, x):
        dtype = x.dtype
        x_full = np.concatenate([self.x_prev, x])
        self.x_prev = x[-(self.N - 1):]
        y = self.convolve_valid(x_full, self.h).astype(dtype)
        return y

    def get_remaining(self):
        dtype = self.x_prev.dtype
        x_full = np.concatenate([self.x_prev, np.zeros(self.m0)])
        y = self.convolve_valid(x_full, self.h).astype(dtype)
        self.reset_state()
        return y


# -------------------------------------------------------------------- LIVE --
def load_live_fir():
    path = os.path.join(os.path.dirname(compiled_fir.__file__), "fir.pyx")
    text = open(path).read()
    start = text.index("class FirFilter:")
    end = text.index("# -- Chicken Sys --")
    ns = {"np": np}
    exec(compile(text[start:end], path, "exec"), ns)
    return ns["FirFilter"]


LiveFirFilter = load_live_fir()


def chick_variant(base):
    """ChickSysCustomFirFilter on top of `base`, using the compiled convolution."""
    class Chick(base):
        def __init__(self, h, delay_offset=0, k_gain=1):
            super().__init__(h, delay_offset)
            self.k_gain = k_gain

        def convolve_valid(self, x, h):
            return compiled_fir.ChickSysCustomFirFilter.convolve_valid(self, x, h)
    return Chick


IMPLS_PLAIN = [OrigFirFilter, LiveFirFilter, compiled_fir.FirFilter]
IMPLS_CHICK = [chick_variant(OrigFirFilter), chick_variant(LiveFirFilter),
               compiled_fir.ChickSysCustomFirFilter]


# ----------------------------------------------------------------- harness --
def snap(a):
    a = np.asarray(a)
    return (str(a.dtype), a.shape, a.tobytes())


def run(make, blocks, flush_twice=False, reset_mid=False):
    """Returns a trace of everything observable."""
    trace = []
    try:
        f = make()
    except Exception as e:  # noqa
        return [("init-exc", type(e).__name__)]
    trace.append(("state0", snap(f.x_prev)))
    for i, b in enumerate(blocks):
        try:
            y = f.process(b)
            trace.append(("y", snap(y)))
        except Exception as e:  # noqa
            trace.append(("exc", type(e).__name__))
        trace.append(("state", snap(f.x_prev)))
        if reset_mid and i == 0:
            f.reset_state()
            trace.append(("state-reset", snap(f.x_prev)))
    for _ in range(2 if flush_twice else 1):
        try:
            r = f.get_remaining()
            trace.append(("rem", snap(r)))
        except Exception as e:  # noqa
            trace.append(("exc", type(e).__name__))
        trace.append(("state", snap(f.x_prev)))
    return trace


def compositions(n):
    for mask in range(1 << max(0, n - 1)):
        parts, start = [], 0
        for i in range(1, n):
            if mask & (1 << (i - 1)):
                parts.append((start, i))
                start = i
        parts.append((start, n))
        yield parts


N_CASES = 0
FAIL = 0


def check(impls, factory_args, blocks, **kw):
    global N_CASES, FAIL
    N_CASES += 1
    traces = [run(lambda c=c: c(*factory_args), [b.copy() for b in blocks], **kw)
              for c in impls]
    if not all(t == traces[0] for t in traces[1:]):
        FAIL += 1
        if FAIL <= 5:
            print("MISMATCH", factory_args, [b.tolist() for b in blocks], kw)


def main():
    rnd = random.Random(19)

    # 1. exhaustive block splits of short signals, every delay offset
    for n_taps in (1, 2, 3, 4, 5):
        for dtype in (np.int32, np.float64, np.int16):
            h = np.asarray([rnd.randint(-4, 4) or 1 for _ in range(n_taps)], dtype=dtype)
            for m0 in range(0, n_taps):
                for n in range(1, 9):
                    x = np.asarray([rnd.randint(-100, 100) for _ in range(n)], dtype=dtype)
                    for parts in compositions(n):
                        check(IMPLS_PLAIN, (h, m0), [x[a:b] for a, b in parts])

    # 2. empty blocks, reset in the middle, double flush, delay offsets out of range
    for n_taps in (1, 3, 4):
        h = np.asarray([rnd.uniform(-1, 1) for _ in range(n_taps)])
        for m0 in range(0, n_taps + 2):
            x = np.asarray([rnd.uniform(-1e4, 1e4) for _ in range(7)])
            e = x[:0]
            for blocks in ([e], [e, x], [x[:2], e, x[2:]], [x, e], [x[:1], x[1:2], x[2:]]):
                check(IMPLS_PLAIN, (h, m0), blocks)
                check(IMPLS_PLAIN, (h, m0), blocks, flush_twice=True)
                check(IMPLS_PLAIN, (h, m0), blocks, reset_mid=True)

    # 3. random splits of longer random / extreme int16 signals, CDXtract preset kernel
    for _ in range(300):
        n = rnd.randint(1, 200)
        kind = rnd.choice(["rand", "extreme"])
        if kind == "rand":
            vals = [rnd.randint(-32768, 32767) for _ in range(n)]
        else:
            vals = [rnd.choice([-32768, 32767, 0, -1, 1]) for _ in range(n)]
        x = np.asarray(vals, dtype=np.int16)
        cuts = sorted(set(rnd.randint(1, n) for _ in range(rnd.randint(0, 8))) | {n})
        blocks, s = [], 0
        for c in cuts:
            blocks.append(x[s:c])
            s = c
        check(IMPLS_PLAIN, (common._cdxtract_roland_deemph_h, 0), blocks)
        n_taps = rnd.randint(1, 9)
        h = np.asarray([rnd.uniform(-2, 2) for _ in range(n_taps)])
        check(IMPLS_PLAIN, (h, rnd.randint(0, n_taps - 1)), blocks)
        # ChickenSys preset (int16 kernel, delay offset 7, k_gain) and random small ones
        check(IMPLS_CHICK, (common._chick_sys_roland_deemph_h,
                            common._chick_sys_roland_deemph_delay_offset,
                            common._chick_sys_roland_deemph_k_gain), blocks)
        hk = np.asarray([rnd.randint(-30000, 30000) for _ in range(n_taps)], dtype=np.int16)
        check(IMPLS_CHICK, (hk, rnd.randint(0, n_taps - 1), rnd.randint(1, 5)), blocks)

    # 4. the real preset classes against the same presets rebuilt on LIVE / ORIG
    for _ in range(50):
        n = rnd.randint(1, 120)
        x = np.asarray([rnd.randint(-32768, 32767) for _ in range(n)], dtype=np.int16)
        k = rnd.randint(1, n)
        blocks = [x[:k], x[k:]] if k < n else [x]
        a = run(common.CdXtractRolandDeemphFilter, blocks)
        b = run(lambda: LiveFirFilter(common._cdxtract_roland_deemph_h), blocks)
        c = run(lambda: OrigFirFilter(common._cdxtract_roland_deemph_h), blocks)
        global N_CASES, FAIL
        N_CASES += 1
        if not (a == b == c):
            FAIL += 1
            print("MISMATCH preset")

    print("cases:", N_CASES, "failures:", FAIL)
    return 1 if FAIL else 0


if __name__ == "__main__":
    sys.exit(main())
