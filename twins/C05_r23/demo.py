"""Equivalence demo for r23: transcoder.get_num_frames_possible and
transcoder.get_buffer_sizes (temporaries inlined, literal 1 -> module constant
_MIN_FRAMES_PER_BUFFER, the minimum over the streams moved into the new
private helper _common_num_frames with the redundant list() around the
generator dropped, locals renamed) versus inline copies of the ORIGINAL two
functions.

get_buffer_sizes decides how many bytes decode_frame reads from the L and from
the R stream of a merged sample per step of the split-stream interleave.

1. get_num_frames_possible over frame sizes 1..70, sizes around the default
   buffer size, 0 / negative / float / str frame sizes, explicit target sizes
   (positional and keyword): same value and value type or same exception;
2. get_buffer_sizes over random lists of streams (1..5 streams, mixed frame
   sizes), empty lists, tuples, one-shot generators, non-iterables, and
   streams whose frame_size raises (ValueError, StopIteration, ...) or reads
   are counted: same result / exception, same number of frame_size reads;
3. make_transcoder run on identical fresh L/R streams with the current
   get_buffer_sizes and with the original one patched in: same buffer sizes,
   same blocks, same stream positions; and the concatenated blocks equal the
   expected L,R interleave.
Exit 0 when everything agrees, 1 otherwise.
"""
import io
import itertools
import random
import struct
import sys
from typing import List

from smpl_extract import transcoder
from smpl_extract.data_streams import DataStream
from smpl_extract.data_streams import Endianess
from smpl_extract.data_streams import StreamEncoding
from smpl_extract.transcoder import get_buffer_sizes
from smpl_extract.transcoder import get_num_frames_possible
from smpl_extract.transcoder import make_transcoder

_DEFAULT_BUFFER_SIZE = 0x1000


# verbatim copies of the ORIGINAL functions
def original_get_num_frames_possible(
        stream: DataStream,
        target_size: int = _DEFAULT_BUFFER_SIZE
) -> int:
    frame_size = stream.frame_size
    num_frames = max(1, target_size // frame_size)
    return num_frames


def original_get_buffer_sizes(streams: List[DataStream]) -> List[int]:
    num_frames = min(list(original_get_num_frames_possible(x) for x in streams))
    buffer_sizes = list(num_frames * x.frame_size for x in streams)
    return buffer_sizes


failures = []


def check(cond, what):
    if not cond:
        failures.append(what)
        if len(failures) <= 20:
            print("MISMATCH:", what)


def outcome(func, *args, **kwargs):
    try:
        value = func(*args, **kwargs)
    except BaseException as e:  # noqa
        return ("exc", type(e).__name__, str(e))
    if isinstance(value, list):
        return ("ok", "list", [(type(v).__name__, repr(v)) for v in value])
    return ("ok", type(value).__name__, repr(value))


class FakeStream:
    def __init__(self, frame_size):
        self.frame_size = frame_size

    def __repr__(self):
        return f"FakeStream({self.frame_size!r})"


class CountingStream:
    reads = 0

    def __init__(self, frame_size, raises=None):
        self._frame_size = frame_size
        self._raises = raises

    @property
    def frame_size(self):
        CountingStream.reads += 1
        if self._raises is not None:
            raise self._raises
        return self._frame_size


# --------------------------------------------------------------------------
# 1. get_num_frames_possible
# --------------------------------------------------------------------------
FRAME_SIZES = list(range(1, 71)) + [
    0x0fff, 0x1000, 0x1001, 0x2000, 0x7fffffff, 0, -1, -3, -0x1000, -0x1001,
    1.0, 2.5, 4096.0, 5000.0, float("inf"), float("nan"), "2", None, True,
    False, 10 ** 30]
TARGETS = [0, 1, 2, 3, 7, 0x800, 0xfff, 0x1000, 0x1001, 0x10000, -1, -4096,
           4096.0, 1.0, 0.5, "x", None, True]
n_frames = 0
for frame_size in FRAME_SIZES:
    stream = FakeStream(frame_size)
    a = outcome(get_num_frames_possible, stream)
    b = outcome(original_get_num_frames_possible, stream)
    check(a == b, f"frames {frame_size!r}: {a!r} != {b!r}")
    n_frames += 1
    for target in TARGETS:
        a = outcome(get_num_frames_possible, stream, target)
        b = outcome(original_get_num_frames_possible, stream, target)
        check(a == b, f"frames {frame_size!r} {target!r}: {a!r} != {b!r}")
        a = outcome(get_num_frames_possible, stream, target_size=target)
        b = outcome(original_get_num_frames_possible, stream,
                    target_size=target)
        check(a == b, f"frames kw {frame_size!r} {target!r}: {a!r} != {b!r}")
        n_frames += 2
for bad in (None, 5, "s", object()):
    a = outcome(get_num_frames_possible, bad)
    b = outcome(original_get_num_frames_possible, bad)
    check(a == b, f"frames bad stream {bad!r}: {a!r} != {b!r}")
for width, count in itertools.product([1, 2, 3, 4, 8], [0, 1, 2, 3, 6]):
    stream = DataStream(io.BytesIO(), StreamEncoding(Endianess.LITTLE, width,
                                                      count))
    a = outcome(get_num_frames_possible, stream)
    b = outcome(original_get_num_frames_possible, stream)
    check(a == b, f"frames real {width} {count}: {a!r} != {b!r}")
    n_frames += 1
check(get_num_frames_possible(FakeStream(2)) == 2048, "2 byte frames")
check(get_num_frames_possible(FakeStream(0x2000)) == 1, "huge frames")


# --------------------------------------------------------------------------
# 2. get_buffer_sizes
# --------------------------------------------------------------------------
rng = random.Random(2323)
n_sizes = 0
SIZE_POOL = [1, 1, 2, 2, 2, 3, 4, 6, 8, 12, 16, 24, 1000, 4095, 4096, 4097,
             9000]
for _ in range(3000):
    sizes = [rng.choice(SIZE_POOL) for _ in range(rng.randint(1, 5))]
    if rng.random() < 0.1:
        sizes[rng.randrange(len(sizes))] = rng.choice(
            [0, -2, 2.0, 1.5, None, "2", True])
    for container in (list, tuple):
        streams = container(FakeStream(s) for s in sizes)
        a = outcome(get_buffer_sizes, streams)
        b = outcome(original_get_buffer_sizes, streams)
        check(a == b, f"sizes {sizes!r}: {a!r} != {b!r}")
        n_sizes += 1
    # read counting
    counts = []
    results = []
    for func in (get_buffer_sizes, original_get_buffer_sizes):
        CountingStream.reads = 0
        results.append(outcome(func, [CountingStream(s) for s in sizes]))
        counts.append(CountingStream.reads)
    check(results[0] == results[1] and counts[0] == counts[1],
          f"counting {sizes!r}: {results!r} {counts!r}")

for streams_maker in (
        lambda: [],
        lambda: (),
        lambda: iter([FakeStream(2), FakeStream(4)]),
        lambda: (s for s in [FakeStream(2), FakeStream(4)]),
        lambda: iter([]),
        lambda: None,
        lambda: 5,
        lambda: "ab",
        lambda: {"k": FakeStream(2)},
        lambda: [None],
        lambda: [FakeStream(2), None],
        lambda: [FakeStream(2), FakeStream(0)],
        lambda: [FakeStream(0), FakeStream(2)],
):
    a = outcome(get_buffer_sizes, streams_maker())
    b = outcome(original_get_buffer_sizes, streams_maker())
    check(a == b, f"special {a!r} != {b!r}")
    n_sizes += 1

for error, position, length in itertools.product(
        [ValueError("boom"), StopIteration(), StopIteration("x"),
         ZeroDivisionError("z"), RuntimeError("r"), KeyError("k"),
         GeneratorExit(), AttributeError("frame_size")],
        [0, 1, 2], [1, 2, 3]):
    if position >= length:
        continue
    counts = []
    results = []
    for func in (get_buffer_sizes, original_get_buffer_sizes):
        CountingStream.reads = 0
        streams = [CountingStream(2 + i, error if i == position else None)
                   for i in range(length)]
        results.append(outcome(func, streams))
        counts.append(CountingStream.reads)
    check(results[0] == results[1] and counts[0] == counts[1],
          f"raising {error!r} at {position}/{length}: {results!r} {counts!r}")
    n_sizes += 1

check(get_buffer_sizes([FakeStream(2), FakeStream(2)]) == [4096, 4096],
      "two 16 bit mono streams")
check(get_buffer_sizes([FakeStream(1), FakeStream(3)]) == [1365, 4095],
      "1 and 3 byte frames")


# --------------------------------------------------------------------------
# 3. through make_transcoder
# --------------------------------------------------------------------------
def make_streams(layout, num_frames_list):
    """layout: list of (sample_width, interleaved channels, endianess)"""
    streams = []
    for k, ((width, count, endian), frames) in enumerate(
            zip(layout, num_frames_list)):
        payload = bytes(((k + 1) * 37 + i * 11) % 256
                        for i in range(frames * width * max(1, count)))
        streams.append(DataStream(io.BytesIO(payload),
                                  StreamEncoding(endian, width, count)))
    return streams


def run_transcoder(use_original, layout, num_frames_list, dest):
    saved = transcoder.get_buffer_sizes
    seen_sizes = []
    if use_original:
        chosen = original_get_buffer_sizes
    else:
        chosen = saved

    def spy(streams):
        result = chosen(streams)
        seen_sizes.append(list(result))
        return result

    transcoder.get_buffer_sizes = spy
    try:
        streams = make_streams(layout, num_frames_list)
        try:
            coder = make_transcoder(streams, dest)
            blocks = list(coder)
            status = ("ok", type(coder).__name__)
        except Exception as e:  # noqa
            blocks = []
            status = ("exc", type(e).__name__, str(e))
        positions = [s.stream.tell() for s in streams]
        return status, seen_sizes, blocks, positions
    finally:
        transcoder.get_buffer_sizes = saved


LAYOUTS = [
    [(2, 1, Endianess.LITTLE), (2, 1, Endianess.LITTLE)],
    [(1, 1, Endianess.LITTLE), (1, 1, Endianess.LITTLE)],
    [(2, 1, Endianess.BIG), (2, 1, Endianess.LITTLE)],
    [(2, 1, Endianess.BIG), (2, 1, Endianess.BIG)],
    [(2, 1, Endianess.LITTLE)],
    [(2, 2, Endianess.LITTLE)],
    [(2, 2, Endianess.LITTLE), (2, 1, Endianess.LITTLE)],
    [(2, 1, Endianess.LITTLE), (2, 1, Endianess.LITTLE),
     (2, 1, Endianess.LITTLE)],
    [(4, 1, Endianess.LITTLE), (4, 1, Endianess.LITTLE)],
    [(2, 0, Endianess.LITTLE), (2, 1, Endianess.LITTLE)],
]
LENGTHS = [0, 1, 5, 2047, 2048, 2049, 4096, 4100, 5000]
n_runs = 0
for layout in LAYOUTS:
    total_channels = sum(max(1, c) for _, c, _ in layout)
    dest = StreamEncoding(Endianess.LITTLE, layout[0][0], total_channels)
    for _ in range(12):
        lengths = [rng.choice(LENGTHS) for _ in layout]
        if rng.random() < 0.5:
            lengths = [lengths[0]] * len(layout)
        a = run_transcoder(False, layout, lengths, dest)
        b = run_transcoder(True, layout, lengths, dest)
        check(a == b, f"transcoder {layout!r} {lengths!r}: "
                      f"{a[0]!r} {a[1]!r} {a[3]!r} != {b[0]!r} {b[1]!r} {b[3]!r}")
        n_runs += 1

# expected interleave for an equal-length 16 bit L/R pair
for frames in (1, 2047, 2048, 2049, 4097, 10000):
    left_values = [(i * 3 - 7000) % 65536 - 32768 for i in range(frames)]
    right_values = [(i * 5 + 1234) % 65536 - 32768 for i in range(frames)]
    encoding = StreamEncoding(Endianess.LITTLE, 2, 1)
    streams = [
        DataStream(io.BytesIO(struct.pack("<%dh" % frames, *left_values)),
                   encoding),
        DataStream(io.BytesIO(struct.pack("<%dh" % frames, *right_values)),
                   encoding),
    ]
    blocks = list(make_transcoder(streams, StreamEncoding(Endianess.LITTLE,
                                                          2, 2)))
    pcm = b"".join(blocks)
    values = struct.unpack("<%dh" % (len(pcm) // 2), pcm)
    check(list(values[0::2]) == left_values
          and list(values[1::2]) == right_values,
          f"interleave of {frames} frames")
    check(all(len(block) == 8192 for block in blocks[:-1]),
          f"block sizes for {frames} frames")
    n_runs += 1

print(f"frame cases: {n_frames}, buffer size cases: {n_sizes}, "
      f"transcoder runs: {n_runs}, failures: {len(failures)}")
sys.exit(1 if failures else 0)
