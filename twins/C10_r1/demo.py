"""Equivalence demo for r1: Traversable.parse_path tokenising.

Compares the live Traversable.parse_path against an inline copy of the
ORIGINAL implementation on several synthetic trees and a large set of path
strings.  Exit status 0 = everything agrees, 1 = a difference was found.
"""
from dataclasses import dataclass
import itertools
import random
import sys
from typing import List
from typing import cast

from smpl_extract.base import ElementTypes
from smpl_extract.elements import LeafElement
from smpl_extract.structural import ErrorInvalidPath
from smpl_extract.structural import ErrorNoChildWithName
from smpl_extract.structural import ErrorNotTraversable
from smpl_extract.structural import Image
from smpl_extract.structural import Traversable


# ---------------------------------------------------------------------------
# verbatim copy of the ORIGINAL implementation
# ---------------------------------------------------------------------------
def parse_path_original(self, path):

    tokens_raw = self._TOKENIZE_PATH_REGEX.split(path.strip())
    tokens_raw_iter = iter(tokens_raw)

    tokens: List[str] = []
    tokens.append(next(tokens_raw_iter))
    while True:
        try:
            next(tokens_raw_iter)
            next_token = next(tokens_raw_iter)
        except StopIteration:
            break
        tokens.append(next_token)

    if len(tokens) > 0 and len(tokens[-1]) < 1:
        tokens = tokens[:-1]

    current_node = self
    for i, token in enumerate(tokens):
        token_sanitized = self._sanitize_string(token)

        try:
            if isinstance(current_node, Traversable):
                current_node = cast(Traversable, current_node)
                children = current_node.children

                child = next((
                    x for x in children
                    if self._sanitize_string(x.safe_name) == token_sanitized
                ))
                if not child:
                    raise ErrorNoChildWithName()
                current_node = child

            else:
                raise ErrorNotTraversable

        except (ErrorNoChildWithName, ErrorNotTraversable, StopIteration) as e:
            path_so_far = "/".join(tokens[:i]) + "/" if current_node != self else "image"
            msg = f"The entity \"{token}\" was not found in \"{path_so_far}\"."
            raise ErrorInvalidPath(msg)

    if isinstance(current_node, Traversable):
        children = current_node.children

    return current_node


# ---------------------------------------------------------------------------
# synthetic trees
# ---------------------------------------------------------------------------
@dataclass
class Leaf(LeafElement):
    name: str = ""
    type_name: str = "Leaf"
    type_id = ElementTypes.ProgramEntry
    payload: str = "x"


class Dir(Traversable):
    type_name = "Dir"

    def __init__(self, name, spec, log, routines=None, path=None, parent=None):
        self.name = name
        self._spec = spec
        self._log = log
        super().__init__(self._realize, routines, path, parent)

    def _realize(self, context):
        self._log.append(("realize", self.name))
        result = []
        for name, sub in self._spec:
            if sub is None:
                child = Leaf(name=name)
                child._path = self.path + [name]
                child._parent = self
            else:
                child = Dir(
                    name, sub, self._log, context["_elem_routines"],
                    self.path + [name], self
                )
            result.append(child)
        return result


class PlainImage(Image):
    name = "Synthetic"
    type_name = "Synthetic Image"

    def __init__(self, spec, log):
        self._spec = spec
        self._log = log
        Traversable.__init__(self, self._realize)

    _realize = Dir._realize


class ColonImage(PlainImage):
    """Same normalisation as the AKAI image (upper-case, trailing colon)."""

    def _sanitize_string(self, input_str: str):
        result = input_str.upper().strip()
        if len(result) > 0 and result[-1] == ":":
            result = result[:-1]
        return result


SPEC = [
    ("A", [
        ("VOLUME 1", [
            ("KICK  -L", None),
            ("KICK  -R", None),
            ("  padded  ", None),
            ("", None),
            ("a:b", None),
        ]),
        ("VOLUME 1", [("dup", None)]),
        ("", [("inside empty", None)]),
        (" ", []),
        ("lower", [("x", None)]),
    ]),
    ("B", []),
    ("b", [("only in small b", None)]),
    ("C:", [("Snare.1", None), ("Snare 1", None), ("Sn\u00e4re", None)]),
    ("leaf at top", None),
    ("\u00dcml\u00e4ut \u97f3", [("\u30b5\u30f3\u30d7\u30eb", None)]),
]


def make_image(cls, with_routines):
    log: list = []
    image = cls(SPEC, log)
    if with_routines:
        image.set_routines({
            "make_safe_names": image.make_safe_names_routine,
            "make_export_names": image.make_export_names_routine,
        })
    return image, log


def all_nodes(node, prefix=()):
    """Yield (tuple of printed names, node) for the whole tree."""
    if isinstance(node, Traversable):
        for child in node.children:
            here = prefix + (child.safe_name,)
            yield here, child
            yield from all_nodes(child, here)


def build_paths():
    image, _ = make_image(PlainImage, True)
    names = list(all_nodes(image))
    paths = set()

    seps = ["/", "\\", "\\\\"]
    for components, _node in names:
        for sep in seps:
            joined = sep.join(components)
            for variant in (
                joined, joined + sep, " " + joined + "  ", sep + joined,
                joined + sep + sep, joined.lower(), joined.upper(),
                joined + ":", joined[:-1], joined + "x", joined + sep + "nope",
                joined.replace(" ", ""), "\t" + joined + "\n",
                sep.join(" " + c + " " for c in components),
                sep.join(c + ":" for c in components),
            ):
                paths.add(variant)

    fixed = [
        "", " ", "/", "\\", "\\\\", "\\\\\\", "//", "///", "/ /", " / ",
        "A", "A:", "a:", "A:/", "a", "A/", "A//", "A\\", "A\\\\", "A\\\\\\",
        "A/\\", "A\\/", "B", "b", "B/", "b/x", "C", "C:", "C::", "c:/snare.1",
        "leaf at top", "leaf at top/", "leaf at top/x", "leaf at top/x/y",
        "A/VOLUME 1", "A/VOLUME 1 (2)", "A/VOLUME 1 (2)/dup", "A//inside empty",
        "A/ /", "A/0", "nope", "nope/nope", "\u00fcml\u00e4ut \u97f3",
        "\u00dcml\u00e4ut \u97f3/\u30b5\u30f3\u30d7\u30eb", "\u2028", "\x00",
        "A/VOLUME 1/a:b", "A/VOLUME 1/a", "A/VOLUME 1/KICK -L",
        "A/VOLUME 1/KICK  -L", "A/VOLUME 1/padded", "A/VOLUME 1/  padded  /",
        "A\\VOLUME 1\\\\KICK  -R", "A\\\\VOLUME 1/KICK  -R\\", "\\A", "/A/",
        "\\\\A\\\\", "A/./VOLUME 1", "A/../A", "\U0001F600", "\u00a0A\u00a0",
    ]
    paths.update(fixed)

    rng = random.Random(20260928)
    alphabet = ["/", "\\", " ", ":", "A", "a", "B", "C", "VOLUME 1", "x",
                "dup", "", "\t", "\u97f3", "lower", "(2)", "."]
    for _ in range(4000):
        n = rng.randint(0, 7)
        paths.add("".join(rng.choice(alphabet) for _ in range(n)))

    for combo in itertools.product(["/", "\\", "A", " ", ":"], repeat=4):
        paths.add("".join(combo))

    return sorted(paths)


def run(func, image, path):
    try:
        node = func(image, path)
    except BaseException as e:  # noqa: compare every failure mode
        return ("raise", type(e).__name__, str(e))
    location = tuple(node.path)
    return ("ok", type(node).__name__, node.safe_name, location)


def main():
    paths = build_paths()
    non_str = [None, 5, b"A/B", ["A"], ("A",), 1.5]
    mismatches = 0
    checked = 0
    for cls in (PlainImage, ColonImage):
        for with_routines in (True, False):
            for path in paths + non_str:
                # fresh images so that the lazy child realisation (a side
                # effect of parse_path) is compared as well
                new_image, new_log = make_image(cls, with_routines)
                old_image, old_log = make_image(cls, with_routines)
                got = run(cls.parse_path, new_image, path)
                expected = run(parse_path_original, old_image, path)
                checked += 1
                if got != expected or new_log != old_log:
                    mismatches += 1
                    if mismatches <= 10:
                        print("MISMATCH", cls.__name__, with_routines,
                              repr(path), got, expected, new_log, old_log)

    # the identity of the returned node on one shared image
    image, _ = make_image(PlainImage, True)
    for components, node in all_nodes(image):
        if any(len(c.strip()) < 1 for c in components):
            continue
        for sep in ("/", "\\"):
            checked += 1
            a = image.parse_path(sep.join(components))
            b = parse_path_original(image, sep.join(components))
            if a is not b:
                mismatches += 1
                print("IDENTITY MISMATCH", components)

    print(f"checked {checked} cases, {mismatches} mismatches")
    return 1 if mismatches else 0


if __name__ == "__main__":
    sys.exit(main())
