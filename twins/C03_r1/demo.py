"""Equivalence demo for r1: CueSheetIndex.get_total_audio_frames.

Compares the (possibly refactored) method against an inline copy of the
original implementation, directly and through the cue sheet parser.
Exit 0 when everything agrees, 1 otherwise.
"""
import itertools
import random
import sys
from fractions import Fraction

from smpl_extract.cuesheet import CueSheetIndex
from smpl_extract.cuesheet import parse_cue_sheet


_ORIG_AUDIO_FRAMES_PER_SECOND = 75


def original_get_total_audio_frames(self) -> int:
    total_seconds = 60*self.n_minutes + self.n_seconds
    total_frames = _ORIG_AUDIO_FRAMES_PER_SECOND*total_seconds + \
        self.n_frames
    return total_frames


failures = 0
checked = 0


def outcome(fn, *args):
    try:
        value = fn(*args)
        return ("ok", type(value), value)
    except Exception as e:  # noqa: BLE001
        return ("exc", type(e), str(e))


def check(index):
    global failures, checked
    checked += 1
    got = outcome(CueSheetIndex.get_total_audio_frames, index)
    want = outcome(original_get_total_audio_frames, index)
    if got != want:
        failures += 1
        print("MISMATCH", index, got, want)


# exhaustive small grid, including out-of-range MSF values
for m, s, f in itertools.product(range(0, 100, 7), range(0, 61), range(0, 76)):
    check(CueSheetIndex(1, m, s, f))

# boundaries
edge = [0, 1, 59, 60, 61, 74, 75, 76, 99, 100, 255, 256, 65535, 2**31 - 1,
        2**31, 2**63, 2**64 + 3, -1, -60, -75]
for m, s, f in itertools.product(edge, repeat=3):
    check(CueSheetIndex(0, m, s, f))

# random
rng = random.Random(20260928)
for _ in range(20000):
    check(CueSheetIndex(
        rng.randrange(0, 100),
        rng.randrange(-5, 10**6),
        rng.randrange(-5, 10**6),
        rng.randrange(-5, 10**6),
    ))

# non-int field values: result type / exceptions must agree as well
odd_values = [True, False, 1.5, -0.0, float("inf"), Fraction(1, 3), 2 + 1j,
              "7", "", None, [1], (2,), b"x"]
for v in odd_values:
    check(CueSheetIndex(1, v, 2, 3))
    check(CueSheetIndex(1, 2, v, 3))
    check(CueSheetIndex(1, 2, 3, v))
    check(CueSheetIndex(1, v, v, v))

# default instance
check(CueSheetIndex())

# through the parser
for _ in range(500):
    n_tracks = rng.randrange(1, 8)
    lines = ['FILE "x.bin" BINARY\n']
    for t in range(n_tracks):
        lines.append(f"  TRACK {t+1:02d} AUDIO\n")
        if rng.random() < 0.5:
            lines.append(f'    TITLE "t{t}"\n')
        for k in range(rng.randrange(0, 3)):
            lines.append(
                f"    INDEX {k:02d} {rng.randrange(0, 100):02d}:"
                f"{rng.randrange(0, 60):02d}:{rng.randrange(0, 75):02d}\n"
            )
    sheet = parse_cue_sheet(lines)
    for track in sheet.tracks:
        for index in track.indices:
            check(index)

print(f"checked {checked} cases, {failures} mismatches")
sys.exit(1 if failures else 0)
