"""Equivalence demo for r6: PerformanceEntry.files (per-performance sample
collection) - temporaries inlined, `+=` -> extend, `a + b` -> [*a, *b].

Builds many random performance -> patch -> partial -> sample object graphs
(with shared samples, empty patches, routines, failing decoders), and compares
the `files` property of the working tree with an inline copy of the ORIGINAL
property body: resulting file list, caching behaviour, exceptions, and the
exact order in which the two sub-adapters are called.
Exit 0 when everything agrees, 1 otherwise.
"""
import io
import random
import sys

from construct.core import Pass
from construct.lib.containers import Container

from smpl_extract.roland.s7xx import performance_entry as pe
from smpl_extract.roland.s7xx.data_types import RolandLoopMode
from smpl_extract.roland.s7xx.partial_entry import PartialEntry
from smpl_extract.roland.s7xx.partial_entry import SampleEntryReference
from smpl_extract.roland.s7xx.patch_entry import PatchEntry
from smpl_extract.roland.s7xx.performance_entry import PerformanceEntry
from smpl_extract.roland.s7xx.program_file import ProgramFile
from smpl_extract.roland.s7xx.program_file import ProgramFileAdapter
from smpl_extract.roland.s7xx.sample_entry import SampleEntry
from smpl_extract.roland.s7xx.sample_entry import SampleParamLoopPoint
from smpl_extract.roland.s7xx.sample_file import SampleFile
from smpl_extract.roland.s7xx.sample_file import SampleFileListAdapter


TRACE = []


class Boom(Exception):
    pass


# The two adapters used by `files` are looked up as module globals of
# performance_entry; wrap them so that the call order is recorded.
class TracingProgramFileAdapter(ProgramFileAdapter):
    fail_on = None

    def _decode(self, obj, context, path):
        TRACE.append(("program", obj.name, path,
                      sorted(context.keys()), sorted(context["_"].keys()),
                      context["_"]["_elem_parent"].name))
        if TracingProgramFileAdapter.fail_on == obj.name:
            raise Boom("program " + obj.name)
        return super()._decode(obj, context, path)


class TracingSampleFileListAdapter(SampleFileListAdapter):
    fail_on = None

    def _decode(self, obj, context, path):
        TRACE.append(("samples", obj.name, path,
                      sorted(context.keys()), sorted(context["_"].keys()),
                      context["_"]["_elem_parent"].name))
        if TracingSampleFileListAdapter.fail_on == obj.name:
            raise Boom("samples " + obj.name)
        return super()._decode(obj, context, path)


pe.ProgramFileAdapter = TracingProgramFileAdapter
pe.SampleFileListAdapter = TracingSampleFileListAdapter


# ---------------------------------------------------------------- original --
def original_files(self):
    if self._files is None:
        sc_program = pe.ProgramFileAdapter(Pass)
        sc_samples = pe.SampleFileListAdapter(Pass)
        patches = list(self.patch_entries)
        context = Container(_=Container(
            _elem_parent=self,
            _elem_routines=self._routines
        ))
        path = ""

        programs = []
        samples = []
        for patch in patches:
            program = sc_program._decode(
                patch,
                context,  # type: ignore
                path
            )

            samples_result = sc_samples._decode(
                patch,
                context,  # type: ignore
                path
            )

            programs.append(program)
            samples += samples_result

        files = programs + samples

        for routine in self._routines.values():
            files = routine(files)  # type: ignore
        self._files = files

    return self._files


# ------------------------------------------------------------ graph builder --
def build_performance(spec, routines):
    """spec: list of patches; patch = (name, [partial]); partial = (name,
    [sample index]).  Sample objects are created per reference (as the parser
    does) but carry the shared `index`."""
    pcm = bytes(range(256)) * 8

    def make_sample(idx):
        return SampleEntry(
            loop_mode=list(RolandLoopMode)[idx % 7],
            start_sample=SampleParamLoopPoint(0, idx % 5),
            sustain_loop_start=SampleParamLoopPoint(0, 10 + idx),
            sustain_loop_end=SampleParamLoopPoint(0, 40 + idx),
            release_loop_start=SampleParamLoopPoint(0, 50 + idx),
            release_loop_end=SampleParamLoopPoint(0, 90 + idx),
            directory_name="S%04d" % idx,
            parameter_name="s%04d" % idx,
            index=idx,
            _data_stream=io.BytesIO(pcm),
            _path=["S%04d" % idx],
        )

    def make_partial(pspec, patch_path):
        name, sample_idxs = pspec
        refs = [
            SampleEntryReference(sample_entry=make_sample(i), sample_level=i)
            for i in sample_idxs
        ]
        return PartialEntry(
            directory_name=name,
            parameter_name=name.lower(),
            sample_entry_references=refs,
            _path=patch_path + [name],
        )

    def make_patch(patch_spec, perf):
        name, partial_specs = patch_spec
        patch_path = ["VOL", perf.name, name]
        return PatchEntry(
            directory_name=name,
            parameter_name=name.lower(),
            _f_realize_children=(
                lambda ctx: [make_partial(p, patch_path)
                             for p in partial_specs]
            ),
            _parent=perf,
            _path=patch_path,
        )

    realize_calls = []

    def realize_patches(ctx):
        realize_calls.append(sorted(ctx.keys()))
        return [make_patch(p, perf) for p in spec]

    perf = PerformanceEntry(
        directory_name="PERF",
        parameter_name="perf",
        _f_patch_entries=realize_patches,
        _path=["VOL", "PERF"],
        _routines=routines,
    )
    return perf, realize_calls


def describe_file(f):
    if isinstance(f, ProgramFile):
        return ("program", f.name, tuple(f._path),
                getattr(f._parent, "name", None),
                tuple(
                    (tuple((s.sample, s.sample_level) for s in p.samples))
                    for p in f.partials
                ))
    if isinstance(f, SampleFile):
        gen = f.to_generalized()
        stream = gen.data_streams[0].stream
        stream.seek(0, io.SEEK_SET)
        return ("sample", f.name, tuple(f._path),
                getattr(f._parent, "name", None), f.loop_mode,
                stream.read(4096))
    return ("other", repr(f))


def observe(getter, spec, routine_kind, fail):
    """Runs `getter(perf)` twice on a fresh graph; returns everything
    observable."""
    del TRACE[:]
    routine_log = []

    def r_reverse(files):
        routine_log.append(("reverse", len(files)))
        return list(reversed(files))

    def r_drop_programs(files):
        routine_log.append(("drop", len(files)))
        return [f for f in files if not isinstance(f, ProgramFile)]

    def r_boom(files):
        routine_log.append(("boom", len(files)))
        raise Boom("routine")

    def r_none(files):
        routine_log.append(("none", len(files)))
        return None

    routines = {
        "none": {},
        "reverse": {"a": r_reverse},
        "two": {"a": r_reverse, "b": r_drop_programs},
        "two_swapped": {"b": r_drop_programs, "a": r_reverse},
        "boom": {"a": r_reverse, "z": r_boom},
        "returns_none": {"n": r_none},
    }[routine_kind]

    TracingProgramFileAdapter.fail_on = fail[1] if fail[0] == "program" else None
    TracingSampleFileListAdapter.fail_on = fail[1] if fail[0] == "samples" else None

    perf, realize_calls = build_performance(spec, routines)
    out = []
    first = None
    for attempt in range(2):
        try:
            files = getter(perf)
        except BaseException as e:  # noqa
            out.append(("exc", type(e).__name__, str(e),
                        perf._files is None))
            continue
        if attempt == 0:
            first = files
        out.append((
            "ok",
            None if files is None else [describe_file(f) for f in files],
            files is perf._files,
            files is first,
            type(files).__name__,
        ))
    return out, list(TRACE), routine_log, realize_calls


def random_spec(rnd):
    n_patches = rnd.choice([0, 1, 1, 2, 3, 5])
    spec = []
    for p in range(n_patches):
        n_partials = rnd.choice([0, 1, 2, 4])
        partials = []
        for q in range(n_partials):
            n_samples = rnd.choice([0, 1, 2, 3, 4])
            # small index pool -> samples shared between partials / patches
            idxs = [rnd.randrange(0, 12) for _ in range(n_samples)]
            partials.append(("PT%d_%d" % (p, q), idxs))
        spec.append(("PATCH%d" % p, partials))
    return spec


def main() -> int:
    rnd = random.Random(6)
    specs = [
        [],
        [("PATCH0", [])],
        [("PATCH0", [("PT0_0", [])])],
        [("PATCH0", [("PT0_0", [1, 1, 1, 1])])],
        [("PATCH0", [("PT0_0", [1, 2])]), ("PATCH1", [("PT1_0", [2, 1, 3])])],
    ] + [random_spec(rnd) for _ in range(120)]

    failures = 0
    checked = 0
    n_ok = 0
    for spec in specs:
        names = [p[0] for p in spec]
        fails = [("none", None)]
        if names:
            fails.append(("program", names[-1]))
            fails.append(("samples", names[0]))
            fails.append(("samples", names[len(names) // 2]))
        for routine_kind in ("none", "reverse", "two", "two_swapped",
                             "boom", "returns_none"):
            for fail in fails:
                new = observe(lambda p: p.files, spec, routine_kind, fail)
                old = observe(original_files, spec, routine_kind, fail)
                chk = observe(lambda p: p.children, spec, routine_kind, fail)
                checked += 1
                if new[0] and new[0][0][0] == "ok":
                    n_ok += 1
                if new != old or chk != old:
                    failures += 1
                    print("MISMATCH", spec, routine_kind, fail)
                    print("  new:", new)
                    print("  old:", old)

    # precomputed expectation for one concrete layout
    spec = [("PATCH0", [("PT0_0", [1, 2])]),
            ("PATCH1", [("PT1_0", [2, 1, 3])])]
    out, trace, _, _ = observe(lambda p: p.files, spec, "none", ("none", None))
    got = [(d[0], d[1]) for d in out[0][1]]
    expected = [
        ("program", "PATCH0"), ("program", "PATCH1"),
        ("sample", "S0001"), ("sample", "S0002"),
        ("sample", "S0002"), ("sample", "S0001"), ("sample", "S0003"),
    ]
    expected_trace = [("program", "PATCH0"), ("samples", "PATCH0"),
                      ("program", "PATCH1"), ("samples", "PATCH1")]
    checked += 1
    if got != expected or [t[:2] for t in trace] != expected_trace:
        failures += 1
        print("MISMATCH precomputed", got, trace)

    print("checked %d cases (%d produced a file list), %d failures"
          % (checked, n_ok, failures))
    if n_ok < 500:
        print("too few successful runs - demo is not exercising the code")
        return 1
    return 1 if failures else 0


if __name__ == "__main__":
    sys.exit(main())
