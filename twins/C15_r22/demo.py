"""Equivalence demo for r22: smpl_extract/transcoder.py pad_channels.

pad_channels is what encode_frame (the last stage of
PipelineTranscoder.__next__) uses to even out the channels of a frame; it only
has work to do on the last, short frame of a multi-stream sample whose streams
end at different points - e.g. a stereo pair whose right half is cut off by
the end of a truncated image before the left half is.

The refactoring extracts the per-channel work into a private helper
`_pad_channel(channel, target_size)`, turns the append loop into a list
comprehension and renames the locals (N -> missing_cnt, target_size ->
longest_size); `if N <= 0: keep; continue` became `if missing_cnt > 0: pad`.

The demo carries a verbatim copy of the ORIGINAL function and compares
  * results (values, dtype, shape, flags) and *identity* of channels that are
    passed through unpadded, for lists of arrays of many dtypes and lengths,
    including empty arrays, a single channel, equal lengths, lists, tuples,
    generators, 2-D arrays, and inputs that make numpy raise,
  * exceptions (type and text) for an empty channel list, non-sized items...
  * encode_frame on the same inputs (live vs live-with-original-pad),
  * whole pipelines (make_transcoder) over complete and truncated sector
    chains for stereo pairs / three streams, run once with the live
    pad_channels and once with the original patched in.
Exit 0 when everything agrees, 1 otherwise.
"""
from io import BytesIO
import random
import sys
from typing import List

import numpy as np

from smpl_extract import transcoder as live
from smpl_extract.data_streams import DataStream
from smpl_extract.data_streams import Endianess
from smpl_extract.data_streams import StreamEncoding
from smpl_extract.util.fat import FileStream


# --------------------------------------------------------------------------
# ORIGINAL implementation (verbatim copy, renamed)
# --------------------------------------------------------------------------
def pad_channels_orig(channels: List[np.ndarray]) -> List[np.ndarray]:
    target_size = max(map(len, channels))
    result_channels = []
    for channel in channels:
        N = target_size - len(channel)
        if N <= 0:
            result_channels.append(channel)
            continue

        padded_channel = np.pad(
            channel,
            (0, N),
            "linear_ramp",
            end_values=(0, 0)
        )
        result_channels.append(padded_channel)
    return result_channels


def encode_frame_orig(channels, dest_dtype):
    channels = pad_channels_orig(channels)
    channels = list(x.astype(dest_dtype) for x in channels)
    result = np.vstack(channels).reshape((-1,), order='F').tobytes()
    return result


failures = []
checks = 0


def check(label, a, b):
    global checks
    checks += 1
    if a != b:
        failures.append(label)
        if len(failures) <= 20:
            print("MISMATCH", label)
            print("   orig:", repr(a)[:300])
            print("   live:", repr(b)[:300])


def describe(x):
    if isinstance(x, np.ndarray):
        return (
            "ndarray", str(x.dtype), x.shape, x.tobytes(),
            x.flags.c_contiguous, x.flags.writeable
        )
    if isinstance(x, (list, tuple)):
        return (type(x).__name__, [describe(y) for y in x])
    return (type(x).__name__, repr(x))


def outcome(f, *args, **kwargs):
    try:
        return ("ok", f(*args, **kwargs))
    except BaseException as e:  # noqa
        return ("raise", type(e).__name__, str(e))


def compare_pad(label, make_input):
    """make_input() gives a fresh, equal input each time it is called."""
    in_a = make_input()
    in_b = make_input()
    ra = outcome(pad_channels_orig, in_a)
    rb = outcome(live.pad_channels, in_b)
    check(label + " kind", ra[0], rb[0])
    if ra[0] == "raise" or rb[0] == "raise":
        check(label + " exception", ra, rb)
        return
    out_a, out_b = ra[1], rb[1]
    check(label + " type", type(out_a).__name__, type(out_b).__name__)
    check(label + " value", describe(out_a), describe(out_b))
    # identity: which outputs are the very input objects
    if isinstance(in_a, (list, tuple)):
        ident_a = [
            [i for i, src in enumerate(in_a) if src is o] for o in out_a
        ]
        ident_b = [
            [i for i, src in enumerate(in_b) if src is o] for o in out_b
        ]
        check(label + " identity", ident_a, ident_b)
        # inputs untouched
        check(label + " inputs", describe(list(in_a)), describe(list(in_b)))


# --------------------------------------------------------------------------
# 1. arrays of many dtypes and lengths
# --------------------------------------------------------------------------
DTYPES = ["int8", "uint8", "int16", ">i2", "uint16", "int32", "int64",
          "float32", "float64"]
rnd = random.Random(7)


def arr(seed, n, dtype):
    r = np.random.RandomState(seed)
    dt = np.dtype(dtype)
    if dt.kind == "f":
        return (r.rand(n) * 2000 - 1000).astype(dt)
    info = np.iinfo(dt)
    return r.randint(info.min, int(info.max) + 1, size=n, dtype=np.int64) \
        .astype(dt) if dt.itemsize < 8 else \
        r.randint(-2**40, 2**40, size=n).astype(dt)


LENGTH_SETS = [
    [0], [1], [5], [0, 0], [0, 1], [1, 0], [3, 3], [3, 4], [4, 3],
    [0, 7], [7, 0], [2048, 2047], [2048, 1], [1, 2048], [10, 10, 10],
    [10, 9, 8], [8, 9, 10], [0, 5, 0], [5, 0, 5], [1, 2, 3, 4, 5, 6],
    [100, 37], [37, 100], [64, 64, 0, 64],
]
case = 0
for lengths in LENGTH_SETS:
    for dtype in DTYPES:
        case += 1
        compare_pad(
            f"lengths {lengths} {dtype}",
            lambda: [arr(case * 31 + i, n, dtype)
                     for i, n in enumerate(lengths)]
        )
    # mixed dtypes
    case += 1
    compare_pad(
        f"lengths {lengths} mixed",
        lambda: [arr(case * 17 + i, n, DTYPES[(case + i) % len(DTYPES)])
                 for i, n in enumerate(lengths)]
    )

for case in range(600):
    k = rnd.randrange(1, 6)
    lengths = [rnd.choice([0, 1, 2, rnd.randrange(0, 300)])
               for _ in range(k)]
    dtype = rnd.choice(DTYPES)
    compare_pad(
        f"random {case} {lengths} {dtype}",
        lambda: [arr(case * 13 + i, n, dtype) for i, n in enumerate(lengths)]
    )

# extreme sample values: the ramp ends must be computed identically
for dtype in ("int8", "int16", "int32"):
    info = np.iinfo(dtype)
    for last in (info.min, info.max, 0, 1, -1):
        compare_pad(
            f"extreme {dtype} {last}",
            lambda: [np.array([1, 2, last], dtype=dtype),
                     np.zeros(11, dtype=dtype)]
        )


# --------------------------------------------------------------------------
# 2. other containers / bad inputs
# --------------------------------------------------------------------------
compare_pad("empty list", lambda: [])
compare_pad("empty tuple", lambda: ())
compare_pad("tuple of arrays",
            lambda: (np.arange(3, dtype="int16"), np.arange(6, dtype="int16")))
compare_pad("python lists", lambda: [[1, 2, 3], [1], []])
compare_pad("list and array", lambda: [[1, 2, 3], np.arange(5)])
compare_pad("strings", lambda: ["abc", "a"])
compare_pad("bytes equal", lambda: [b"abc", b"xyz"])
compare_pad("bytes unequal", lambda: [b"abc", b"x"])
compare_pad("2-D arrays", lambda: [np.ones((2, 3)), np.ones((4, 3))])
compare_pad("2-D and 1-D", lambda: [np.ones((2, 3)), np.ones(5)])
compare_pad("0-d array", lambda: [np.array(3), np.arange(4)])
compare_pad("ints", lambda: [1, 2])
compare_pad("None inside", lambda: [np.arange(3), None])
compare_pad("None", lambda: None)
compare_pad("bool arrays", lambda: [np.array([True, False]),
                                    np.array([True, True, True, False])])
compare_pad("object arrays", lambda: [np.array([1, "a"], dtype=object),
                                      np.array([1, 2, 3], dtype=object)])
compare_pad("read-only", lambda: [
    np.frombuffer(b"\x01\x02\x03\x04", dtype="int16"),
    np.frombuffer(b"\x01\x02\x03\x04\x05\x06\x07\x08", dtype="int16")
])
compare_pad("strided views", lambda: [
    np.arange(20, dtype="int16")[::2], np.arange(20, dtype="int16")[::5]
])


def gen_input():
    return (x for x in [np.arange(3), np.arange(5)])


ga = outcome(pad_channels_orig, gen_input())
gb = outcome(live.pad_channels, gen_input())
check("generator", describe(ga), describe(gb))


class Counting(list):
    """list that logs how it is walked"""
    def __init__(self, items):
        super().__init__(items)
        self.walks = 0

    def __iter__(self):
        self.walks += 1
        return super().__iter__()


ca = Counting([np.arange(3), np.arange(5)])
cb = Counting([np.arange(3), np.arange(5)])
check("counting result",
      describe(pad_channels_orig(ca)), describe(live.pad_channels(cb)))
check("counting walks", ca.walks, cb.walks)


class LenLog:
    """channel that logs len() calls (and cannot be padded when short)"""
    log = None

    def __init__(self, n, name, log):
        self.n, self.name, self.log = n, name, log

    def __len__(self):
        self.log.append(self.name)
        return self.n


log_a, log_b = [], []
ra = outcome(pad_channels_orig,
             [LenLog(4, "p", log_a), LenLog(4, "q", log_a)])
rb = outcome(live.pad_channels,
             [LenLog(4, "p", log_b), LenLog(4, "q", log_b)])
check("len log kind", ra[0], rb[0])
check("len log order", log_a, log_b)


# --------------------------------------------------------------------------
# 3. encode_frame
# --------------------------------------------------------------------------
for case in range(300):
    k = rnd.randrange(1, 5)
    lengths = [rnd.choice([1, 2, rnd.randrange(1, 200)]) for _ in range(k)]
    src = rnd.choice(["int8", "int16", ">i2", "int32"])
    dst = np.dtype(rnd.choice(["int8", "int16", "int32"]))
    chans_a = [arr(case * 7 + i, n, src) for i, n in enumerate(lengths)]
    chans_b = [arr(case * 7 + i, n, src) for i, n in enumerate(lengths)]
    check(
        f"encode_frame {case}",
        outcome(encode_frame_orig, chans_a, dst),
        outcome(live.encode_frame, chans_b, dest_dtype=dst)
    )


# --------------------------------------------------------------------------
# 4. pipelines over truncated chains
# --------------------------------------------------------------------------
def pattern_bytes(n, seed):
    r = random.Random(seed)
    return bytes(r.randrange(256) for _ in range(n))


def drain(transcoder):
    out = []
    try:
        for block in transcoder:
            out.append(bytes(block))
    except BaseException as e:  # noqa
        out.append(("raise", type(e).__name__, str(e)))
    return out


IMAGE = pattern_bytes(0x3000, 5)
LE = StreamEncoding(Endianess.LITTLE, 2, 1)
BE = StreamEncoding(Endianess.BIG, 2, 1)
STEREO_IN = StreamEncoding(Endianess.LITTLE, 2, 2)


def run_pipelines(image):
    res = []
    # stereo pair; left chain early in the image, right chain later
    left = FileStream(BytesIO(image), 0x100, [1, 2, 3, 4, 5, 6, 7, 8, 9])
    right = FileStream(BytesIO(image), 0x100,
                       [20, 21, 22, 23, 24, 25, 26, 27, 28])
    res.append(drain(live.make_transcoder(
        [DataStream(left, BE), DataStream(right, BE)],
        StreamEncoding(Endianess.LITTLE, 2, 2)
    )))
    # right before left, unequal chain lengths, odd sector size
    left = FileStream(BytesIO(image), 0x77, list(range(60, 75)))
    right = FileStream(BytesIO(image), 0x77, list(range(3, 12)))
    res.append(drain(live.make_transcoder(
        [DataStream(left, LE), DataStream(right, BE)],
        StreamEncoding(Endianess.BIG, 2, 2)
    )))
    # interleaved stereo stream + mono stream -> 3 channels
    a = FileStream(BytesIO(image), 0x100, [2, 3, 4, 5])
    b = FileStream(BytesIO(image), 0x100, [30, 31])
    res.append(drain(live.make_transcoder(
        [DataStream(a, STEREO_IN), DataStream(b, LE)],
        StreamEncoding(Endianess.LITTLE, 2, 3)
    )))
    return res


CUTS = sorted(set(
    list(range(0, 0x3000, 0x100)) + list(range(0x1f0, 0x3000, 0x333))
    + [0x3000, 0x1401, 0x14ff, 0x1c80, 0x909, 0x90a]
))
live_pad = live.pad_channels
for cut in CUTS:
    image = IMAGE[:cut]
    with_live = run_pipelines(image)
    live.pad_channels = pad_channels_orig
    try:
        with_orig = run_pipelines(image)
    finally:
        live.pad_channels = live_pad
    check(f"pipeline cut {cut:#x}", with_orig, with_live)


print(f"{checks} checks, {len(failures)} mismatches")
sys.exit(1 if failures else 0)
