"""Equivalence demo for r4 (PartialEntryAdapter._parse, roland/s7xx/partial_entry.py).

Compares the live PartialEntryAdapter._parse with an inline copy of the
ORIGINAL implementation in two ways:

 A. stubbed: the per-sample parser (SampleEntryReferenceAdapter) is replaced by
    a scripted fake that returns a value or raises a swallowed
    (ConstructError and subclasses, UnicodeDecodeError) or non-swallowed
    (KeyError, IndexError, ValueError, RuntimeError, KeyboardInterrupt)
    exception for each of the four sample slots - every combination is tried
    (9^4), and the call order / arguments seen by the fake are compared.

 B. real: a synthetic Roland S-7xx image (partial + sample directory and
    parameter records) is parsed through
    SafeListConstruct(PartialEntryAdapter(PartialEntryConstruct(...))) with a
    fake FAT; the good image, single-byte damage of every byte of one sample's
    directory and parameter record (all 256 values for the structural bytes,
    a spread of values for the rest), exhaustive damage of one partial's
    sample-selection fields, and random multi-byte damage are compared, including the exact
    sequence of seek/read/tell calls on the image stream.

Exit code 0 when everything agrees, 1 otherwise.
"""
import io
import itertools
import random
import sys
from io import SEEK_CUR, SEEK_END, SEEK_SET
from typing import cast

from construct.core import (
    ConstructError, MappingError, Pass, StreamError, Subconstruct,
    ValidationError,
)
from construct.lib.containers import Container, ListContainer

import smpl_extract.roland.s7xx.partial_entry as pe
from smpl_extract.roland.s7xx.data_types import (
    PARTIAL_DIRECTORY_AREA_OFFSET, PARTIAL_DIRECTORY_ENTRY_SIZE,
    PARTIAL_PARAMETER_AREA_OFFSET, PARTIAL_PARAMETER_ENTRY_SIZE,
    SAMPLE_DIRECTORY_AREA_OFFSET, SAMPLE_DIRECTORY_ENTRY_SIZE,
    SAMPLE_PARAMETER_AREA_OFFSET, SAMPLE_PARAMETER_ENTRY_SIZE,
)
from smpl_extract.roland.s7xx.partial_entry import (
    PartialEntry, PartialEntryAdapter, PartialEntryConstruct,
    PartialEntryContainer, PartialParamCommon,
)
from smpl_extract.util.constructs import SafeListConstruct, pull_child_info
from smpl_extract.util.dataclass import get_common_field_args
from smpl_extract.util.fat import RequestedInvalidSector


# --------------------------------------------------------------------------
# inline copy of the ORIGINAL implementation
# (SampleEntryReferenceAdapter is looked up in the module at call time, as the
#  original does through its module globals, so that part A can stub it.)
# --------------------------------------------------------------------------
class OrigPartialEntryAdapter(Subconstruct):

    def _parse(self, stream, context, path) -> PartialEntry:
        sc = self.subcon
        container = cast(
            PartialEntryContainer,
            sc._parse(stream, context, path)  # type: ignore
        )
        sample_ref_containers = ListContainer([
            container.parameter.sample_1,
            container.parameter.sample_2,
            container.parameter.sample_3,
            container.parameter.sample_4
        ])

        sample_references = []
        parser = pe.SampleEntryReferenceAdapter(Pass)
        for ref_container in sample_ref_containers:
            ctx = context.copy()
            ctx["ref_container"] = ref_container
            try:
                sample_reference = parser._parse(stream, ctx, path)  # type: ignore
            except (ConstructError, UnicodeDecodeError) as e:
                continue
            sample_references.append(sample_reference)

        name = container.directory.name
        child_info = pull_child_info(context, name)
        parent = child_info.parent

        common_args = get_common_field_args(
            PartialParamCommon,
            container.parameter
        )

        partial = PartialEntry(
            **common_args,
            directory_name=container.directory.name,
            parameter_name=container.parameter.name,
            sample_entry_references=sample_references,
            _parent=parent,
            _path=child_info.next_path,
            _routines=child_info.routines
        )
        try:
            dir_version = context["_"]["_dir_version"]
            context["_dir_version"] = dir_version
        except KeyError as e:
            pass

        return partial

    def _encode(self, obj, context, path):
        raise NotImplementedError


def new_context(**kw):
    context = Container(**kw)
    context._parsing = True
    context._building = False
    context._sizing = False
    context._params = context
    return context


# ==========================================================================
# Part A - scripted per-sample parser
# ==========================================================================
SCRIPT_STEPS = [
    ("ok", None),
    ("raise", ConstructError), ("raise", ValidationError),
    ("raise", StreamError), ("raise", MappingError),
    ("raise", "unicode"),
    ("raise", KeyError), ("raise", IndexError), ("raise", ValueError),
]
EXTRA_STEPS = [("raise", RuntimeError), ("raise", KeyboardInterrupt),
               ("raise", RequestedInvalidSector)]


class FakeRefParser:
    script = []
    log = []

    def __init__(self, subcon):
        FakeRefParser.log.append(("init", subcon is Pass))

    def _parse(self, stream, context, path):
        ref = context["ref_container"]
        FakeRefParser.log.append(
            ("parse", ref.slot, stream.tell(), path,
             sorted(k for k in context.keys() if not k.startswith("_")))
        )
        kind, exc = FakeRefParser.script[ref.slot]
        if kind == "ok":
            return ("reference", ref.slot)
        if exc == "unicode":
            return b"\xff".decode("ascii")
        raise exc(f"slot {ref.slot}")


class FakePartialSubcon:
    """Stands in for PartialEntryConstruct: yields a ready container."""

    def __init__(self, fail=None):
        self.fail = fail

    def _parse(self, stream, context, path):
        stream.read(3)
        if self.fail is not None:
            raise self.fail("subcon")
        parameter = Container(
            name="PARAM NAME",
            sample_1=Container(slot=0), sample_2=Container(slot=1),
            sample_3=Container(slot=2), sample_4=Container(slot=3),
            output_assign_8=1, stereo_mix_level=2, partial_level=3,
            output_assign_6=4, pan=5, course_tune=6, fine_tune=7,
            breath_cntrl=8, tvf="tvf", tva="tva", lfo_generator="lfo",
        )
        return Container(index=0, directory=Container(name="DIR NAME"),
                         parameter=parameter)


class FakeParent:
    path = ["img", "patch"]


def run_stub(adapter_cls, script, outer, subcon_fail=None):
    FakeRefParser.script = script
    FakeRefParser.log = []
    adapter = adapter_cls(Pass)
    adapter.subcon = FakePartialSubcon(subcon_fail)
    stream = io.BytesIO(b"0123456789")
    if outer == "with_version":
        context = new_context(_=Container(_dir_version=2),
                              _elem_parent=FakeParent(),
                              _elem_routines={"r": len})
    elif outer == "no_outer":
        context = new_context()
    else:
        context = new_context(_=Container(other=1))
    saved = pe.SampleEntryReferenceAdapter
    pe.SampleEntryReferenceAdapter = FakeRefParser
    try:
        partial = adapter._parse(stream, context, "(demo)")
        result = ("ok", partial.directory_name, partial.parameter_name,
                  list(partial.sample_entry_references), partial._path,
                  type(partial._parent).__name__, partial._routines,
                  partial.pan, partial.tvf, partial.breath_cntrl)
    except BaseException as exc:
        result = ("exc", type(exc).__name__, str(exc))
    finally:
        pe.SampleEntryReferenceAdapter = saved
    return (result, list(FakeRefParser.log), stream.tell(),
            context.get("_dir_version", "absent"),
            "ref_container" in context)


def part_a():
    failures = 0
    count = 0
    scripts = list(itertools.product(SCRIPT_STEPS, repeat=4))
    for pos in range(4):
        for step in EXTRA_STEPS:
            script = [("ok", None)] * 4
            script[pos] = step
            scripts.append(tuple(script))
    for i, script in enumerate(scripts):
        outer = ("with_version", "no_outer", "plain")[i % 3]
        count += 1
        got = run_stub(PartialEntryAdapter, script, outer)
        want = run_stub(OrigPartialEntryAdapter, script, outer)
        if got != want:
            failures += 1
            if failures <= 5:
                print("MISMATCH A", script, outer)
                print("  live:", got)
                print("  orig:", want)
    for fail in (ConstructError, KeyError, ValueError):
        count += 1
        got = run_stub(PartialEntryAdapter, scripts[0], "plain", fail)
        want = run_stub(OrigPartialEntryAdapter, scripts[0], "plain", fail)
        if got != want:
            failures += 1
            print("MISMATCH A subcon failure", fail)
    return count, failures


# ==========================================================================
# Part B - real constructs over a synthetic Roland image
# ==========================================================================
class ImageStream(io.RawIOBase):
    """Minimal logging stream over a shared bytearray (no copy per case)."""

    def __init__(self, buf):
        super().__init__()
        self.buf = buf
        self.pos = 0
        self.log = []

    def seek(self, offset, whence=SEEK_SET):
        if whence == SEEK_SET:
            self.pos = offset
        elif whence == SEEK_CUR:
            self.pos += offset
        elif whence == SEEK_END:
            self.pos = len(self.buf) + offset
        self.log.append(("seek", offset, whence))
        return self.pos

    def tell(self):
        self.log.append(("tell", self.pos))
        return self.pos

    def read(self, size=-1):
        if size is None or size < 0:
            size = len(self.buf) - self.pos
        data = bytes(self.buf[self.pos:self.pos + size])
        self.pos += len(data)
        self.log.append(("read", size, len(data)))
        return data


class FakeFat:
    def __init__(self):
        self.log = []

    def get_file(self, index, cluster_offset=0):
        self.log.append((index, cluster_offset))
        if index >= 0xFFF0:
            raise RequestedInvalidSector
        if index % 251 == 250:
            raise IndexError("fat index")
        return io.BytesIO(b"audio-%d-%d" % (index, cluster_offset))


N_PARTIALS = 3
N_SAMPLES = 6
IMAGE_SIZE = SAMPLE_PARAMETER_AREA_OFFSET + SAMPLE_PARAMETER_ENTRY_SIZE * 16


def dir_entry(name, file_type, fat_entry):
    return (name.encode("ascii").ljust(16, b" ") + bytes([file_type, 0])
            + (0).to_bytes(2, "little") + (0).to_bytes(2, "little")
            + (0).to_bytes(2, "little") + b"\0\0\0\0"
            + fat_entry.to_bytes(2, "little") + (1).to_bytes(2, "little"))


def sample_section(selection, seed):
    return (selection.to_bytes(2, "little", signed=True)
            + bytes([(seed * 3 + k) % 120 for k in range(9)]))


def partial_param(name, selections):
    s = [sample_section(sel, i + 1) for i, sel in enumerate(selections)]
    raw = (name.encode("ascii").ljust(16, b" ")
           + s[0] + b"\0" + bytes([1, 2, 3, 4])
           + s[1] + b"\0" + bytes([5, 6, 7, 8])
           + s[2] + b"\0" * 5
           + s[3])
    raw = raw + bytes((k * 7) % 100 for k in range(PARTIAL_PARAMETER_ENTRY_SIZE - len(raw)))
    assert len(raw) == PARTIAL_PARAMETER_ENTRY_SIZE
    return raw


def sample_param(name, j):
    raw = (name.encode("ascii").ljust(16, b" ")
           + (0x100 * j).to_bytes(4, "little") * 5
           + bytes([j % 7, 1, 0, 0])
           + (j % 3).to_bytes(2, "little") + (4).to_bytes(2, "little")
           + bytes([0x01, 60 + j]) + b"\0\0")
    assert len(raw) == SAMPLE_PARAMETER_ENTRY_SIZE, len(raw)
    return raw


SELECTIONS = [
    [0, 1, -1, -1],
    [2, 3, 4, 5],
    [1, -1, 5, 0x2000],      # last one fails the index validator
]


def build_image():
    buf = bytearray(IMAGE_SIZE)
    for i in range(N_PARTIALS):
        a = PARTIAL_DIRECTORY_AREA_OFFSET + PARTIAL_DIRECTORY_ENTRY_SIZE * i
        buf[a:a + 0x20] = dir_entry("PARTIAL %d" % i, 0x43, 0)
        b = PARTIAL_PARAMETER_AREA_OFFSET + PARTIAL_PARAMETER_ENTRY_SIZE * i
        buf[b:b + PARTIAL_PARAMETER_ENTRY_SIZE] = partial_param("PPARAM %d" % i, SELECTIONS[i])
    for j in range(N_SAMPLES):
        a = SAMPLE_DIRECTORY_AREA_OFFSET + SAMPLE_DIRECTORY_ENTRY_SIZE * j
        buf[a:a + 0x20] = dir_entry("SAMPLE %d" % j, 0x44, 10 + j)
        b = SAMPLE_PARAMETER_AREA_OFFSET + SAMPLE_PARAMETER_ENTRY_SIZE * j
        buf[b:b + SAMPLE_PARAMETER_ENTRY_SIZE] = sample_param("SPARAM %d" % j, j)
    return buf


def make_list_construct(adapter_cls):
    return SafeListConstruct(
        lambda this: len(this.partial_list),
        adapter_cls(PartialEntryConstruct(
            lambda this: this.partial_list[this._index]
        ))
    )


LIVE_LIST = make_list_construct(PartialEntryAdapter)
ORIG_LIST = make_list_construct(OrigPartialEntryAdapter)


def describe(partial):
    refs = []
    for ref in partial.sample_entry_references:
        s = ref.sample_entry
        refs.append((s.directory_name, s.parameter_name, s.index, s.path,
                     s._data_stream.getvalue(), str(s.loop_mode),
                     s.sampling_frequency, str(s.original_key),
                     ref.pitch_kf, ref.sample_level, ref.pan, ref.coarse_tune,
                     ref.fine_tune, ref.smt_velocity_lower,
                     ref.smt_velocity_upper, ref.smt_fade_with_lower,
                     ref.smt_fade_with_upper))
    children = [(c.name, c.path) for c in partial.sample_entries]
    return (partial.name, partial.parameter_name, partial.path,
            partial.partial_level, refs, children)


def run_real(list_construct, buf, partial_list):
    stream = ImageStream(buf)
    fat = FakeFat()
    context = new_context(partial_list=partial_list,
                          _elem_parent=FakeParent(),
                          _elem_routines={"same": lambda items: items},
                          _=Container(fat=fat))
    try:
        partials = list_construct._parse(stream, context, "(demo)")
        result = ("ok", [describe(p) for p in partials])
    except Exception as exc:
        result = ("exc", type(exc).__name__, str(exc))
    return result, stream.log, stream.pos, fat.log, context.get("_index")


def part_b():
    failures = 0
    count = 0
    buf = build_image()
    seen_shapes = set()

    def compare(partial_list, label):
        nonlocal failures, count
        count += 1
        got = run_real(LIVE_LIST, buf, partial_list)
        want = run_real(ORIG_LIST, buf, partial_list)
        if got[0][0] == "ok":
            seen_shapes.add(tuple(len(p[4]) for p in got[0][1]))
        else:
            seen_shapes.add(got[0][1])
        if got != want:
            failures += 1
            if failures <= 5:
                print("MISMATCH B", label)
                print("  live:", got[0])
                print("  orig:", want[0])

    compare([0, 1, 2], "good image")
    compare([2, 0], "good image, other order")
    compare([], "empty list")
    compare([1, 5000, 0, -1, 2], "out-of-range partial indices")
    assert (2, 4, 2) in seen_shapes, seen_shapes   # sanity: the demo really parses

    sparse_values = sorted(set(range(0, 256, 11)) | {1, 31, 32, 127, 128, 255})

    def damage_range(start, length, label, hot=None):
        # every value for the structurally interesting ("hot") bytes,
        # a spread of values for the others (keeps the run time reasonable)
        for offset in range(start, start + length):
            original = buf[offset]
            exhaustive = hot is None or (offset - start) in hot
            for value in (range(256) if exhaustive else sparse_values):
                if value == original:
                    continue
                buf[offset] = value
                compare([0, 1, 2], f"{label} +{offset - start} = {value}")
            buf[offset] = original

    # sample 1 is shared by partial 0 and partial 2; sample 3 only by partial 1
    damage_range(SAMPLE_DIRECTORY_AREA_OFFSET + SAMPLE_DIRECTORY_ENTRY_SIZE * 1,
                 SAMPLE_DIRECTORY_ENTRY_SIZE, "sample 1 directory",
                 hot={0, 15, 16, 28, 29})       # name ends, type, fat entry
    damage_range(SAMPLE_PARAMETER_AREA_OFFSET + SAMPLE_PARAMETER_ENTRY_SIZE * 3,
                 SAMPLE_PARAMETER_ENTRY_SIZE, "sample 3 parameter",
                 hot={0, 15, 36, 40, 41, 44, 45})  # name, loop mode, cluster top, options, key
    # sample-selection fields (2 bytes each) of partial 1
    base = PARTIAL_PARAMETER_AREA_OFFSET + PARTIAL_PARAMETER_ENTRY_SIZE * 1
    for section_offset in (16, 32, 48, 64):
        damage_range(base + section_offset, 2, f"partial 1 selection@{section_offset}")

    # random multi-byte damage confined to one record
    rng = random.Random(414)
    records = (
        [(SAMPLE_DIRECTORY_AREA_OFFSET + SAMPLE_DIRECTORY_ENTRY_SIZE * j, SAMPLE_DIRECTORY_ENTRY_SIZE) for j in range(N_SAMPLES)]
        + [(SAMPLE_PARAMETER_AREA_OFFSET + SAMPLE_PARAMETER_ENTRY_SIZE * j, SAMPLE_PARAMETER_ENTRY_SIZE) for j in range(N_SAMPLES)]
        + [(PARTIAL_PARAMETER_AREA_OFFSET + PARTIAL_PARAMETER_ENTRY_SIZE * i, PARTIAL_PARAMETER_ENTRY_SIZE) for i in range(N_PARTIALS)]
        + [(PARTIAL_DIRECTORY_AREA_OFFSET + PARTIAL_DIRECTORY_ENTRY_SIZE * i, PARTIAL_DIRECTORY_ENTRY_SIZE) for i in range(N_PARTIALS)]
    )
    for k in range(1500):
        start, length = rng.choice(records)
        saved = bytes(buf[start:start + length])
        for _ in range(rng.randrange(1, 8)):
            buf[start + rng.randrange(length)] = rng.randrange(256)
        compare([0, 1, 2], f"random damage #{k} at {start:#x}")
        buf[start:start + length] = saved

    print("  part B outcome shapes seen:", sorted(map(str, seen_shapes)))
    return count, failures


def main():
    count_a, fail_a = part_a()
    print(f"part A: {count_a} scripts compared, {fail_a} mismatches")
    count_b, fail_b = part_b()
    print(f"part B: {count_b} images compared, {fail_b} mismatches")
    return 1 if (fail_a or fail_b) else 0


if __name__ == "__main__":
    sys.exit(main())
