"""Equivalence demo for r20: base.Element.path and base.Element.parent (the
`if hasattr(...): result = self._x / else: result = <default> / return result`
blocks written as one conditional expression each) versus inline copies of the
ORIGINAL properties.

1. objects of every flavour: attribute set by Element.__init__, missing
   (subclass that never calls __init__), deleted, None / empty / falsy values,
   class-level attributes (like structural.Image's ClassVars), dataclass
   fields (generalized Sample), descriptors that raise AttributeError or
   other exceptions, and classes with a logging __getattr__/__getattribute__:
   same value (identity, except that the default [] is a fresh empty list in
   both versions), same exceptions, same sequence of attribute look-ups;
2. the consumers on the hand-over path: random directory trees walked with
   Traversable.export_samples into a recording ExportManager, once with the
   current properties and once with node classes that override `path` and
   `parent` with the original code: same set_level levels, same hand-over
   lists after renaming + L/R pairing, same output paths (export_path walks
   path/parent), same channel counts.
Nothing is written to disk.
Exit 0 when everything agrees, 1 otherwise.
"""
import random
import sys
from typing import List
from typing import Optional

from smpl_extract.base import Element
from smpl_extract.base import ElementTypes
from smpl_extract.data_streams import DataStream
from smpl_extract.generalized.sample import Sample
from smpl_extract.structural import ExportManager
from smpl_extract.structural import Image
from smpl_extract.structural import SampleElement
from smpl_extract.structural import Traversable


# verbatim copies of the ORIGINAL property bodies
def original_path(self) -> List[str]:
    if hasattr(self, "_path"):
        result = self._path
    else:
        result = []
    return result


def original_parent(self) -> Optional['Element']:
    if hasattr(self, "_parent"):
        result = self._parent
    else:
        result = None
    return result


current_path = Element.path.fget
current_parent = Element.parent.fget

failures = []


def check(cond, what):
    if not cond:
        failures.append(what)
        if len(failures) <= 20:
            print("MISMATCH:", what)


def outcome(func, obj):
    try:
        return ("ok", func(obj))
    except BaseException as e:  # noqa
        return ("exc", type(e), str(e))


def same(a, b):
    if a[0] != b[0]:
        return False
    if a[0] == "exc":
        return a[1:] == b[1:]
    if a[1] is b[1]:
        return True
    # the default of `path` is a new empty list on every call
    return type(a[1]) is list and type(b[1]) is list and a[1] == [] and b[1] == []


# --------------------------------------------------------------------------
# 1. object flavours
# --------------------------------------------------------------------------
class Plain(Element):
    name = "plain"
    type_name = "Plain"
    type_id = ElementTypes.ProgramEntry

    def get_info(self):
        return None


class NoInit(Plain):
    def __init__(self):
        pass


class ClassLevel(NoInit):
    _path = ["from", "class"]
    _parent = "class parent"


class ClassLevelEmpty(NoInit):
    _path: list = []
    _parent = None


class RaisesAttributeError(NoInit):
    @property
    def _path(self):
        raise AttributeError("hidden _path")

    @property
    def _parent(self):
        raise AttributeError("hidden _parent")


class RaisesOther(NoInit):
    @property
    def _path(self):
        raise KeyError("broken _path")

    @property
    def _parent(self):
        raise ZeroDivisionError("broken _parent")


class FlipFlop(NoInit):
    """second look-up behaves differently from the first one"""

    def __init__(self, pattern):
        self.__dict__["pattern"] = list(pattern)

    def __getattr__(self, name):
        if name in ("_path", "_parent"):
            step = self.__dict__["pattern"].pop(0) if self.__dict__["pattern"] else "missing"
            if step == "missing":
                raise AttributeError(name)
            if step == "error":
                raise RuntimeError("boom " + name)
            return step
        raise AttributeError(name)


LOG = []


class Logging(Plain):
    def __getattribute__(self, name):
        if name.startswith("_p"):
            LOG.append(name)
        return object.__getattribute__(self, name)


class LoggingMissing(NoInit):
    def __getattr__(self, name):
        LOG.append(("getattr", name))
        raise AttributeError(name)


class Slotted(Element):
    __slots__ = ("_path", "_parent")
    name = "slotted"
    type_name = "Slotted"
    type_id = ElementTypes.ProgramEntry

    def __init__(self, fill):
        if fill:
            self._path = ["s"]
            self._parent = None

    def get_info(self):
        return None


def build_objects():
    shared_parent = Plain(["root"], None)
    objs = [
        Plain(),
        Plain(None, None),
        Plain([], None),
        Plain(["a"], shared_parent),
        Plain(["a", "b", "c"], shared_parent),
        Plain(("t", "u"), 0),
        NoInit(),
        ClassLevel(),
        ClassLevelEmpty(),
        RaisesAttributeError(),
        RaisesOther(),
        Slotted(True),
        Slotted(False),
        Logging(["x"], shared_parent),
        LoggingMissing(),
        Image(lambda ctx: []),
        Traversable(lambda ctx: [], path=["v"], parent=shared_parent),
        Sample(name="s"),
        Sample(name="s", _path=["vol", "s"], _parent=shared_parent),
    ]
    deleted = Plain(["gone"], shared_parent)
    del deleted._path
    del deleted._parent
    objs.append(deleted)
    overwritten = Plain(["old"], None)
    overwritten._path = None
    overwritten._parent = ""
    objs.append(overwritten)
    instance_over_class = ClassLevel()
    instance_over_class._path = ["instance"]
    objs.append(instance_over_class)
    return objs


num = 0
for obj in build_objects():
    for current, original, label in (
        (current_path, original_path, "path"),
        (current_parent, original_parent, "parent"),
    ):
        del LOG[:]
        a = outcome(current, obj)
        log_a = list(LOG)
        del LOG[:]
        b = outcome(original, obj)
        log_b = list(LOG)
        check(same(a, b), (label, type(obj).__name__, a, b))
        check(log_a == log_b, (label + " look-ups", type(obj).__name__, log_a, log_b))
        # through the property as well
        c = outcome(lambda o: getattr(o, label), obj)
        check(same(c, b), (label + " property", type(obj).__name__, c, b))
        num += 1

for pattern in (
    [], ["v1"], ["v1", "v2"], ["v1", "missing"], ["v1", "error"], ["missing", "v2"],
    ["error", "v2"], [None, None], [0, 1], [[], ["x"]],
):
    for current, original, label in (
        (current_path, original_path, "path"),
        (current_parent, original_parent, "parent"),
    ):
        a = outcome(current, FlipFlop(pattern))
        b = outcome(original, FlipFlop(pattern))
        check(same(a, b), (label + " flipflop", pattern, a, b))
        num += 1

# a fresh default list each time, never shared
p1, p2 = NoInit().path, NoInit().path
check(p1 == [] and p2 == [] and p1 is not p2, "fresh default list")
check(NoInit().parent is None, "default parent")


# --------------------------------------------------------------------------
# 2. hand-over path
# --------------------------------------------------------------------------
class OriginalProps:
    path = property(original_path)
    parent = property(original_parent)


class FakeStream:
    pass


class Leaf(SampleElement):
    type_name = "leaf"

    def __init__(self, name, path=None, parent=None, init=True):
        if init:
            Element.__init__(self, path, parent)
        self.name = name

    def to_generalized(self):
        return Sample(
            name=self.name,
            data_streams=[DataStream(FakeStream())],
            _parent=self.parent,
            _path=self.path,
            _safe_name=self.safe_name,
            _export_name=self.export_name
        )


class OrigLeaf(OriginalProps, Leaf):
    pass


class Dir(Traversable):
    def __init__(self, name, kids_spec, classes, routines, path, parent):
        self.name = name
        leaf_cls, dir_cls = classes

        def realize(ctx):
            out = []
            for spec in kids_spec:
                if isinstance(spec, tuple):
                    out.append(dir_cls(spec[0], spec[1], classes, routines,
                                       self.path + [spec[0]], self))
                elif spec.startswith("!"):
                    out.append(leaf_cls(spec[1:], init=False))
                else:
                    out.append(leaf_cls(spec, self.path + [spec], self))
            return out
        super().__init__(realize, routines, path, parent, "dir")


class OrigDir(OriginalProps, Dir):
    pass


class Recorder(ExportManager):
    def __init__(self, routines):
        super().__init__("out", routines)
        self.events = []

    def set_level(self, level):
        self.events.append(("level", level))
        super().set_level(level)

    def export_samples(self):
        samples = self.samples
        for f_routine in self.routines.values():
            samples = f_routine(samples)
        for sample in samples:
            self.events.append((
                "export", self.make_output_path(sample), sample.num_channels,
                tuple(sample.path), getattr(sample.parent, "name", None)
            ))
        self.samples.clear()


rng = random.Random(2005)
stems = ["PAD", "PAD 2", "BASS", "L", "R", "X.", "Y-"]
suffixes = ["", "-L", "-R", " L", " R", " -L", "--R", "."]


def random_spec(depth):
    out = []
    for _ in range(rng.randint(0, 6)):
        r = rng.random()
        if r < 0.2 and depth < 3:
            out.append((rng.choice(stems) + rng.choice(suffixes), random_spec(depth + 1)))
        elif r < 0.28:
            out.append("!" + rng.choice(stems) + rng.choice(suffixes))
        else:
            out.append(rng.choice(stems) + rng.choice(suffixes))
    if rng.random() < 0.5:
        stem, sep = rng.choice(stems), rng.choice(["-", " ", " -"])
        out.extend([stem + sep + "L", stem + sep + "R"])
    if out and rng.random() < 0.4:
        dup = rng.choice(out)
        out.append(dup)
    rng.shuffle(out)
    return out


def walk(classes, spec):
    image = Image(lambda ctx: [])
    routines = {
        "make_safe_names": image.make_safe_names_routine,
        "make_export_names": image.make_export_names_routine
    }
    root = classes[1]("root", spec, classes, routines, ["root"], image)
    manager = Recorder({"combine_stereo": image.combine_stereo_routine})
    try:
        root.export_samples(manager)
    except BaseException as e:  # noqa
        manager.events.append(("exc", type(e), str(e)))
    return manager.events


total_events = 0
for trial in range(600):
    spec = random_spec(0)
    a = walk((Leaf, Dir), spec)
    b = walk((OrigLeaf, OrigDir), spec)
    check(a == b, ("tree", spec, a, b))
    total_events += len(a)
    num += 1
check(total_events > 3000, ("tree walk produced events", total_events))

print(f"r20 demo: {num} scenarios ({total_events} hand-over events), "
      f"{len(failures)} mismatches")
sys.exit(1 if failures else 0)
