"""Equivalence demo for the refactoring of the line regexes of
smpl_extract/cuesheet.py (property C17, mechanism "line regexes
(case-insensitive)"): the four pattern strings are hoisted into one
module-level table _LINE_PATTERNS (kind -> pattern), every pattern starts with
the inline flag `(?i)` instead of being compiled with `flags=re.I`, the table
is compiled by a dict comprehension into _LINE_REGEXES and the four constants
_TRACK_LINE_REGEX, _TITLE_LINE_REGEX, _INDEX_LINE_REGEX, _FILE_LINE_REGEX are
looked up in it.

The live module is compared with an inline copy of the ORIGINAL cuesheet.py
(executed into a private module object):
  * each of the four compiled regexes has the same flags (re.I | re.U), the
    same number of groups and the same (empty) group index, and - for a few
    thousand candidate lines, among them every keyword in several letter
    cases, characters that only match under IGNORECASE through Unicode case
    folding (long s, Kelvin sign, dotted / dotless i), non-ASCII digits and
    blanks, missing or doubled quotes, random line soups - match(),
    fullmatch() and search() give the same span, groups() and group(0);
  * the pattern text of each live regex is the original text, optionally
    prefixed with the inline flag `(?i)`;
  * get_nonempty_entry, CueSheetTrackAdapter.parse, CueSheetFileAdapter.parse
    and parse_cue_sheet give the same result (dataclasses compared field by
    field), the same remaining lines, the same exception (type, args, cause /
    context types) and leave the caller's list in the same state, for
    canonical cue sheets under all the cosmetic transformations of the
    property (keyword case, leading / trailing blanks, blank lines, unknown
    lines at every position - before the FILE line included), for sheets
    with 0..3 FILE entries of which any one may be broken, for track bodies
    made of every ordering of body-line kinds and for random line soups.
Exit status 0 when everything agrees, 1 otherwise.
"""
import dataclasses
import itertools
import random
import re
import sys
import types

import smpl_extract.cuesheet as live


ORIGINAL_SRC = r'''
from dataclasses import dataclass
from dataclasses import field
import re
from typing import List
from typing import Optional
from typing import Protocol
from typing import Tuple
from typing import TypeVar


class BadCueSheet(Exception): pass


def get_nonempty_entry(lines: List[str]) -> Tuple[str, List[str]]:
    text = ""
    while len(lines):
        text = lines.pop(0).strip()
        if len(text):
            break
    return text, lines


T = TypeVar("T", covariant=True)
class CueItemAdapter(Protocol[T]):
    def parse(self, lines: List[str]) -> T: ...


_AUDIO_FRAMES_PER_SECOND = 75
@dataclass
class CueSheetIndex:
    number: int = 0
    n_minutes: int = 0
    n_seconds: int = 0
    n_frames: int = 0

    def get_total_audio_frames(self) -> int:
        total_seconds = 60*self.n_minutes + self.n_seconds
        total_frames = _AUDIO_FRAMES_PER_SECOND*total_seconds + \
            self.n_frames
        return total_frames


@dataclass
class CueSheetTrack:
    number: int = 0
    mode: str = ""
    title: Optional[str] = None
    indices: List[CueSheetIndex] = field(default_factory=list)
    unparsed: List = field(default_factory=list)


_TRACK_LINE_REGEX = re.compile(r"\s*TRACK\s+(\d+)\s+([A-z\d\/]+)", flags=re.I)
_TITLE_LINE_REGEX = re.compile(r"\s*TITLE\s+\"(.*?)\"", flags=re.I)
_INDEX_LINE_REGEX = re.compile(r"\s*INDEX\s+(\d+)\s+(\d+):(\d+):(\d+)", flags=re.I)
class CueSheetTrackAdapter:
    @classmethod
    def parse(cls, lines: List[str]):
        text, lines = get_nonempty_entry(lines)
        if len(text) <= 0:
            raise BadCueSheet
        result = _TRACK_LINE_REGEX.match(text)
        if not result:
            raise BadCueSheet
        track_number = int(result.groups()[0])
        track_mode = result.groups()[1]
        track = CueSheetTrack(
            track_number,
            track_mode
        )

        while len(lines):
            text, lines = get_nonempty_entry(lines)
            if len(text) <= 0:
                break

            # Check if next track began
            result = _TRACK_LINE_REGEX.match(text)
            if result:
                lines = [text] + lines
                break

            # check known properties
            result = _INDEX_LINE_REGEX.match(text)
            if result:
                index_number = int(result.groups()[0])
                n_minutes = int(result.groups()[1])
                n_seconds = int(result.groups()[2])
                n_frames = int(result.groups()[3])
                index = CueSheetIndex(
                    index_number,
                    n_minutes,
                    n_seconds,
                    n_frames
                )
                track.indices.append(index)
                continue

            result = _TITLE_LINE_REGEX.match(text)
            if result:
                title = result.groups()[0]
                track.title = title
                continue

            track.unparsed.append(text)

        return track, lines


@dataclass
class CueSheetFile:
    bin_file_name: str
    tracks: List[CueSheetTrack] = field(default_factory=list)


_FILE_LINE_REGEX = re.compile(r"\s*FILE\s+\"(.*?)\"\s+BINARY", flags=re.I)
class CueSheetFileAdapter:


    @classmethod
    def parse(cls, lines: List[str]):
        text, lines = get_nonempty_entry(lines)
        if len(text) <= 0:
            raise BadCueSheet
        result = _FILE_LINE_REGEX.match(text)
        if not result:
            raise BadCueSheet

        bin_file_name = result.groups()[0]
        cue_sheet = CueSheetFile(bin_file_name)
        while len(lines):
            text, lines = get_nonempty_entry(lines)
            if len(text) <= 0:
                break
            lines = [text] + lines
            track, lines = CueSheetTrackAdapter.parse(lines)
            if track:
                cue_sheet.tracks.append(track)

        return cue_sheet, lines


def parse_cue_sheet(lines: List[str]) -> CueSheetFile:
    cue_sheet_files = []
    while len(lines):
        text, lines = get_nonempty_entry(lines)
        match_result = _FILE_LINE_REGEX.match(text)
        if match_result:
            lines = [text] + lines
            cue_sheet_file, lines = CueSheetFileAdapter.parse(lines)
            cue_sheet_files.append(cue_sheet_file)

    if len(cue_sheet_files) <= 0:
        raise BadCueSheet("No FILE entry")

    result = cue_sheet_files[0]
    return result
'''

orig = types.ModuleType("original_cuesheet")
sys.modules["original_cuesheet"] = orig     # dataclasses look the module up
exec(compile(ORIGINAL_SRC, "<original cuesheet.py>", "exec"), orig.__dict__)

failures = []
n_checks = 0


def check(what, a, b):
    global n_checks
    n_checks += 1
    if a != b:
        failures.append(what)
        if len(failures) <= 20:
            print("MISMATCH", what, "\n   original:", repr(a)[:300],
                  "\n   live:    ", repr(b)[:300])


def plain(value):
    """Module-independent picture of a result."""
    if dataclasses.is_dataclass(value) and not isinstance(value, type):
        return (type(value).__name__,
                [(f.name, plain(getattr(value, f.name)))
                 for f in dataclasses.fields(value)])
    if isinstance(value, tuple):
        return ("tuple", [plain(v) for v in value])
    if isinstance(value, list):
        return ("list", [plain(v) for v in value])
    return (type(value).__name__, value)


def outcome(func, lines):
    """Run func on a private copy of lines; report result or exception and
    what happened to the caller's list (content, and whether the returned
    remaining-lines object is the caller's list itself)."""
    mine = list(lines)
    try:
        result = func(mine)
    except Exception as e:      # noqa
        return ("raise", type(e).__name__, e.args,
                type(e.__cause__).__name__, type(e.__context__).__name__,
                mine)
    same_object = None
    if isinstance(result, tuple) and len(result) == 2:
        same_object = result[1] is mine
    return ("return", plain(result), same_object, mine)


# ---- 1. the regexes themselves --------------------------------------------
def find_regex(module, name):
    if hasattr(module, name):
        return getattr(module, name)
    for cls_name in ("CueSheetTrackAdapter", "CueSheetFileAdapter"):
        cls = getattr(module, cls_name)
        if hasattr(cls, name):
            return getattr(cls, name)
    raise AttributeError(name)


REGEX_NAMES = ("_TRACK_LINE_REGEX", "_TITLE_LINE_REGEX", "_INDEX_LINE_REGEX",
               "_FILE_LINE_REGEX")


def case_variants(word):
    yield word
    yield word.lower()
    yield word.capitalize()
    yield word.swapcase()
    yield "".join(c.lower() if i % 2 else c.upper() for i, c in enumerate(word))


def line_corpus():
    rng = random.Random(1713)
    corpus = ["", " ", "\t", "\n", "FILE", "TRACK", "INDEX", "TITLE",
              "FILE \"a.bin\" BINARY", "FILE \"a.bin\" WAVE", "FILE a.bin BINARY",
              "FILE \"\" BINARY", "FILE \"a \"b\" c.bin\" BINARY x",
              "FILE\"a.bin\"BINARY", "FILE\t\"a.bin\"\tBINARY",
              "XFILE \"a.bin\" BINARY", "REM FILE \"a.bin\" BINARY",
              "TRACK 01 AUDIO", "TRACK 1 MODE1/2352", "TRACK 99 MODE2/2336 x",
              "TRACK 01", "TRACK AUDIO", "TRACK 01AUDIO", "TRACK 01 [\\]^_`",
              "TRACK 01 !", "TRACK ١ AUDIO", "TRACK 01 É",
              "TRACK 01 ſK", "TRACK 01 AUDIO", "TİTLE \"x\"",
              "ſILE \"a\" BINARY", "FıLE \"a\" BINARY",
              "INDEX 01 00:00:00", "INDEX 1 1:2:3", "INDEX 01 00:02:00 junk",
              "INDEX 01 00:00", "INDEX 01 00-00-00", "INDEX 01  99:59:74",
              "INDEX 01 00 : 00 : 00", "INDEX -1 00:00:00",
              "TITLE \"x\"", "TITLE \"\"", "TITLE \"a\" \"b\"", "TITLE x",
              "TITLE \"unterminated", "TITLE 'x'", "TITLE   \"  spaced  \"",
              "PERFORMER \"p\"", "FLAGS DCP", "PREGAP 00:02:00", "REM x",
              "CATALOG 0000000000000", "ISRC ABCDE1234567",
              "TRAC\u212a 01 AUDIO", "trac\u212a 1 audio", "\u017fILE \"a\" BINARY",
              "FILE \"a\" B\u0130NARY", "FILE \"a\" B\u0131NARY", "T\u0130TLE \"x\"",
              "T\u0131TLE \"x\"", "\u0130NDEX 01 00:00:00", "\u0131NDEX 01 00:00:00",
              "TRACK 01 \u017f\u212a\u00e9", "TRACK 01 mode1/\u0662\u0663\u0665\u0662",
              "TRACK\u2003 01\u00a0AUDIO", "FILE\u3000\"a\"\u2028BINARY",
              "INDEX\x1f01\x1c00:00:00", "TITLE\x85\"x\"", "TITLE \"a\nb\"",
              "FILE \"a\nb\" BINARY", "\n TRACK 01 AUDIO", "(?i)TRACK 01 AUDIO"]
    extra = []
    for line in corpus:
        words = line.split(" ")
        if words and words[0].isalpha():
            for v in case_variants(words[0]):
                extra.append(" ".join([v] + words[1:]))
        for pre, post in (("  ", ""), ("\t", " "), ("", "\r\n"), (" \t ", "\n"),
                          ("\x0b", "\x0c"), ("\xa0", "\xa0")):
            extra.append(pre + line + post)
    corpus += extra
    alphabet = "FILETRACKINDEXTITLEfiletrackindextitle \t\"0123456789:/AUDIObinary"
    for _ in range(3000):
        n = rng.randint(0, 30)
        corpus.append("".join(rng.choice(alphabet) for _ in range(n)))
    return corpus


CORPUS = line_corpus()
for name in REGEX_NAMES:
    a, b = find_regex(orig, name), find_regex(live, name)
    check(name + ".pattern (inline flag aside)", a.pattern,
          b.pattern[4:] if b.pattern.startswith("(?i)") else b.pattern)
    check(name + ".flags", a.flags, b.flags)
    check(name + ".flags value", int(re.I | re.U), int(b.flags))
    check(name + ".groups", a.groups, b.groups)
    check(name + ".groupindex", dict(a.groupindex), dict(b.groupindex))
    for line in CORPUS:
        for candidate in (line, line.strip()):
            for method in ("match", "fullmatch", "search"):
                ma = getattr(a, method)(candidate)
                mb = getattr(b, method)(candidate)
                check("%s.%s(%r)" % (name, method, candidate),
                      ma and (ma.span(), ma.groups(), ma.group(0), ma.lastindex),
                      mb and (mb.span(), mb.groups(), mb.group(0), mb.lastindex))


# ---- 2. the parsers --------------------------------------------------------
FUNCS = (
    ("get_nonempty_entry", lambda m: m.get_nonempty_entry),
    ("CueSheetTrackAdapter.parse", lambda m: m.CueSheetTrackAdapter.parse),
    ("CueSheetFileAdapter.parse", lambda m: m.CueSheetFileAdapter.parse),
    ("parse_cue_sheet", lambda m: m.parse_cue_sheet),
)


def compare_all(label, lines):
    for fname, getter in FUNCS:
        check("%s %s %r" % (fname, label, lines),
              outcome(getter(orig), lines), outcome(getter(live), lines))


def canonical(n_tracks, mode_of=lambda i: "AUDIO", eol="\n"):
    lines = ["FILE \"disc%d.bin\" BINARY" % n_tracks + eol]
    for i in range(1, n_tracks + 1):
        lines.append("  TRACK %02d %s%s" % (i, mode_of(i), eol))
        lines.append("    TITLE \"Song %d\"%s" % (i, eol))
        if i % 2 == 0:
            lines.append("    INDEX 00 %02d:%02d:%02d%s" % (i, 2*i, 3*i, eol))
        lines.append("    INDEX 01 %02d:%02d:%02d%s" % (i, 2*i + 2, 3*i, eol))
    return lines


def recase(line, how):
    stripped = line.lstrip()
    lead = line[:len(line) - len(stripped)]
    parts = stripped.split(" ", 1)
    parts[0] = how(parts[0])
    out = lead + " ".join(parts)
    if out.rstrip().endswith("BINARY"):
        body = out.rstrip()
        out = body[:-6] + how("BINARY") + out[len(body):]
    return out


CASE_HOWS = (str.upper, str.lower, str.capitalize, str.swapcase)
UNKNOWN = ("REM comment\n", "PERFORMER \"Someone\"\n", "FLAGS DCP\n",
           "PREGAP 00:02:00\n", "\n", "   \t \n", "CATALOG 1234567890123\n",
           "REM FILE \"x.bin\" BINARY\n", "REM TRACK 01 AUDIO\n",
           "title without quotes\n", "INDEX 01 00:00\n",
           "REM TITLE \"hidden\"\n", "REM INDEX 09 09:09:09\n",
           "xTRACK 09 AUDIO\n")

sheets = []
for n in (1, 2, 3, 5):
    sheets.append(canonical(n))
    sheets.append(canonical(n, lambda i: "MODE1/2352" if i == 1 else "AUDIO"))
    sheets.append(canonical(n, eol="\r\n"))
    sheets.append(canonical(n, eol=""))

for sheet in sheets:
    compare_all("canonical", sheet)
    for how in CASE_HOWS:
        compare_all("recased", [recase(l, how) for l in sheet])
    for pre, post in (("", ""), ("   ", "  \n"), ("\t", "\t\r\n")):
        compare_all("spaced", [pre + l.strip() + post for l in sheet])
    for pos in range(len(sheet) + 1):
        for extra in UNKNOWN:
            compare_all("inserted", sheet[:pos] + [extra] + sheet[pos:])
        # truncation and removal
        compare_all("truncated", sheet[:pos])
        compare_all("suffix", sheet[pos:])
        if pos < len(sheet):
            compare_all("removed", sheet[:pos] + sheet[pos+1:])

# several FILE entries, FILE after junk, nothing at all
two = canonical(2) + canonical(3, lambda i: "MODE2/2336")
compare_all("two files", two)
compare_all("two files, second broken", canonical(2) + ["FILE \"b.bin\" BINARY\n", "REM no track\n"])
compare_all("file then junk", ["FILE \"b.bin\" BINARY\n", "REM no track\n"])
compare_all("file only", ["FILE \"b.bin\" BINARY\n"])
compare_all("file wave", ["FILE \"b.wav\" WAVE\n", "TRACK 01 AUDIO\n"])
compare_all("empty", [])
compare_all("blank", ["\n", "  \n", "\t"])
compare_all("no file", ["TRACK 01 AUDIO\n", "INDEX 01 00:00:00\n"])

# track bodies: every ordering of body-line kinds after a TRACK header
BODY_KINDS = ["INDEX 01 00:02:00\n", "index 00 0:0:0\n", "TITLE \"A\"\n",
              "Title \"B\" trailing\n", "REM note\n", "FLAGS DCP\n", "\n",
              "TRACK 02 AUDIO\n", "  track 3 mode1/2352 \n",
              "INDEX 01 00:02\n", "TITLE noquote\n",
              "INDEX \u0661 \u0662:\u0663:\u0664\n",
              "INDEX 01 00:00:" + "9" * 5000 + "\n",
              "INDEX 007 0010:0020:0030 TITLE \"both\"\n",
              "TITLE \"INDEX 01 00:00:00\"\n"]
for n in (0, 1, 2, 3):
    for body in itertools.permutations(BODY_KINDS, n):
        for header in (["TRACK 01 AUDIO\n"], ["\n", " Track 1 Mode2/2336\n"],
                       ["FILE \"f.bin\" BINARY\n", "TRACK 01 AUDIO\n"]):
            compare_all("body", header + list(body))

# 0..3 FILE entries, each good / without tracks / with a broken track header /
# non-BINARY (so not a FILE entry at all), with junk in between
def file_entry(name, kind):
    if kind == "good":
        return ["FILE \"%s\" BINARY\n" % name, " TRACK 01 MODE1/2352\n",
                "  INDEX 01 00:00:00\n", " TRACK 02 AUDIO\n", "  TITLE \"%s two\"\n" % name]
    if kind == "lower":
        return ["  file \"%s\" binary \n" % name, "track 1 audio\n", "index 1 0:2:0\n"]
    if kind == "no tracks":
        return ["FILE \"%s\" BINARY\n" % name]
    if kind == "broken":      # first body line is not a TRACK line -> BadCueSheet
        return ["FILE \"%s\" BINARY\n" % name, "REM not a track\n", "TRACK 01 AUDIO\n"]
    if kind == "huge":        # int() limit -> ValueError out of the track parser
        return ["FILE \"%s\" BINARY\n" % name, "TRACK " + "1" * 5000 + " AUDIO\n"]
    if kind == "wave":
        return ["FILE \"%s\" WAVE\n" % name, "TRACK 01 AUDIO\n"]
    raise ValueError(kind)


ENTRY_KINDS = ("good", "lower", "no tracks", "broken", "huge", "wave")
MULTI = []
for n_files in (0, 1, 2, 3):
    for kinds in itertools.product(ENTRY_KINDS, repeat=n_files):
        for junk in ([], ["REM between\n", "\n"]):
            sheet = list(junk)
            for i, kind in enumerate(kinds):
                sheet += file_entry("f%d.bin" % i, kind) + junk
            MULTI.append(sheet)
            compare_all("multi file", sheet)


# random line soups
rng = random.Random(17)
pool = ["FILE \"r.bin\" BINARY\n", "file \"s.bin\" binary\n", "TRACK 01 AUDIO\n",
        "track 2 mode1/2352\n", "  Track 03 Audio  \n", "INDEX 01 00:00:00\n",
        "index 0 1:2:3\n", "TITLE \"t\"\n", "title \"\"\n", "\n", "  \n",
        "REM x\n", "PERFORMER \"p\"\n", "FLAGS DCP\n", "TRACK\n", "FILE\n",
        "INDEX 01 0:0\n", "TRACK 04 AUDIO extra\n", "REM TITLE \"h\"\n",
        "REM INDEX 9 9:9:9\n", "REM TRACK 9 AUDIO\n"]
for _ in range(4000):
    soup = [rng.choice(pool) for _ in range(rng.randint(0, 12))]
    compare_all("soup", soup)
for soup in itertools.product(pool[:8], repeat=3):
    compare_all("product", list(soup))

print("%d checks, %d mismatches" % (n_checks, len(failures)))
sys.exit(1 if failures else 0)
