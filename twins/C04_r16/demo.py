"""Equivalence demo for r16: PipelineTranscoder.__next__
(smpl_extract/transcoder.py) - the generator step that turns one decoded,
frame-aligned block into the bytes appended to the data chunk.

An inline copy of the ORIGINAL __next__ is compared with the method in the
tree.
 1. Synthetic pipelines: f_decode returns scripted channel lists (lists,
    tuples, generators, empty list, empty arrays at every position, objects
    whose __len__ is logged / raises / returns big values) or raises
    (SectorReadError, its subclass, other errors, StopIteration); processes
    are logged callables, one of them raising; f_encode is logged.  Compared
    per step: returned value or exception (type, message, __cause__ /
    __context__ types) and the complete call log, i.e. the order of decode,
    every len() call, every process and encode.
 2. Real transcoders from make_transcoder over a grid of widths, signedness,
    endianess, channel layouts and lengths (equal and unequal stream lengths,
    trailing partial frames): the list of blocks from the tree is compared
    with a run in which the class's __next__ is replaced by the original;
    every block is checked to be a whole number of output frames and read
    positions of the source streams are compared afterwards.
Exit 0 when everything agrees, 1 otherwise.
"""
import itertools
import sys
from io import BytesIO

import numpy as np

from smpl_extract import transcoder
from smpl_extract.data_streams import DataStream
from smpl_extract.data_streams import Endianess
from smpl_extract.data_streams import StreamEncoding
from smpl_extract.transcoder import PipelineTranscoder
from smpl_extract.transcoder import TranscodePipelineStruct
from smpl_extract.transcoder import make_transcoder
from smpl_extract.util.stream import SectorReadError


def orig_next(self):
    # verbatim copy of the original method body
    try:
        channels = self.pipeline.f_decode(self.data_streams)
    except SectorReadError:  # TODO: Create more robust handling for this
        raise StopIteration
    if any(len(x) <= 0 for x in channels):
        raise StopIteration

    for process in self.pipeline.processes:
        f_process = process[1]
        channels = f_process(channels)

    result = self.pipeline.f_encode(channels)
    return result


class SubSectorReadError(SectorReadError):
    pass


class Sized:
    """Channel stand-in with a logged (or misbehaving) __len__."""

    def __init__(self, tag, size, log):
        self.tag = tag
        self.size = size
        self.log = log

    def __len__(self):
        self.log.append(("len", self.tag))
        if isinstance(self.size, BaseException):
            raise self.size
        return self.size

    def __repr__(self):
        return f"Sized({self.tag})"


def describe_exception(e):
    return (
        "raised", type(e).__name__, str(e),
        type(e.__cause__).__name__, type(e.__context__).__name__,
        e.__suppress_context__,
    )


def normalise(value):
    if isinstance(value, np.ndarray):
        return ("ndarray", str(value.dtype), value.shape, value.tobytes())
    if isinstance(value, (list, tuple)):
        return (type(value).__name__, [normalise(v) for v in value])
    return value if isinstance(value, (bytes, str, int, type(None))) else repr(value)


def channel_scripts(log):
    """name -> factory returning what f_decode returns for one step."""
    arr = lambda n: np.arange(n, dtype=np.int16)  # noqa: E731
    scripts = {
        "empty_list": lambda: [],
        "empty_tuple": lambda: (),
        "one_full": lambda: [arr(4)],
        "one_empty": lambda: [arr(0)],
        "two_full": lambda: [arr(4), arr(2)],
        "first_empty": lambda: [arr(0), arr(2)],
        "last_empty": lambda: [arr(3), arr(0)],
        "middle_empty": lambda: [arr(3), arr(0), arr(5), arr(0)],
        "all_empty": lambda: [arr(0), arr(0), arr(0)],
        "tuple_full": lambda: (arr(1), arr(1)),
        "generator_full": lambda: (arr(n) for n in (2, 3)),
        "generator_mixed": lambda: (arr(n) for n in (2, 0, 3)),
        "strings": lambda: ["ab", "", "c"],
        "bytes": lambda: [b"ab", b"c"],
        "none": lambda: None,
        "int": lambda: 5,
        "list_with_none": lambda: [arr(1), None, arr(0)],
        "twod": lambda: [np.zeros((0, 3)), np.zeros((2, 0))],
        "sized_all": lambda: [Sized(i, i + 1, log) for i in range(4)],
        "sized_second_zero": lambda: [
            Sized("a", 1, log), Sized("b", 0, log), Sized("c", 0, log),
            Sized("d", 1, log)],
        "sized_raises": lambda: [
            Sized("a", 1, log), Sized("b", KeyError("len failed"), log),
            Sized("c", 0, log)],
        "sized_stopiteration": lambda: [
            Sized("a", 1, log), Sized("b", StopIteration("inner"), log)],
        "sized_big": lambda: [Sized("a", sys.maxsize, log)],
        "sized_true": lambda: [Sized("a", True, log), Sized("b", False, log)],
    }
    return scripts


def decode_failures():
    return {
        "sector": SectorReadError("bad sector"),
        "subsector": SubSectorReadError("bad sub sector"),
        "value": ValueError("other failure"),
        "stop": StopIteration("decode stop"),
        "keyboard": KeyboardInterrupt(),
    }


def process_sets(log):
    def double(channels):
        log.append(("process", "double", normalise(list(channels))))
        return [np.concatenate([c, c]) for c in channels]

    def reverse(channels):
        log.append(("process", "reverse", normalise(list(channels))))
        return list(reversed(channels))

    def boom(channels):
        log.append(("process", "boom"))
        raise RuntimeError("process failed")

    def to_none(channels):
        log.append(("process", "to_none"))
        return None

    return {
        "none": [],
        "tuple_none": (),
        "one": [("double", double)],
        "two": [("double", double), ("reverse", reverse)],
        "failing": [("double", double), ("boom", boom), ("reverse", reverse)],
        "three_tuple": [("double", double, "extra")],
        "list_entry": [["reverse", reverse]],
        "to_none": [("to_none", to_none), ("reverse", reverse)],
        "not_callable": [("x", 5)],
        "short_entry": [("only_name",)],
    }


def run_synthetic(impl, script_name, failure_name, process_name):
    log = []
    scripts = channel_scripts(log)
    failures = decode_failures()
    streams = ["stream-a", "stream-b"]

    def f_decode(data_streams):
        log.append(("decode", data_streams is streams))
        if failure_name is not None:
            raise failures[failure_name]
        return scripts[script_name]()

    def f_encode(channels):
        log.append(("encode", normalise(
            list(channels) if channels is not None else None)))
        return b"".join(
            c.tobytes() if isinstance(c, np.ndarray) else repr(c).encode()
            for c in (channels or [])
        )

    pipeline = TranscodePipelineStruct(
        f_decode, process_sets(log)[process_name], f_encode
    )
    obj = PipelineTranscoder(streams, pipeline)
    results = []
    for _ in range(2):  # two consecutive steps on the same object
        try:
            if impl == "orig":
                value = orig_next(obj)
            else:
                value = obj.__next__()
            results.append(("ok", normalise(value)))
        except BaseException as e:  # noqa
            results.append(describe_exception(e))
    return results, log


def run_real(impl, encodings, payloads, dest):
    streams = [DataStream(BytesIO(p), e) for p, e in zip(payloads, encodings)]
    saved = PipelineTranscoder.__next__
    try:
        if impl == "orig":
            PipelineTranscoder.__next__ = orig_next
        try:
            gen = make_transcoder(streams, dest)
            blocks = list(gen)
            kind = type(gen).__name__
        except Exception as e:
            blocks = describe_exception(e)
            kind = None
    finally:
        PipelineTranscoder.__next__ = saved
    positions = [s.stream.tell() for s in streams]
    return kind, blocks, positions


def main():
    problems = []
    n = 0

    # 1. synthetic pipelines ------------------------------------------------
    script_names = list(channel_scripts([]).keys())
    process_names = list(process_sets([]).keys())
    combos = [(s, None, p) for s in script_names for p in process_names]
    combos += [("one_full", f, p) for f in decode_failures()
               for p in ("none", "two")]
    for script_name, failure_name, process_name in combos:
        n += 1
        a = run_synthetic("orig", script_name, failure_name, process_name)
        b = run_synthetic("tree", script_name, failure_name, process_name)
        if a != b:
            problems.append(
                f"synthetic {script_name}/{failure_name}/{process_name}:\n"
                f"   orig={a!r:.400}\n   tree={b!r:.400}"
            )

    # iterator protocol unchanged
    # (an empty channel list never stops: any([]) is False / all([]) is True)
    pipeline = TranscodePipelineStruct(
        lambda s: [np.zeros(0)], [], lambda c: b""
    )
    obj = PipelineTranscoder([], pipeline)
    if iter(obj) is not obj or list(obj) != []:
        problems.append("iterator protocol changed")
    pipeline = TranscodePipelineStruct(lambda s: [], [], lambda c: b"x")
    obj = PipelineTranscoder([], pipeline)
    if list(itertools.islice(obj, 5)) != [b"x"] * 5:
        problems.append("empty channel list no longer keeps the generator going")

    # 2. real transcoders -----------------------------------------------------
    rng = np.random.RandomState(99)
    lengths = [0, 1, 2, 3, 2047, 2048, 2049, 4096, 4097, 9000]
    for width, signed, endianess, layout in itertools.product(
            (1, 2, 4), (True, False), (Endianess.LITTLE, Endianess.BIG),
            ("mono", "interleaved2", "interleaved3", "split2", "split_mixed",
             "split_unequal")):
        for num_frames, extra in itertools.product(lengths, (0, 1)):
            n += 1
            mixed_end = Endianess.BIG if endianess == Endianess.LITTLE \
                else Endianess.LITTLE
            enc = lambda ch, en=endianess: StreamEncoding(en, width, ch, signed)  # noqa
            if layout == "mono":
                encodings, frames = [enc(1)], [num_frames]
            elif layout == "interleaved2":
                encodings, frames = [enc(2)], [num_frames]
            elif layout == "interleaved3":
                encodings, frames = [enc(3)], [num_frames]
            elif layout == "split2":
                encodings, frames = [enc(1), enc(1)], [num_frames] * 2
            elif layout == "split_mixed":
                encodings = [enc(1), enc(2, mixed_end)]
                frames = [num_frames] * 2
            else:
                encodings = [enc(1), enc(1)]
                frames = [num_frames, max(0, num_frames - 5)]
            payloads = [
                rng.bytes(f * e.sample_width * e.num_interleaved_channels + extra)
                for f, e in zip(frames, encodings)
            ]
            num_channels = sum(e.num_interleaved_channels for e in encodings)
            dest = StreamEncoding(Endianess.LITTLE, width, num_channels)
            a = run_real("orig", encodings, payloads, dest)
            b = run_real("tree", encodings, payloads, dest)
            tag = (width, signed, endianess.name, layout, num_frames, extra)
            if a != b:
                problems.append(f"real {tag}: blocks/positions differ")
            if isinstance(b[1], list):
                frame_size = width * num_channels
                if any(len(block) % frame_size or len(block) == 0
                       for block in b[1]):
                    problems.append(f"real {tag}: block not frame aligned")
                whole_frames = set(
                    len(p) // (e.sample_width * e.num_interleaved_channels)
                    for p, e in zip(payloads, encodings)
                )
                if len(whole_frames) == 1 and sum(map(len, b[1])) != \
                        whole_frames.pop() * frame_size:
                    problems.append(f"real {tag}: total data length wrong")

    print(f"{n} cases, {len(problems)} problems")
    for problem in problems[:20]:
        print("  " + problem)
    return 1 if problems else 0


if __name__ == "__main__":
    sys.exit(main())
