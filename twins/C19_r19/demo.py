"""Equivalence demo for the loop / assert refactoring of _c_chickensys_process (iir.pyx).

_c_chickensys_process is the ChickenSys IIR kernel: it restores the x / y
windows from x_prev / y_prev, runs the recursion sample by sample (saturate,
feed back, truncate) and writes the windows back into x_prev / y_prev.  The
edit turns the counting loop `for i in range(num_x)` into
`while i < num_x: ...; i += 1` (i is declared `cdef size_t i = 0` just before
the try block) and lets the two size asserts compare against the locals that
already hold those sizes (`num_B`, `A_true_size`) instead of re-reading
`B.shape[0]` / `A_true.shape[0]`.

iir.pyx ships pre-built and Cython is not installed, so the edited text has
no runtime effect on the compiled module.  To still exercise the *edited
text*, every module-level function of smpl_extract/filters/iir.pyx is cut out
and mechanically rewritten into plain Python (cdef declarations ->
assignments, typed-memoryview annotations dropped, `&x` -> `x`, struct ->
small object, malloc -> poisoned list, `<short> e` -> a checked conversion
that refuses anything a C cast would not keep exact).  This is done twice:
once with an inline copy of the ORIGINAL _c_chickensys_process, once with the
file as it is now.  Compared are (ORIGINAL text vs CURRENT text vs the
compiled module)

  * _c_chickensys_process called directly on many (x, B, A, state): outputs
    in y, state written back into x_prev / y_prev (bit for bit), exception
    type; empty blocks, one-sample blocks, long blocks, higher orders, gains
    that saturate, every failing assert (nothing may be written),
  * ChickSysCustomIirFilter streams for all three presets and hot gains:
    every composition of short signals, random splits of long and
    extreme-valued int16 signals, state after each block, reset in the
    middle, flush and reuse,
  * the scalar chain bound -> truncate on a dense set of doubles.

Exit 0 when everything agrees, 1 otherwise.
"""
import itertools
import math
import os
import random
import re
import sys
import warnings

import numpy as np

import smpl_extract.filters.iir as compiled
from smpl_extract.filters import common

warnings.simplefilter("ignore")

PYX = os.path.join(os.path.dirname(os.path.abspath(compiled.__file__)), "iir.pyx")

ORIGINAL_CHICKENSYS_PROCESS = '''\
@cython.boundscheck(False)
@cython.wraparound(False)
@cython.cdivision(True)
def _c_chickensys_process(
        short[:] x,
        short[:] y,
        double[:] B,
        double[:] A,
        double[:] x_prev,
        double[:] y_prev
):
    cdef size_t num_x = x.shape[0]
    cdef size_t num_y = y.shape[0]
    cdef size_t num_A = A.shape[0]
    cdef size_t num_B = B.shape[0]
    cdef size_t num_x_prev = x_prev.shape[0]
    cdef size_t num_y_prev = y_prev.shape[0]

    assert num_A > 0
    assert num_B > 0
    assert num_x == num_y

    # x_window
    cdef size_t num_x_window = num_x_prev + 1
    cdef s_double_cbuffer x_window
    init_double_cbuffer(&x_window, x_prev, num_x_window)

    # y_window
    cdef size_t num_y_window = num_y_prev
    cdef s_double_cbuffer y_window
    init_double_cbuffer(&y_window, y_prev, num_y_window)
    
    cdef double[:] A_true = A[1:]
    cdef double k_gain = A[0]
    cdef size_t A_true_size = A_true.shape[0]

    cdef double x_cur = 0.0
    cdef double y_cur = 0.0
    cdef short y_final = 0
    cdef size_t i = 0

    try:
        assert k_gain != 0.0
        assert x_window.N == B.shape[0]
        assert y_window.N == A_true.shape[0]

        # perform iterations
        for i in range(num_x):
            x_cur = <double> x[i]
            push_double_cbuffer(&x_window, x_cur)
            y_cur = inner_prod_double_cbuffer(&x_window, B) \\
                - inner_prod_double_cbuffer(&y_window, A_true)
            y_cur /= k_gain

            y_cur = _c_bound(y_cur)
            push_double_cbuffer(&y_window, y_cur)

            y_final = _c_fix_int(y_cur)
            y[i] = y_final

        # save state
        fill_arr_double_cbuffer(&x_window, x_prev)
        fill_arr_double_cbuffer(&y_window, y_prev)

    finally:
        # free mem
        free_double_cbuffer(&x_window)
        free_double_cbuffer(&y_window)
'''

# ------------------------------------------------------- Cython -> Python
POISON = "uninitialised"


class Mem(list):
    """malloc'ed block: never NULL, every slot poisoned until written"""

    def __bool__(self):
        return True

    def __eq__(self, other):
        return other is self

    __hash__ = None


class Struct:
    def __init__(self):
        self.arr = None
        self.N = None
        self.cur_pos = None


def _malloc(n_bytes):
    assert n_bytes % 8 == 0 and n_bytes >= 0
    return Mem([POISON] * (n_bytes // 8))


def _free(block):
    assert isinstance(block, Mem)


_CTYPE = r"(?:size_t|double|short|int)"


def _join_parens(lines):
    """join physical lines that are continued inside parentheses"""
    out, buf, depth = [], "", 0
    for line in lines:
        code = line.split("#", 1)[0] if "#" in line else line
        buf = (buf + " " + line.strip()) if buf else line.rstrip("\n")
        depth += code.count("(") - code.count(")")
        if depth <= 0:
            out.append(buf)
            buf, depth = "", 0
    if buf:
        out.append(buf)
    return out


def cy2py(text):
    lines = []
    for line in _join_parens(text.splitlines()):
        if line.strip().startswith("@cython"):
            continue
        # function headers
        m = re.match(r"^(?:cdef\s+(?:void|double|short)|def)\s+(\w+)\s*\((.*)\)\s*:\s*$", line)
        if m:
            params = []
            for p in m.group(2).split(","):
                p = p.strip()
                if p:
                    params.append(re.split(r"[\s\*]+", p)[-1])
            lines.append("def %s(%s):" % (m.group(1), ", ".join(params)))
            continue
        # declarations
        m = re.match(r"^(\s*)cdef\s+s_double_cbuffer\s+(\w+)\s*$", line)
        if m:
            lines.append("%s%s = Struct()" % m.groups())
            continue
        m = re.match(r"^(\s*)cdef\s+%s(?:\[:\])?\s*\*?\s*(\w+)\s*=\s*(.*)$" % _CTYPE, line)
        if m:
            line = "%s%s = %s" % m.groups()
        elif re.match(r"^\s*cdef\s+%s\s*\*?\s*\w+\s*$" % _CTYPE, line):
            line = re.match(r"^(\s*)", line).group(1) + "pass"
        # casts, address-of, sizeof
        line = re.sub(r"<\s*(?:double|short|int)\s*\*?\s*>\s*", "", line)
        line = re.sub(r"&(\w+)", r"\1", line)
        line = line.replace("sizeof(double)", "8")
        lines.append(line)
    return "\n".join(lines) + "\n"


def _cut_function(all_lines, name):
    start = next(i for i, l in enumerate(all_lines)
                 if re.match(r"^(?:cdef\s+\w+|def)\s+%s\s*\(" % name, l))
    end = len(all_lines)
    for j in range(start + 1, len(all_lines)):
        l = all_lines[j]
        if l.strip() and not l[0].isspace() and not l.lstrip().startswith(")"):
            end = j
            break
    return "".join(all_lines[start:end])


_FUNC_HEAD = re.compile(r"^(?:cdef\s+(?:void|double|short)|def)\s+(\w+)\s*\(")


def function_names(all_lines):
    return [m.group(1) for m in (_FUNC_HEAD.match(l) for l in all_lines) if m]


def c_short(v):
    """<short> of a double / int: only conversions that are exact in C are allowed"""
    f = float(v)
    assert f == f and f == int(f) and -32768 <= int(f) <= 32767, v
    return int(f)


def cy2py_checked(text):
    # keep the <short> casts as checked conversions, then let the generic rewriting drop the rest
    text = re.sub(r"<\s*short\s*>\s*(\w+\([^()]*\))", r"c_short(\1)", text)
    return cy2py(text)


def build_namespace(overrides=None):
    with open(PYX, "r", encoding="utf-8") as fh:
        all_lines = fh.readlines()
    ns = {"np": np, "Struct": Struct, "malloc": _malloc, "free": _free, "NULL": None,
          "trunc": lambda v: float(math.trunc(v)), "c_short": c_short}
    names = function_names(all_lines)
    texts = {name: _cut_function(all_lines, name) for name in names}
    for name, text in (overrides or {}).items():
        texts[name] = text
        if name not in names:
            names.insert(names.index("_c_chickensys_process"), name)
    ns["__names__"] = names
    ns["__source__"] = {}
    for name in names:
        src = cy2py_checked(texts[name])
        ns["__source__"][name] = src
        exec(compile(src, "%s:%s" % (PYX, name), "exec"), ns)
    return ns


ORIG = build_namespace({"_c_chickensys_process": ORIGINAL_CHICKENSYS_PROCESS})
TEXT = build_namespace()                      # the file as it is now


def make_class(ns):
    class Iir:
        def __init__(self, B, A):
            self.B = B
            self.A = A
            self.n_x_prev = max(0, len(B) - 1)
            self.n_y_prev = max(0, len(A) - 1)
            self.reset_state()

        def reset_state(self, **kwargs):
            x_prev = kwargs.get("x_prev", None)
            y_prev = kwargs.get("y_prev", None)
            x_prev = x_prev or np.zeros(self.n_x_prev, dtype=np.float64)
            y_prev = y_prev or np.zeros(self.n_y_prev, dtype=np.float64)
            self.x_prev = x_prev.astype(np.float64)
            self.y_prev = y_prev.astype(np.float64)

        def get_remaining(self):
            y = np.zeros((0,), dtype=np.float64)
            self.reset_state()
            return y

    class Chick(Iir):
        def __init__(self, coeffs):
            B = np.asarray([coeffs[0], coeffs[1]])
            A = np.asarray([1.0, -coeffs[2]])
            super().__init__(B, A)

        def process(self, x):
            y = np.zeros((x.size,)).astype(np.int16)
            ns["_c_chickensys_process"](x, y, self.B, self.A, self.x_prev, self.y_prev)
            y = y.astype(np.int16)
            return y

    return Chick


OrigChick = make_class(ORIG)
TextChick = make_class(TEXT)
CLASSES = [OrigChick, TextChick, compiled.ChickSysCustomIirFilter]

FAILS = []
CHECKS = [0]


def expect(label, ok, *info):
    CHECKS[0] += 1
    if not ok:
        FAILS.append((label,) + info)


def same_arr(a, b):
    return (isinstance(a, np.ndarray) and isinstance(b, np.ndarray) and a.dtype == b.dtype
            and a.shape == b.shape and a.tobytes() == b.tobytes())


def same_list(a, b):
    return len(a) == len(b) and all(same_arr(p, q) for p, q in zip(a, b))


def outcome(fn):
    try:
        return ("ok", fn())
    except BaseException as e:  # noqa
        return ("exc", type(e).__name__)


def same_outcome(a, b, cmp=same_arr):
    if a[0] != b[0]:
        return False
    if a[0] == "exc":
        return a[1] == b[1]
    return cmp(a[1], b[1])


def fstate(f):
    return (f.x_prev.tobytes(), f.y_prev.tobytes(), f.x_prev.dtype, f.y_prev.dtype,
            f.x_prev.shape, f.y_prev.shape)


rng = random.Random(1919)
nrng = np.random.default_rng(1919)
EXTREMES = np.asarray([-32768, -32767, -32766, -1, 0, 1, 32766, 32767], dtype=np.int16)


def direct(label, x, y, B, A, x_prev, y_prev, with_compiled=True):
    """call the three kernels on private copies of the six arrays"""
    results = []
    impls = [ORIG["_c_chickensys_process"], TEXT["_c_chickensys_process"]]
    if with_compiled:
        impls.append(compiled._c_chickensys_process)
    for fn in impls:
        args = [np.array(x, dtype=np.int16), np.array(y, dtype=np.int16)]
        args += [np.array(a, dtype=np.float64) for a in (B, A, x_prev, y_prev)]
        o = outcome(lambda: fn(*args))
        results.append((o[0], o[1] if o[0] == "exc" else repr(o[1]), [a.tobytes() for a in args]))
    expect(label, all(r == results[0] for r in results), label, B, A, results)
    return results[0]


def splits(n):
    if n == 0:
        yield []
        return
    if n <= 8:
        for bits in itertools.product([0, 1], repeat=n - 1):
            yield [i + 1 for i, b in enumerate(bits) if b] + [n]
    else:
        yield [n]
        yield list(range(1, n + 1))
        for _ in range(4):
            k = rng.randint(0, min(n - 1, 10))
            yield sorted(rng.sample(range(1, n), k)) + [n]


def run_stream(f, x, cuts, reset_at=None):
    out, states = [], []
    lo = 0
    for j, hi in enumerate(cuts):
        if reset_at is not None and j == reset_at:
            f.reset_state()
        out.append(f.process(x[lo:hi]))
        states.append(fstate(f))
        lo = hi
    out.append(f.get_remaining())
    states.append(fstate(f))
    return out, states


def same_trace(a, b):
    return same_list(a[0], b[0]) and a[1] == b[1]


def main():
    # 0. the rewriting picked up what we think
    osrc, tsrc = ORIG["__source__"], TEXT["__source__"]
    expect("orig kernel translated", "for i in range(num_x):" in osrc["_c_chickensys_process"]
           and "assert x_window.N == B.shape[0]" in osrc["_c_chickensys_process"], osrc["_c_chickensys_process"])
    expect("text kernel loops", ("for i in range(num_x):" in tsrc["_c_chickensys_process"])
           != ("while i < num_x:" in tsrc["_c_chickensys_process"]), tsrc["_c_chickensys_process"])
    expect("text kernel translated", "def _c_chickensys_process(x, y, B, A, x_prev, y_prev):"
           in tsrc["_c_chickensys_process"] and "cdef" not in tsrc["_c_chickensys_process"]
           and re.search(r"<\s*\w+\s*>", re.sub(r"#.*", "", tsrc["_c_chickensys_process"])) is None,
           tsrc["_c_chickensys_process"])
    expect("text truncates", "_c_fix_int(" in tsrc["_c_chickensys_process"]
           or "c_short(trunc(" in tsrc["_c_chickensys_process"], tsrc["_c_chickensys_process"])
    need = {"init_double_cbuffer", "free_double_cbuffer", "push_double_cbuffer", "inner_prod_double_cbuffer",
            "fill_arr_double_cbuffer", "_c_process", "_c_bound", "_c_chickensys_process"}
    expect("functions found", need <= set(TEXT["__names__"]), TEXT["__names__"])

    # 1. scalar chain: saturate, then truncate towards zero
    def chain(ns, v):
        b = ns["_c_bound"](v)
        if "_c_fix_int" in ns:
            return (repr(float(b)), ns["_c_fix_int"](b))
        return (repr(float(b)), c_short(ns["trunc"](b)))

    def chain_inline(v):
        b = TEXT["_c_bound"](v)
        return (repr(float(b)), c_short(math.trunc(b)))

    vals = [0.0, -0.0, 0.5, -0.5, 0.999999, -0.999999, 1.0, -1.0, 1.5, -1.5, 2.5, -2.5,
            32766.0, 32766.5, 32766.999999, 32767.0, 32767.000001, 32767.5, 32768.0, 40000.0, 1e9, 1e300,
            -32766.0, -32766.5, -32766.999999, -32767.0, -32767.000001, -32767.5, -32768.0, -32768.5,
            -40000.0, -1e9, -1e300, float("inf"), float("-inf"), 5e-324, -5e-324]
    vals += [rng.uniform(-40000, 40000) for _ in range(20000)]
    vals += [float(v) + d for v in range(-40, 41) for d in (-0.75, -0.5, -0.25, 0.0, 0.25, 0.5, 0.75)]
    for v in vals:
        a, b, c = chain(ORIG, v), chain(TEXT, v), chain_inline(v)
        expect("chain", a == b == c and type(a[1]) is type(b[1]) is int, v, a, b, c)
        expect("chain range", -32767 <= a[1] <= 32767 and abs(a[1]) <= abs(v), v, a)

    # 2. the kernel called directly
    n_direct = 0
    presets = [(0.5923, 0.1516, 0.2560), (0.7071, 0.1213, 0.1716),
               (22082 / 32767, 4967 / 32767, 8411 / 32767)]
    hot = [(1.5, 1.5, 0.9), (-1.5, -1.5, 0.9), (3.0, 0.0, -0.99), (1.0, 0.0, 0.0), (0.5, 0.0, 0.0),
           (-0.5, 0.0, 0.0), (0.25, 0.25, 0.5), (1.0, 1.0, 1.0), (100.0, -100.0, -1.0), (1.00003, 0.0, 0.0)]
    for b0, b1, a1 in presets + hot:
        for gain in (1.0, 2.0, -1.0, 0.5):
            B, A = [b0, b1], [gain, -a1]
            for n in (0, 1, 2, 3, 9, 40):
                for variant in range(3):
                    if variant == 0:
                        x = nrng.integers(-32768, 32768, n)
                        xp, yp = [0.0], [0.0]
                    elif variant == 1:
                        x = nrng.choice(EXTREMES, n)
                        xp = [float(rng.choice(EXTREMES))]
                        yp = [rng.choice([32767.0, -32767.0, 0.5, -0.5, 12345.678, -0.0])]
                    else:
                        x = nrng.integers(-3, 4, n)
                        xp, yp = [rng.uniform(-3, 3)], [rng.uniform(-3, 3)]
                    y = nrng.integers(-32768, 32768, n)      # garbage that must be overwritten
                    r = direct("direct", x, y, B, A, xp, yp)
                    expect("direct ok", r[0] == "ok" and r[1] == "None", r[:2])
                    if r[0] == "ok" and n:
                        out = np.frombuffer(r[2][1], dtype=np.int16)
                        expect("saturated", out.min() >= -32767 and out.max() <= 32767, out)
                    n_direct += 1
    # higher orders: the kernel itself is generic
    for _ in range(60):
        nb, na = rng.randint(1, 4), rng.randint(2, 4)
        B = nrng.uniform(-2, 2, nb)
        A = np.concatenate([[rng.choice([1.0, 2.0, -0.5])], nrng.uniform(-0.6, 0.6, na - 1)])
        x = nrng.integers(-32768, 32768, rng.randint(0, 30))
        direct("direct order", x, np.zeros(len(x)), B, A, nrng.uniform(-9, 9, nb - 1), nrng.uniform(-9, 9, na - 1))
        n_direct += 1
    # failing paths: nothing may be written
    x4, y4 = [1, 2, 3, 4], [9, 9, 9, 9]
    bad = [
        ("k_gain == 0", x4, y4, [1.0, 2.0], [0.0, 0.5], [3.0], [4.0]),
        ("x_prev too short", x4, y4, [1.0, 2.0, 3.0], [1.0, 0.5], [3.0], [4.0]),
        ("x_prev too long", x4, y4, [1.0, 2.0], [1.0, 0.5], [3.0, 1.0, 2.0], [4.0]),
        ("y_prev too short", x4, y4, [1.0, 2.0], [1.0, 0.5, 0.25], [3.0], [4.0]),
        ("y_prev too long", x4, y4, [1.0, 2.0], [1.0, 0.5], [3.0], [4.0, 5.0]),
        ("len(x) < len(y)", x4[:3], y4, [1.0, 2.0], [1.0, 0.5], [3.0], [4.0]),
        ("len(x) > len(y)", x4, y4[:3], [1.0, 2.0], [1.0, 0.5], [3.0], [4.0]),
        ("no A", x4, y4, [1.0, 2.0], [], [3.0], []),
        ("no B", x4, y4, [], [1.0, 0.5], [], [4.0]),
    ]
    for label, x, y, B, A, xp, yp in bad:
        r = direct(label, x, y, B, A, xp, yp)
        expect(label + " is AssertionError", r[:2] == ("exc", "AssertionError"), r[:2])
        want = [np.array(x, dtype=np.int16).tobytes(), np.array(y, dtype=np.int16).tobytes()]
        want += [np.array(a, dtype=np.float64).tobytes() for a in (B, A, xp, yp)]
        expect(label + " nothing written", r[2] == want)

    # 3. streams through the class
    sigs = [nrng.integers(-32768, 32768, n).astype(np.int16) for n in range(0, 9)]
    sigs += [np.full(20, 32767, dtype=np.int16), np.full(20, -32768, dtype=np.int16),
             np.asarray([-32768, 32767] * 12, dtype=np.int16), nrng.choice(EXTREMES, 40)]
    sigs += [nrng.integers(-32768, 32768, rng.randint(9, 80)).astype(np.int16) for _ in range(5)]
    sigs += [nrng.integers(-2, 3, 30).astype(np.int16)]
    n_streams = 0
    for coeffs in presets + hot[:6]:
        for x in sigs:
            for cuts in splits(len(x)):
                reset_at = rng.choice([None, None, None, rng.randrange(len(cuts))]) if cuts else None
                fs = [cls(coeffs) for cls in CLASSES]
                outs = [outcome(lambda f=f: run_stream(f, x, cuts, reset_at)) for f in fs]
                expect("stream", same_outcome(outs[0], outs[1], same_trace)
                       and same_outcome(outs[0], outs[2], same_trace), coeffs, cuts, reset_at)
                n_streams += 1
                if n_streams % 9 == 0:      # reuse after the flush
                    z = nrng.integers(-32768, 32768, 11).astype(np.int16)
                    outs = [outcome(lambda f=f: run_stream(f, z, [2, 3, 11])) for f in fs]
                    expect("reuse", same_outcome(outs[0], outs[1], same_trace)
                           and same_outcome(outs[0], outs[2], same_trace))
    for cls in (common.ChickSysStandardDeemphFilter, common.ChickSysDarkerDeemphFilter,
                common.ChickSysSpecialDeemphFilter):
        for x in sigs:
            for cuts in list(splits(len(x)))[:30]:
                f = cls()
                g = TextChick((f.B[0], f.B[1], -f.A[1]))
                a, b = outcome(lambda: run_stream(f, x, cuts)), outcome(lambda: run_stream(g, x, cuts))
                expect("preset", same_outcome(a, b, same_trace), cls.__name__, cuts)
    # wrong input types through the class
    for badx in (np.arange(5, dtype=np.float64), np.arange(5, dtype=np.int32), np.zeros((2, 2), dtype=np.int16)):
        outs = [outcome(lambda c=c: c(presets[0]).process(badx)) for c in (OrigChick, TextChick)]
        expect("bad dtype (texts)", outs[0][0] == outs[1][0])

    print("direct calls: %d, streams: %d, checks: %d, failures: %d"
          % (n_direct, n_streams, CHECKS[0], len(FAILS)))
    for f in FAILS[:10]:
        print("FAIL", f)
    return 1 if FAILS else 0


if __name__ == "__main__":
    sys.exit(main())
