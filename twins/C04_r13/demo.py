"""Equivalence demo for r13: ExportManager.export_samples
(smpl_extract/structural.py).

An inline copy of the ORIGINAL export_samples is run side by side with the
method found in the tree.  Both runs get their own fresh output directory
(below one tempfile.mkdtemp() root) and freshly generated, identical samples.
Compared per scenario:
  * captured stdout ("Exported ..." lines, in order),
  * the exception (type and message) escaping export_samples, if any,
  * the complete directory tree written (relative paths and file bytes),
  * the sequence of calls made to routines / export_wav / os.makedirs,
  * the state of manager.samples and manager.level afterwards,
  * the return value.
Every written file is additionally walked with an independent RIFF reader and
opened with the stdlib wave module, so the demo also shows the property C04
on these inputs.  Exit 0 when everything agrees, 1 otherwise.
"""
import contextlib
import io
import os
import shutil
import struct
import sys
import tempfile
import wave
from io import BytesIO
from unittest.mock import patch

from smpl_extract import structural
from smpl_extract.data_streams import DataStream
from smpl_extract.data_streams import Endianess
from smpl_extract.data_streams import StreamEncoding
from smpl_extract.generalized.sample import ChannelConfig
from smpl_extract.generalized.sample import LoopRegion
from smpl_extract.generalized.sample import LoopType
from smpl_extract.generalized.sample import Sample
from smpl_extract.generalized.sample import combine_stereo
from smpl_extract.midi import MidiNote
from smpl_extract.structural import ExportManager


def orig_export_samples(self):
    # verbatim copy of the original method body; the module globals it used
    # (os, export_wav) are looked up in smpl_extract.structural at call time,
    # exactly like the method in the tree does
    os = structural.os
    export_wav = structural.export_wav

    samples = self.samples
    for f_routine in self.routines.values():
        samples = f_routine(samples)

    for sample in samples:
        inner_path = self.make_output_path(sample)
        total_path = os.path.join(self.output_directory, inner_path) + ".wav"
        dir_name = os.path.dirname(total_path)
        if not os.path.exists(dir_name):
            os.makedirs(dir_name)
        export_wav(sample, total_path)
        print(f"Exported {inner_path}.wav")

    self.samples.clear()
    return


class _Dir:
    """Minimal parent element: only what Element.export_path() touches."""

    def __init__(self, path, export_name, parent=None):
        self.path = path
        self.export_name = export_name
        self.parent = parent


def _pcm(num_frames, width, channels, seed):
    n = num_frames * width * channels
    return bytes((seed * 31 + i * 7) & 0xFF for i in range(n))


def _stream(num_frames, width=2, channels=1, endianess=Endianess.LITTLE,
            seed=1, extra=0):
    payload = _pcm(num_frames, width, channels, seed) + b"\x55" * extra
    enc = StreamEncoding(endianess, width, channels, True)
    return DataStream(BytesIO(payload), enc)


def _mk(name, path, parent=None, streams=None, **kwargs):
    streams = streams if streams is not None else [_stream(10)]
    num_channels = kwargs.pop(
        "num_channels",
        sum(max(1, s.encoding.num_interleaved_channels) for s in streams)
    )
    return Sample(
        name=name,
        data_streams=streams,
        num_channels=num_channels,
        _path=path,
        _parent=parent,
        **kwargs
    )


def make_samples(kind):
    root = _Dir(["vol"], "VOL 1")
    part = _Dir(["vol", "part"], "PART-A", root)
    if kind == "empty":
        return []
    if kind == "flat":
        return [
            _mk("S1", ["S1"]),
            _mk("S2", ["S2"], streams=[_stream(0)]),
            _mk("S3", ["S3"], streams=[_stream(5000, seed=3)]),
        ]
    if kind == "nested":
        return [
            _mk("KICK", ["vol", "part", "KICK"], part,
                midi_note=MidiNote.from_string("A3"), sample_rate=22050),
            _mk("SNARE #2", ["vol", "part", "SNARE #2"], part,
                pitch_offset_semi=3, pitch_offset_cents=-17,
                streams=[_stream(777, seed=9, extra=1)]),
            _mk("TOP", ["vol", "TOP"], root, sample_rate=0,
                loop_regions=[
                    LoopRegion(1, 5, LoopType.ALTERNATING),
                    LoopRegion(2, 2, repeat_forever=False, duration=1.0),
                    LoopRegion(0, 9, LoopType.REVERSE, play_cnt=4),
                    LoopRegion(3, 8, repeat_forever=False, duration=0.01),
                ]),
        ]
    if kind == "stereo":
        left = _mk("PAD -L", ["vol", "PAD -L"], root,
                   streams=[_stream(300, seed=1)],
                   midi_note=MidiNote.from_string("C4"))
        right = _mk("PAD -R", ["vol", "PAD -R"], root,
                    streams=[_stream(280, seed=2)])
        both = combine_stereo(left, right, "PAD")
        inter = _mk("INTER", ["vol", "INTER"], root,
                    streams=[_stream(123, channels=2, seed=5, extra=3)],
                    channel_config=ChannelConfig.STEREO_SINGLE_STREAM)
        big = _mk("BIGEND", ["vol", "BIGEND"], root,
                  streams=[_stream(64, endianess=Endianess.BIG, seed=7)])
        return [both, inter, big]
    if kind == "no_export_path":
        # path == [] -> export_path() == [] -> inner path "" -> "<out>/.wav"
        return [_mk("ANON", [])]
    if kind == "broken_second":
        # second sample has no data stream: export_wav raises after open()
        return [
            _mk("OK", ["vol", "OK"], root),
            _mk("BAD", ["vol", "BAD"], root, streams=[], num_channels=1),
            _mk("NEVER", ["vol", "NEVER"], root),
        ]
    if kind == "channel_mismatch":
        return [_mk("MIS", ["vol", "MIS"], root, num_channels=2)]
    if kind == "same_name_twice":
        return [
            _mk("DUP", ["vol", "DUP"], root, streams=[_stream(10, seed=1)]),
            _mk("DUP", ["vol", "DUP"], root, streams=[_stream(20, seed=2)]),
        ]
    raise AssertionError(kind)


def make_routines(kind, log):
    if kind == "none":
        return None
    if kind == "empty":
        return {}
    if kind == "reverse_then_drop":
        def reverse(samples):
            log.append(("routine", "reverse", [s.name for s in samples]))
            return list(reversed(samples))

        def drop_first(samples):
            log.append(("routine", "drop_first", [s.name for s in samples]))
            return samples[1:]
        return {"a": reverse, "b": drop_first}
    if kind == "identity_same_list":
        def ident(samples):
            log.append(("routine", "ident", [s.name for s in samples]))
            return samples
        return {"i": ident}
    if kind == "generator":
        def gen(samples):
            log.append(("routine", "gen", [s.name for s in samples]))
            return (s for s in samples)
        return {"g": gen}
    if kind == "raises":
        def ok(samples):
            log.append(("routine", "ok", [s.name for s in samples]))
            return samples

        def boom(samples):
            log.append(("routine", "boom", [s.name for s in samples]))
            raise RuntimeError("routine failed")
        return {"ok": ok, "boom": boom, "ok2": ok}
    raise AssertionError(kind)


def snapshot_tree(root):
    result = {}
    for dir_path, dir_names, file_names in os.walk(root):
        rel = os.path.relpath(dir_path, root)
        result[(rel, None)] = sorted(dir_names)
        for file_name in file_names:
            with open(os.path.join(dir_path, file_name), "rb") as f:
                result[(rel, file_name)] = f.read()
    return result


def check_riff(blob, where, problems):
    """Independent RIFF walker for the property C04."""
    if len(blob) == 0:
        return  # file opened but never written (exception case)
    ok = blob[:4] == b"RIFF" and blob[8:12] == b"WAVE"
    ok = ok and struct.unpack("<I", blob[4:8])[0] == len(blob) - 8
    pos = 12
    ids = []
    fmt = None
    while ok and pos < len(blob):
        cid, size = struct.unpack("<4sI", blob[pos:pos + 8])
        body = blob[pos + 8:pos + 8 + size]
        ok = ok and len(body) == size
        ids.append(cid)
        if cid == b"fmt ":
            ok = ok and size == 16
            fmt = struct.unpack("<HHIIHH", body)
            ok = ok and fmt[0] == 1 and fmt[4] == fmt[1] * fmt[5] // 8
            ok = ok and fmt[3] == fmt[2] * fmt[4]
        elif cid == b"smpl":
            ok = ok and size == 36 + 24 * struct.unpack("<I", body[28:32])[0]
        elif cid == b"data":
            ok = ok and fmt is not None and size % fmt[4] == 0
        pos += 8 + size
    ok = ok and pos == len(blob)
    ok = ok and ids in ([b"fmt ", b"data"], [b"fmt ", b"smpl", b"data"])
    if ok:
        try:
            with wave.open(io.BytesIO(blob), "rb") as w:
                w.readframes(w.getnframes())
        except Exception as e:  # pragma: no cover
            ok = False
            where = f"{where} ({e!r})"
    if not ok:
        problems.append(f"not a valid RIFF/WAVE file: {where}")


def run(impl, out_dir, sample_kind, routine_kind, pre_create, level):
    log = []
    samples = make_samples(sample_kind)
    routines = make_routines(routine_kind, log)
    if pre_create:
        os.makedirs(os.path.join(out_dir, "VOL 1"))
    manager = ExportManager(out_dir, routines)
    manager.set_level(level)
    for sample in samples:
        manager.add_sample(sample)
    samples_list = manager.samples

    real_export_wav = structural.export_wav
    real_makedirs = os.makedirs

    def logging_export_wav(sample, file_path):
        log.append(("export_wav", sample.name, os.path.relpath(file_path, out_dir)))
        return real_export_wav(sample, file_path)

    def logging_makedirs(name, *args, **kwargs):
        log.append(("makedirs", os.path.relpath(name, out_dir), args, kwargs))
        return real_makedirs(name, *args, **kwargs)

    stdout = io.StringIO()
    outcome = None
    with patch.object(structural, "export_wav", logging_export_wav), \
            patch.object(structural.os, "makedirs", logging_makedirs), \
            contextlib.redirect_stdout(stdout):
        try:
            if impl == "orig":
                outcome = ("returned", orig_export_samples(manager))
            else:
                outcome = ("returned", manager.export_samples())
        except BaseException as e:  # noqa: compare everything
            outcome = ("raised", type(e).__name__, str(e))

    return {
        "outcome": outcome,
        "stdout": stdout.getvalue(),
        "log": log,
        "tree": snapshot_tree(out_dir),
        "samples_after": [s.name for s in manager.samples],
        "same_list_object": manager.samples is samples_list,
        "level_after": manager.level,
    }


def main():
    problems = []
    num_cases = 0
    num_files = 0
    root = tempfile.mkdtemp(prefix="r13_demo_")
    try:
        sample_kinds = [
            "empty", "flat", "nested", "stereo", "no_export_path",
            "broken_second", "channel_mismatch", "same_name_twice",
        ]
        routine_kinds = [
            "none", "empty", "reverse_then_drop", "identity_same_list",
            "generator", "raises",
        ]
        for sample_kind in sample_kinds:
            for routine_kind in routine_kinds:
                for pre_create in (False, True):
                    for level in ((), ("vol", "part")):
                        num_cases += 1
                        results = {}
                        for impl in ("orig", "tree"):
                            out_dir = os.path.join(
                                root, f"case{num_cases}", impl, "out"
                            )
                            os.makedirs(os.path.dirname(out_dir))
                            # the output directory itself does not exist yet
                            # unless pre_create makes it (with a sub directory)
                            results[impl] = run(
                                impl, out_dir, sample_kind, routine_kind,
                                pre_create, level
                            )
                        a, b = results["orig"], results["tree"]
                        tag = (sample_kind, routine_kind, pre_create, level)
                        for key in a:
                            if a[key] != b[key]:
                                problems.append(
                                    f"{tag}: {key} differs:\n"
                                    f"   orig={a[key]!r:.300}\n"
                                    f"   tree={b[key]!r:.300}"
                                )
                        for (rel, file_name), blob in b["tree"].items():
                            if file_name is None:
                                continue
                            num_files += 1
                            check_riff(blob, f"{tag} {rel}/{file_name}", problems)

        # the method must still be reachable the same way finish_level uses it
        out_dir = os.path.join(root, "finish", "out")
        manager = ExportManager(out_dir)
        manager.set_level(("x",))
        manager.add_sample(make_samples("flat")[0])
        stdout = io.StringIO()
        with contextlib.redirect_stdout(stdout):
            manager.finish_level()
        if stdout.getvalue() != "Exported S1.wav\n" or manager.level != () \
                or manager.samples != [] \
                or not os.path.isfile(os.path.join(out_dir, "S1.wav")):
            problems.append("finish_level behaviour changed")
    finally:
        shutil.rmtree(root, ignore_errors=True)

    print(f"{num_cases} scenarios, {num_files} files checked, "
          f"{len(problems)} problems")
    for problem in problems[:20]:
        print("  " + problem)
    return 1 if problems else 0


if __name__ == "__main__":
    sys.exit(main())
