"""Equivalence demo for r14 (smpl_extract/akai/volume.py: the `files` property
of Volume - the lazy per-file parse of an AKAI volume: the first access
realises every file entry, swallowing the entries whose parse fails, then runs
the registered routines over the list and caches it).

An inline copy of the ORIGINAL Volume class is compared with the live one.

 A. direct: volumes over hand-made FileEntry objects whose content callables
    return a file / None / a falsy value or raise InvalidFileEntry,
    ConstructError (and subclasses) or an unrelated error; routines: none, an
    empty dict, recording routines that reverse / filter / copy / return the
    same list / return None / raise / re-enter volume.files and
    volume.children.  Several consecutive accesses of .files and .children.
    Compared: returned values (and which of them are the very same object as
    the cached list or as each other), exception type and text, the log of
    every content callable and routine call (arguments included), the state
    (_is_files_realized, _files) after every access.  A fixed set of cases
    plus 3000 random scenarios.
 B. end to end: synthetic AKAI partitions (several volumes with sample files,
    empty volumes, the damage of property C14 in the file tables - every value
    of a type byte, every byte of an entry, random multi-byte damage confined
    to one entry -, SAT damage, truncation) parsed through the live partition
    structs with volume.Volume bound to the original or to the live class,
    with and without routines.  Compared: volumes, entry names, the listing
    produced by get_info(), file names, decoded sample bytes and the trace of
    every seek/read/tell on the shared image.

Exit 0 when everything agrees, 1 otherwise.
"""
import io
import random
import struct
import sys
from typing import Dict
from typing import List
from typing import Optional

from construct.core import Bytes
from construct.core import ConstructError
from construct.core import Int16ul
from construct.core import Lazy
from construct.core import StreamError
from construct.core import Struct
from construct.expr import this

import smpl_extract.akai.volume as vm
from smpl_extract.akai.akai_string import char_ascii_to_akai
from smpl_extract.akai.data_types import AKAI_PARTITION_MAGIC
from smpl_extract.akai.data_types import AKAI_SAT_ENTRY_CNT
from smpl_extract.akai.data_types import AKAI_VOLUME_ENTRY_CNT
from smpl_extract.akai.data_types import FileType
from smpl_extract.akai.data_types import VolumeType
from smpl_extract.akai.file_entry import FileEntry
from smpl_extract.akai.file_entry import InvalidFileEntry
from smpl_extract.akai.partition import PartitionHeaderConstruct
from smpl_extract.akai.sat import SegmentAllocationTableAdapter
from smpl_extract.akai.volume import VolumeEntryConstruct
from smpl_extract.base import Element
from smpl_extract.structural import T_ROUTINE
from smpl_extract.structural import Traversable

LiveVolume = vm.Volume


# ---------------------------------------------------------------- original
class OrigVolume(Traversable):

    def __init__(
            self,
            name: str = "",
            volume_type: VolumeType = VolumeType.INACTIVE,
            parent: Optional[Element] = None,
            path: Optional[List[str]] = None,
            routines: Optional[Dict[str, T_ROUTINE]] = None,
            file_entries: Optional[List[FileEntry]] = None
    ) -> None:
        super().__init__(
            f_realize_children=lambda x: [],
            routines=routines,
            path=path,
            parent=parent,
            type_name=str(volume_type or "AKAI Volume")
        )
        self.name = name
        self.volume_type = volume_type
        self.file_entries = file_entries or []
        self._is_files_realized = False
        self._files = []

    def _realize_files(self):
        for file_entry in self.file_entries:
            try:
                file = file_entry.file
            except (InvalidFileEntry, ConstructError) as e:
                file = None

            if file is not None:
                self._files.append(file)
        self._is_files_realized = True

    @property
    def files(self) -> List[FileEntry]:
        if not self._is_files_realized:
            self._realize_files()
            files = self._files
            for routine in self._routines.values():
                files = routine(files)
            self._files = files
        return self._files  # type: ignore

    @property
    def children(self):
        return self.files


OrigVolume.__name__ = OrigVolume.__qualname__ = "Volume"

failures = []
checked = 0


def check(cond, msg):
    global checked
    checked += 1
    if not cond:
        failures.append(msg)


# ---------------------------------------------------------------- part A
class Boom(Exception):
    pass


class FakeFile:
    def __init__(self, tag):
        self.tag = tag
        self.name = "F%s" % tag

    def __repr__(self):
        return "FakeFile(%r)" % (self.tag,)


class FalsyFile(FakeFile):
    def __bool__(self):
        return False


CONTENT_KINDS = ["file", "file", "file", "none", "falsy_obj", "zero", "empty_str",
                 "invalid", "construct", "stream_error", "boom", "key_error"]


def make_content(kind, idx, log):
    def content():
        log.append(("content", idx, kind))
        if kind == "file":
            return FakeFile(idx)
        if kind == "none":
            return None
        if kind == "falsy_obj":
            return FalsyFile(idx)
        if kind == "zero":
            return 0
        if kind == "empty_str":
            return ""
        if kind == "invalid":
            raise InvalidFileEntry("invalid %d" % idx)
        if kind == "construct":
            raise ConstructError("construct %d" % idx)
        if kind == "stream_error":
            raise StreamError("stream %d" % idx)
        if kind == "boom":
            raise Boom("boom %d" % idx)
        if kind == "key_error":
            raise KeyError("key %d" % idx)
        raise AssertionError(kind)
    return content


ROUTINE_KINDS = ["reverse", "copy", "same", "filter_even", "none", "raise",
                 "reenter_files", "reenter_children", "append_marker", "tuple"]


def make_routine(kind, rid, log, volume_ref):
    def routine(files):
        log.append(("routine", rid, kind, type(files).__name__,
                    repr(files), files is volume_ref[0]._files))
        if kind == "reverse":
            return list(reversed(files))
        if kind == "copy":
            return list(files)
        if kind == "same":
            return files
        if kind == "filter_even":
            return [f for i, f in enumerate(files) if i % 2 == 0]
        if kind == "none":
            return None
        if kind == "raise":
            raise Boom("routine %s" % rid)
        if kind == "reenter_files":
            inner = volume_ref[0].files
            log.append(("reentered", repr(inner), inner is files))
            return list(files)
        if kind == "reenter_children":
            inner = volume_ref[0].children
            log.append(("reentered", repr(inner), inner is files))
            return files
        if kind == "append_marker":
            files.append("marker-%s" % rid)      # in place
            return files
        if kind == "tuple":
            return tuple(files)
        raise AssertionError(kind)
    return routine


def run_direct(cls, content_kinds, routine_kinds, accesses, entries_mode="list"):
    log = []
    volume_ref = [None]
    entries = [
        FileEntry("E%d" % i, FileType.SAMPLE_S1000, make_content(kind, i, log))
        for i, kind in enumerate(content_kinds)
    ]
    if routine_kinds is None:
        routines = None
    else:
        routines = {
            "r%d" % i: make_routine(kind, i, log, volume_ref)
            for i, kind in enumerate(routine_kinds)
        }
    if entries_mode == "none":
        volume = cls(name="V", volume_type=VolumeType.INACTIVE, routines=routines)
    elif entries_mode == "assigned":
        volume = cls(name="V", volume_type=1, path=["P", "V"], routines=routines)
        volume.file_entries = entries
    elif entries_mode == "tuple":
        volume = cls(name="V", volume_type=3, routines=routines,
                     file_entries=tuple(entries))
    else:
        volume = cls(name="V", volume_type=3, path=["P", "V"], routines=routines,
                     file_entries=entries)
    volume_ref[0] = volume
    out = []
    seen = []
    for access in accesses:
        log.append(("access", access))
        try:
            value = getattr(volume, access)
        except BaseException as e:  # noqa: B902
            out.append(("raise", type(e), str(e)))
        else:
            out.append((
                "ok", type(value).__name__, repr(value),
                value is volume._files,
                [value is s for s in seen],
            ))
            seen.append(value)
        out.append(("state", volume._is_files_realized, repr(volume._files),
                    [e._file is not None for e in entries],
                    volume._children is None))
    return (out, log, volume.type_name, volume.path, type(volume).__name__)


def compare_direct(label, *args, **kw):
    a = run_direct(OrigVolume, *args, **kw)
    b = run_direct(LiveVolume, *args, **kw)
    check(a == b, f"direct {label} {args} {kw}: {str(a)[:500]} != {str(b)[:500]}")
    return b


def part_a():
    rng = random.Random(0xC14)
    accesses = ("files", "files", "children", "files")
    content_sets = [
        [], ["file"], ["none"], ["invalid"], ["construct"], ["boom"],
        ["file", "invalid", "file"], ["file", "construct", "file", "stream_error"],
        ["file", "none", "falsy_obj", "zero", "empty_str", "file"],
        ["file", "boom", "file"], ["file", "file", "key_error"],
        ["invalid", "invalid"], ["file"] * 6,
    ]
    routine_sets = [None, [], ["reverse"], ["copy"], ["same"], ["none"], ["raise"],
                    ["tuple"], ["reenter_files"], ["reenter_children"],
                    ["append_marker"], ["filter_even", "reverse"],
                    ["reverse", "raise", "copy"], ["none", "reverse"],
                    ["append_marker", "append_marker", "same"],
                    ["reenter_files", "filter_even", "reenter_children"]]
    for contents in content_sets:
        for routines in routine_sets:
            for mode in ("list", "assigned", "tuple", "none"):
                compare_direct("fixed", contents, routines, accesses,
                               entries_mode=mode)
            compare_direct("children first", contents, routines,
                           ("children", "files", "children"))
    for _ in range(3000):
        contents = [rng.choice(CONTENT_KINDS) for _ in range(rng.randrange(0, 8))]
        if rng.random() < 0.15:
            routines = None
        else:
            routines = [rng.choice(ROUTINE_KINDS) for _ in range(rng.randrange(0, 4))]
        acc = tuple(rng.choice(["files", "children"])
                    for _ in range(rng.randrange(1, 5)))
        compare_direct("random", contents, routines, acc,
                       entries_mode=rng.choice(["list", "list", "assigned", "tuple"]))

    # _routines replaced by something odd after construction
    for odd in (None, [], [len], 5):
        outs = []
        for cls in (OrigVolume, LiveVolume):
            log = []
            v = cls(name="V", volume_type=1, file_entries=[
                FileEntry("E", FileType.SAMPLE_S1000, make_content("file", 0, log))])
            v._routines = odd
            try:
                outs.append(("ok", repr(v.files), log))
            except BaseException as e:  # noqa: B902
                outs.append(("raise", type(e), str(e), log,
                             v._is_files_realized, repr(v._files)))
        check(outs[0] == outs[1], f"odd routines {odd}: {outs}")

    # expected values independent of the copy
    res = run_direct(LiveVolume, ["file", "invalid", "file", "construct", "none"],
                     ["reverse"], ("files", "files"))
    check(res[0][0][:3] == ("ok", "list", "[FakeFile(2), FakeFile(0)]"),
          f"damaged entries dropped, routine applied: {res[0][0]}")
    check(res[0][2][3] is True and res[0][2][4] == [True], "second access cached")
    check([x for x in res[1] if x[0] == "content"]
          == [("content", i, k) for i, k in
              enumerate(["file", "invalid", "file", "construct", "none"])],
          "every entry realised once, in order")
    check(len([x for x in res[1] if x[0] == "routine"]) == 1, "routine ran once")
    res = run_direct(LiveVolume, ["file", "boom", "file"], ["reverse"],
                     ("files", "files"))
    check(res[0][0][0] == "raise" and res[0][0][1] is Boom,
          "unrelated errors are not swallowed")


# ---------------------------------------------------------------- part B
SECT = 0x2000
PREAMBLE_HDR_LEN = 2 + 2 + len(AKAI_PARTITION_MAGIC) + 4


def volume_area_size(this):
    return this.header.total_size \
        - PartitionHeaderConstruct.sizeof() \
        - VolumeEntryConstruct[AKAI_VOLUME_ENTRY_CNT].sizeof() \
        - Int16ul[AKAI_SAT_ENTRY_CNT].sizeof()


PartitionStruct = Struct(
    "header" / PartitionHeaderConstruct,
    "volume_entries" / VolumeEntryConstruct[AKAI_VOLUME_ENTRY_CNT],
    "sat" / SegmentAllocationTableAdapter(
        this.header.partition_stream,
        Int16ul[AKAI_SAT_ENTRY_CNT]  # type: ignore
    ),
    "volumes" / Lazy(vm.VolumesAdapter(
        this.volume_entries,
        this.sat,  # type: ignore
        Lazy(Bytes(volume_area_size)),  # type: ignore
    ))
)


def akai_name(text):
    return bytes(char_ascii_to_akai(text.ljust(12)[:12]))


def make_partition(size, volumes):
    """volumes: list of (name, type, [(fname, ftype, data)])."""
    buf = bytearray(size * SECT)
    hdr = (
        struct.pack("<H", size)
        + b"\x00\x00" + AKAI_PARTITION_MAGIC + b"\x55\xba\x2f\x00"
    )
    buf[:len(hdr)] = hdr
    sat = [0] * AKAI_SAT_ENTRY_CNT
    sat[0] = sat[1] = sat[2] = 0x4000
    next_sector = 3
    vol_entries = b""
    for vname, vtype, files in volumes:
        vsect = next_sector
        next_sector += 1
        sat[vsect] = 0xC000
        vol_entries += akai_name(vname) + struct.pack("<HH", vtype, vsect)
        table = b""
        for fname, ftype, data in files:
            nsect = max(1, -(-len(data) // SECT))
            start = next_sector
            for k in range(nsect):
                sat[start + k] = start + k + 1 if k < nsect - 1 else 0xC000
            next_sector += nsect
            buf[start * SECT:start * SECT + len(data)] = data
            table += (
                akai_name(fname) + b"\x00" * 4 + bytes([ftype])
                + len(data).to_bytes(3, "little")
                + struct.pack("<H", start) + b"\x00\x00"
            )
        table += b"\x00" * 8 + struct.pack("<H", 0xD747) + b"\x00" * 14
        buf[vsect * SECT:vsect * SECT + len(table)] = table
    assert next_sector <= max(size, 3)
    off = len(hdr)
    buf[off:off + len(vol_entries)] = vol_entries
    off = len(hdr) + 16 * AKAI_VOLUME_ENTRY_CNT
    buf[off:off + 2 * AKAI_SAT_ENTRY_CNT] = struct.pack(
        f"<{AKAI_SAT_ENTRY_CNT}H", *sat
    )
    return bytes(buf)


class TracingFile(io.BytesIO):
    """records every access once `tracing` is switched on (the 11386 reads of
    the SAT, which happen before any Volume exists, are left out)"""

    def __init__(self, data):
        super().__init__(data)
        self.trace = []
        self.tracing = False

    def tell(self):
        pos = super().tell()
        if self.tracing:
            self.trace.append(("tell", pos))
        return pos

    def seek(self, *args):
        pos = super().seek(*args)
        if self.tracing:
            self.trace.append(("seek", args, pos))
        return pos

    def read(self, *args):
        data = super().read(*args)
        if self.tracing:
            self.trace.append(("read", args, len(data)))
        return data


class ImgParent:
    path = ["IMG", "A:"]


def describe_volumes(vols, parent):
    out = []
    for v in vols:
        files = []
        entry_names = [(fe.name, str(fe.file_type)) for fe in v.file_entries]
        try:
            listing = v.get_info().to_string()
        except BaseException as e:  # noqa: B902
            listing = ("info-raise", type(e), str(e))
        try:
            for f in v.files:
                item = [type(f).__name__, f.name, list(f.path), f.parent is v]
                stream = getattr(f, "_data_stream", None)
                if stream is not None:
                    try:
                        stream.seek(0)
                        item.append(stream.read(4096))
                    except BaseException as e:  # noqa: B902
                        item.append(("data-raise", type(e), str(e)))
                files.append(item)
        except BaseException as e:  # noqa: B902
            files.append(("files-raise", type(e), str(e)))
        again = v.children
        out.append((
            type(v).__name__, v.name, str(v.volume_type), list(v.path),
            v.parent is parent, entry_names, listing, files,
            again is v.files, v._is_files_realized, len(v._files),
        ))
    return out


def run_image(volume_cls, data, with_routines):
    f = TracingFile(data)
    parent = ImgParent()
    log = []
    routines = {}
    if with_routines:
        def by_name_desc(items):
            log.append(("sort", [getattr(i, "name", None) for i in items]))
            return sorted(items, key=lambda i: i.name, reverse=True)

        def drop_third(items):
            log.append(("drop", len(items)))
            return items[:2] + items[3:]
        routines = {"sort": by_name_desc, "drop": drop_third}
    saved = vm.Volume
    vm.Volume = volume_cls
    try:
        try:
            container = PartitionStruct.parse_stream(
                f, _elem_parent=parent, _elem_routines=routines
            )
        except BaseException as e:  # noqa: B902
            return ("parse-raise", type(e), str(e), list(f.trace))
        f.tracing = True
        f.trace.append(("---volumes---", io.BytesIO.tell(f)))
        try:
            vols = container.volumes()
        except BaseException as e:  # noqa: B902
            return ("volumes-raise", type(e), str(e), list(f.trace))
        check(all(type(v) is volume_cls for v in vols), "class under test is used")
        f.trace.append("---files---")
        desc = describe_volumes(vols, parent)
    finally:
        vm.Volume = saved
    return ("ok", type(vols), desc, log, list(f.trace))


def sample(n, seed):
    rng = random.Random(seed)
    return b"\x03" + b"\x00" * 149 + bytes(rng.getrandbits(8) for _ in range(n))


def part_b():
    rng = random.Random(0xC14)
    s1, s2, s3 = sample(200, 1), sample(20000, 2), sample(64, 3)
    volumes = [
        ("VOL ONE", 1, [("SAMPLE A", 0x73, s1), ("SAMPLE B", 0xF3, s2),
                        ("THIRD", 0x73, s3), ("FOURTH", 0xF3, s1)]),
        ("DEAD", 0, [("GHOST", 0x73, s3)]),
        ("SECOND", 3, [("X", 0x73, s3)]),
        ("EMPTY", 1, []),
    ]
    good = make_partition(16, volumes)
    images = [
        ("good", good),
        ("no-vols", make_partition(3, [])),
        ("truncated-body", good[:6 * SECT]),
        ("truncated-table", good[:3 * SECT + 30]),
    ]
    ft = 3 * SECT
    for value in range(256):
        d = bytearray(good)
        d[ft + 1 * 24 + 16] = value
        images.append((f"file[1].type={value:#x}", bytes(d)))
    for entry in (0, 1, 2, 3, 4):
        for field_off in range(24):
            for value in (0x00, 0x29, 0xFF):
                d = bytearray(good)
                d[ft + entry * 24 + field_off] = value
                images.append((f"file[{entry}]+{field_off}={value:#x}", bytes(d)))
    # damage inside the sample headers: the entry is listed but its lazy parse fails
    for sector in (4, 5, 8, 9):
        for off in (0, 1, 2, 3, 15, 20, 140):
            for value in (0x00, 0x29, 0xFF):
                d = bytearray(good)
                d[sector * SECT + off] = value
                images.append((f"sample@{sector}+{off}={value:#x}", bytes(d)))
    for _ in range(100):
        d = bytearray(good)
        base = ft + rng.randrange(0, 5) * 24
        for _ in range(rng.randrange(2, 8)):
            d[base + rng.randrange(24)] = rng.getrandbits(8)
        images.append(("random-entry-damage", bytes(d)))
    sat_off = PREAMBLE_HDR_LEN + 16 * AKAI_VOLUME_ENTRY_CNT
    for _ in range(30):
        d = bytearray(good)
        for _ in range(rng.randrange(1, 4)):
            idx = rng.randrange(0, 18)
            d[sat_off + 2 * idx:sat_off + 2 * idx + 2] = struct.pack(
                "<H", rng.choice([0, 3, 4, 5, 11, 12, 0x4000, 0x8000, 0xC000,
                                  0xFFFF, rng.randrange(0, 0x10000)])
            )
        images.append(("sat-damage", bytes(d)))

    for n, (label, data) in enumerate(images):
        for with_routines in ((False, True) if n % 8 == 0 else (n % 2 == 1,)):
            a = run_image(OrigVolume, data, with_routines)
            b = run_image(LiveVolume, data, with_routines)
            check(a == b, f"image mismatch {label} routines={with_routines}: "
                          f"{str(a)[:500]} != {str(b)[:500]}")

    # expected values, independent of the inline copy
    res = run_image(LiveVolume, good, False)
    check(res[0] == "ok", f"good image parses: {str(res)[:300]}")
    if res[0] == "ok":
        desc = res[2]
        check([v[1] for v in desc] == ["VOL ONE", "SECOND", "EMPTY"],
              f"volume names {[v[1] for v in desc]}")
        check([f[1] for f in desc[0][7]] == ["SAMPLE A", "SAMPLE B", "THIRD", "FOURTH"],
              "file names")
        check(desc[0][7][0][2] == ["IMG", "A:", "VOL ONE", "SAMPLE A"], "file path")
        check(desc[0][7][0][4] == b"", "sample A bytes")
    res = run_image(LiveVolume, good, True)
    check(res[0] == "ok" and [f[1] for f in res[2][0][7]]
          == ["THIRD", "SAMPLE B", "FOURTH"], "routines applied in order")
    d = bytearray(good)
    d[ft + 24 + 16] = 0x01          # unknown type byte in entry 1
    res = run_image(LiveVolume, bytes(d), False)
    check(res[0] == "ok" and [f[1] for f in res[2][0][7]]
          == ["SAMPLE A", "THIRD", "FOURTH"],
          "damaged type byte drops only that entry")


def main():
    part_a()
    part_b()
    print(f"{checked} checks, {len(failures)} failures")
    for msg in failures[:15]:
        print("FAIL:", msg[:1500])
    return 1 if failures else 0


if __name__ == "__main__":
    sys.exit(main())
