"""Equivalence demo for r16 (smpl_extract/akai/file_entry.py,
FileEntriesAdapter._parse and its table-end probe).

An inline copy of the ORIGINAL _parse (with the probe as a nested function)
lives in a subclass and is compared with the live class:
  A. the probe alone (when the live module exposes it at module level) against
     the original nested function on plain, short, and "lying" streams (streams
     that announce more bytes than they can deliver), at every cursor position:
     same answer, same exception, same final cursor, same tell/seek/read log;
  B. _parse over volume directories of images made by an independent AKAI
     writer - intact, with the end marker removed, moved or duplicated, with
     random bytes flipped (bad names, bad types, start sectors that are zero,
     free or out of range), on truncated and lying directory streams: same
     entries (name, type), same realised files (sample name, rate, markers and
     the PCM bytes of the data window) or the same exception, and the same
     sequence of tell/seek/read calls on the partition stream;
  C. whole images exported to WAV with the live class and with the original
     _parse patched in: same stdout, same files, same bytes.
Exit 0 = all agree."""
import contextlib
import hashlib
import io
import os
import random
import shutil
import struct
import sys
import tempfile
from io import SEEK_CUR
from io import SEEK_END
from io import SEEK_SET
from typing import Iterable
from typing import List
from typing import Union

from construct.core import ConstructError
from construct.core import Int16ul
from construct.core import Lazy
from construct.core import StreamError
from construct.expr import this
from construct.lib.containers import Container

import smpl_extract.akai.file_entry as file_entry_module
from smpl_extract.akai.data_types import FILE_TABLE_END_FLAG
from smpl_extract.akai.data_types import VolumeType
from smpl_extract.akai.file import FileAdapter
from smpl_extract.akai.file import FileConstruct
from smpl_extract.akai.file_entry import FileEntriesAdapter
from smpl_extract.akai.file_entry import FileEntry
from smpl_extract.akai.file_entry import FileEntryConstruct
from smpl_extract.akai.file_entry import FileEntryContainer
from smpl_extract.akai.sat import SegmentAllocationTableAdapter
from smpl_extract.akai.volume import Volume
from smpl_extract.util.constructs import pull_child_info
from smpl_extract.util.fat import RequestedInvalidSector
from smpl_extract.util.stream import StreamWrapper


# ---- inline copy of the ORIGINAL implementation -------------------------
class OrigFileEntriesAdapter(FileEntriesAdapter):

    def _parse(self, stream, context, path)->Iterable[FileEntry]:


        def is_table_end(stream_inner):
            original_address = stream_inner.tell()

            stream_inner.seek(8, SEEK_CUR)
            try:
                end_flag = Int16ul.parse_stream(stream_inner)
            except (StreamError):
                return True

            stream_inner.seek(original_address, SEEK_SET)

            result = (end_flag == FILE_TABLE_END_FLAG)
            return result


        child_info = pull_child_info(context)
        parent = child_info.parent
        sat = self.sat(context) if callable(self.sat) else self.sat

        # read file entries containers
        stream.seek(0, SEEK_END)
        file_table_size = stream.tell()
        stream.seek(0, SEEK_SET)

        table_entry_size = self.subcon.sizeof()
        max_table_entry_cnt = file_table_size // table_entry_size

        file_entries: List[FileEntry] = []
        for _i in range(max_table_entry_cnt):
            if is_table_end(stream):
                break
            file_entry_container: Union[FileEntryContainer, None] = None
            entry_address = stream.tell()
            try:
                file_entry_container = self.subcon.parse_stream(stream, _=context, sat=sat)
            except (ConstructError, RequestedInvalidSector):
                # skip the bad entry, stay aligned with the table
                stream.seek(entry_address + table_entry_size, SEEK_SET)

            if file_entry_container is not None and file_entry_container.start > 0:
                name = file_entry_container.name
                file_content = Lazy(FileAdapter(
                        this._.sat,
                        FileConstruct
                    )).parse_stream(
                        file_entry_container.file_stream,  # type: ignore
                        _=context,
                        file_type=file_entry_container.file_type,
                        _elem_name=name,
                        _elem_parent=parent,
                        _elem_routines=child_info.routines
                    )

                if file_content is None:
                    raise ConstructError

                file_entry = FileEntry(
                    file_entry_container.name,
                    file_entry_container.file_type,
                    file_content
                )

                file_entries.append(file_entry)

        result = file_entries
        return result


def orig_is_table_end(stream_inner):
    original_address = stream_inner.tell()

    stream_inner.seek(8, SEEK_CUR)
    try:
        end_flag = Int16ul.parse_stream(stream_inner)
    except (StreamError):
        return True

    stream_inner.seek(original_address, SEEK_SET)

    result = (end_flag == FILE_TABLE_END_FLAG)
    return result
# -------------------------------------------------------------------------

# ---- independent AKAI S1000/S3000 image writer (logical model -> bytes) ----
import struct as _struct

SECTOR = 0x2000
SAT_CNT = 11386
HEADER_SECTORS = 3
MAGIC = b"".join(((3333 * i) & 0xFFFF).to_bytes(2, "little") for i in range(1, 98))


def akai_name(text):
    out = bytearray()
    for ch in text.upper().ljust(12)[:12]:
        if "0" <= ch <= "9":
            out.append(ord(ch) - ord("0"))
        elif "A" <= ch <= "Z":
            out.append(ord(ch) - ord("A") + 0x0B)
        else:
            out.append({" ": 0x0A, "#": 0x25, "+": 0x26, "-": 0x27, ".": 0x28}[ch])
    return bytes(out)


def sample_file(name, type_byte, rate, pcm, play_start, play_end, loops=(), loop_type=2):
    """140 byte header followed by the 16 bit words."""
    head = bytearray()
    head += bytes([type_byte, 0, 60])
    head += akai_name(name)
    head += bytes(4)
    head += bytes([loop_type, 0, 0])
    head += bytes(4)
    head += _struct.pack("<III", len(pcm) // 2, play_start, play_end)
    table = list(loops) + [(0, 0, 0, 0)] * (8 - len(loops))
    for at, fine, coarse, duration in table:
        head += _struct.pack("<IHIH", at, fine, coarse, duration)
    head += bytes(4)
    head += _struct.pack("<H", rate)
    assert len(head) == 140, len(head)
    return bytes(head) + pcm


def build_partition(rnd, volumes, layout="random", dir_style="chain", spare=6):
    """volumes: list of (name, type 1|3, [(file name, file type byte, content bytes)])"""
    needed = HEADER_SECTORS
    for _name, _type, files in volumes:
        needed += 2 + (24 * (len(files) + 1) + SECTOR - 1) // SECTOR
        for _fname, _ftype, content in files:
            needed += max(1, (len(content) + SECTOR - 1) // SECTOR)
    total = needed + spare
    sat = [0] * SAT_CNT
    for s in range(HEADER_SECTORS):
        sat[s] = 0x4000
    sectors = {}
    free = list(range(HEADER_SECTORS, total))

    def take(count, how):
        nonlocal free
        if how == "contiguous":
            for at in range(len(free) - count + 1):
                run = free[at:at + count]
                if run[-1] - run[0] == count - 1:
                    break
            else:
                raise AssertionError("no contiguous run")
            chosen = run
        elif how == "ascending":
            chosen = sorted(rnd.sample(free, count))
        elif how == "descending":
            chosen = sorted(rnd.sample(free, count), reverse=True)
        else:
            chosen = rnd.sample(free, count)
        free = [s for s in free if s not in chosen]
        return chosen

    def store(chain, payload):
        for n, s in enumerate(chain):
            sectors[s] = payload[n * SECTOR:(n + 1) * SECTOR].ljust(SECTOR, b"\x00")

    # directories first (a reserved run needs a non reserved sector behind it)
    dir_chains = []
    for _name, _type, files in volumes:
        count = (24 * (len(files) + 1) + SECTOR - 1) // SECTOR
        if dir_style == "reserved":
            chain = take(count + 1, "contiguous")
            guard = chain.pop()
            free.append(guard)
            free.sort()
            for s in chain:
                sat[s] = 0x4000
            # keep the guard sector out of later reserved runs: leave it free
            free.remove(guard)
        else:
            chain = take(count, "contiguous" if dir_style == "chain" else "random")
            for a, b in zip(chain, chain[1:]):
                sat[a] = b
            sat[chain[-1]] = 0xC000
        dir_chains.append(chain)

    volume_table = bytearray()
    for (name, vtype, files), dir_chain in zip(volumes, dir_chains):
        table = bytearray()
        for fname, ftype, content in files:
            count = max(1, (len(content) + SECTOR - 1) // SECTOR)
            how = layout if layout != "mixed" else rnd.choice(
                ["contiguous", "ascending", "descending", "random"])
            chain = take(count, how)
            for a, b in zip(chain, chain[1:]):
                sat[a] = b
            sat[chain[-1]] = 0xC000
            store(chain, content)
            table += akai_name(fname) + bytes(4) + bytes([ftype])
            table += len(content).to_bytes(3, "little")
            table += _struct.pack("<H", chain[0]) + bytes(2)
        end = bytearray(24)
        end[8:10] = (0xD747).to_bytes(2, "little")
        table += end
        store(dir_chain, bytes(table))
        volume_table += akai_name(name) + _struct.pack("<HH", vtype, dir_chain[0])
    volume_table += bytes(16 * (100 - len(volumes)))

    head = _struct.pack("<H", total) + b"\x00\x00" + MAGIC
    check = total // 128 - 1
    head += bytes([0x55 if check % 2 == 0 else 0xD5, (check // 2 + 0xBA) & 0xFF]) + b"\x2F\x00"
    head += bytes(volume_table)
    head += b"".join(_struct.pack("<H", x) for x in sat)
    assert len(head) == HEADER_SECTORS * SECTOR - 2, len(head)
    body = bytearray(head.ljust(HEADER_SECTORS * SECTOR, b"\x00"))
    for s in range(HEADER_SECTORS, total):
        body += sectors.get(s, bytes(SECTOR))
    return bytes(body)
# ---------------------------------------------------------------------------

# ---- shared demo plumbing --------------------------------------------------
failures = 0
checks = 0


def check(label, a, b):
    global failures, checks
    checks += 1
    if a != b:
        failures += 1
        if failures <= 10:
            print("MISMATCH", label, "\n   live:", repr(a)[:600], "\n   orig:", repr(b)[:600])


def describe_exc(e):
    cause = e.__cause__
    return (
        type(e).__module__ + "." + type(e).__qualname__,
        str(e),
        None if cause is None else (type(cause).__qualname__, str(cause)),
        e.__suppress_context__,
    )


def outcome(f):
    try:
        return ("ok", f())
    except BaseException as e:  # noqa - demo compares every exception
        return ("raise", describe_exc(e))


def snapshot_dir(base):
    found = {}
    for root, dirs, files in os.walk(base):
        dirs.sort()
        rel = os.path.relpath(root, base)
        found[rel + "/"] = None
        for name in sorted(files):
            with open(os.path.join(root, name), "rb") as fh:
                found[os.path.join(rel, name)] = hashlib.sha256(fh.read()).hexdigest()
    return found


def export_image(image_bytes, scratch, tag):
    from smpl_extract.actions import export_samples_to_wav
    from smpl_extract.akai.image import AkaiImageParser
    dest = os.path.join(scratch, tag)
    os.makedirs(dest)
    captured = io.StringIO()
    with contextlib.redirect_stdout(captured):
        result = outcome(lambda: export_samples_to_wav(
            AkaiImageParser(io.BytesIO(image_bytes)), dest))
    return (result, captured.getvalue(), snapshot_dir(dest))


def make_images(rnd):
    """A spread of logical models x allocation layouts x directory styles."""
    def pcm(words):
        return bytes(rnd.getrandbits(8) for _ in range(2 * words))

    images = []
    lengths = [1, 2, 100, 4096 - 70, 4096 - 69, 4096 - 71, 2 * 4096 - 70,
               3 * 4096 - 70, 5000, 9000, 13000]
    for layout in ("contiguous", "ascending", "descending", "random", "mixed"):
        for dir_style in ("chain", "reserved", "scattered"):
            parts = []
            for p in range(rnd.choice([1, 2, 3])):
                volumes = []
                for v in range(rnd.choice([1, 2, 3])):
                    files = []
                    for f in range(rnd.choice([0, 1, 3, 5])):
                        words = rnd.choice(lengths)
                        start = rnd.choice([0, 0, 1, 7, words // 3])
                        end = rnd.choice([words, words, words - 1, max(start, words - 5)])
                        s3000 = rnd.random() < 0.5
                        files.append((
                            "S%d%d%d" % (p, v, f),
                            0xF3 if s3000 else 0x73,
                            sample_file(
                                "S%d" % f, 3 if s3000 else 1,
                                rnd.choice([0, 8000, 22050, 44100, 48000]),
                                pcm(words), start, end
                            )
                        ))
                    if rnd.random() < 0.5:
                        words = rnd.choice(lengths)
                        for side in "LR":
                            files.append((
                                "PAIR -" + side, 0xF3,
                                sample_file("PAIR -" + side, 3, 44100, pcm(words), 0, words)
                            ))
                    volumes.append(("VOL %d%d" % (p, v), rnd.choice([1, 3]), files))
                parts.append(build_partition(rnd, volumes, layout=layout, dir_style=dir_style))
            images.append(((layout, dir_style), b"".join(parts)))
    return images
# ---------------------------------------------------------------------------


class LoggingBytesIO(io.BytesIO):
    def __init__(self, data, log):
        super().__init__(data)
        self.log = log

    def tell(self):
        r = super().tell()
        self.log.append(("tell", r))
        return r

    def seek(self, *a):
        r = super().seek(*a)
        self.log.append(("seek", a, r))
        return r

    def read(self, *a):
        r = super().read(*a)
        self.log.append(("read", a, len(r)))
        return r


def part_a():
    live_probe = getattr(file_entry_module, "_is_table_end", None)
    if live_probe is None:
        print("part A: the live module keeps the probe nested; nothing to compare directly")
        return
    rnd = random.Random(1601)
    marker = struct.pack("<H", FILE_TABLE_END_FLAG)
    for case in range(1500):
        size = rnd.choice([0, 1, 8, 9, 10, 11, 24, 30, 48, 100])
        data = bytearray(rnd.getrandbits(8) for _ in range(size))
        for _ in range(rnd.choice([0, 1, 3])):
            at = rnd.randrange(0, size + 1)
            data[at:at + 2] = marker
        data = bytes(data[:size])
        position = rnd.randrange(0, size + 4)
        kind = rnd.choice(["plain", "wrapped", "lying"])

        def run(probe):
            log = []
            bottom = LoggingBytesIO(data, log)
            if kind == "plain":
                stream = bottom
            elif kind == "wrapped":
                stream = StreamWrapper(bottom, size)
            else:
                stream = StreamWrapper(bottom, size + rnd_extra)
            stream.seek(position, SEEK_SET)
            del log[:]
            r = outcome(lambda: probe(stream))
            return r, stream.tell(), list(log)

        rnd_extra = rnd.choice([1, 5, 40])
        check(("probe", case, kind), run(live_probe), run(orig_is_table_end))


def describe_file(entry):
    def go():
        item = entry.file
        described = [type(item).__name__]
        for key in ("file_name", "sample_name", "sample_type", "sample_rate", "samples_cnt",
                    "start_sample", "end_sample", "loop_type", "path", "name"):
            if hasattr(item, key):
                described.append((key, repr(getattr(item, key))))
        data_stream = getattr(item, "_data_stream", None)
        if data_stream is not None:
            data_stream.seek(0, SEEK_SET)
            described.append(("pcm", hashlib.sha256(data_stream.read(-1)).hexdigest()))
        return described
    return outcome(go)


def parse_directory(cls, partition, start, damage, stream_kind):
    log = []
    partition_stream = LoggingBytesIO(partition, log)
    raw = list(struct.unpack("<%dH" % SAT_CNT, partition[1802:1802 + 2 * SAT_CNT]))
    sat = SegmentAllocationTableAdapter(partition_stream, Int16ul[4])._decode(raw, {}, "")
    volume = Volume(name="VOL", volume_type=VolumeType.VOLUME_S3000, path=["A:", "VOL"])
    context = Container(_elem_parent=volume, _elem_routines={}, sat=sat)

    def go():
        directory = sat.get_segment(start)
        if stream_kind == "short":
            directory = StreamWrapper(directory, damage["short"])
        elif stream_kind == "lying":
            directory = StreamWrapper(io.BytesIO(directory.read(damage["short"])), damage["short"] + 60)
        elif stream_kind == "bytes":
            directory = io.BytesIO(directory.read(damage["short"]))
        adapter = cls(this.sat if damage["callable_sat"] else sat, FileEntryConstruct)
        entries = adapter._parse(directory, context, "(path)")
        where = directory.tell()
        return (
            type(entries).__name__, where,
            [(type(e).__name__, e.name, repr(e.file_type), describe_file(e)) for e in entries],
        )
    return outcome(go), list(log)


def part_b():
    rnd = random.Random(1602)

    def pcm(words):
        return bytes(rnd.getrandbits(8) for _ in range(2 * words))

    realised = 0
    for case in range(60):
        files = []
        for f in range(rnd.choice([0, 1, 2, 5, 9])):
            words = rnd.choice([1, 50, 4096 - 70, 2 * 4096 - 70, 5000, 9000])
            s3000 = rnd.random() < 0.5
            files.append((
                "F%d" % f, 0xF3 if s3000 else 0x73,
                sample_file("F%d" % f, 3 if s3000 else 1, rnd.choice([0, 22050, 44100]),
                            pcm(words), rnd.choice([0, 2]), words)
            ))
        dir_style = rnd.choice(["chain", "reserved", "scattered"])
        base = build_partition(rnd, [("VOL", 3, files)],
                               layout=rnd.choice(["contiguous", "random", "mixed"]),
                               dir_style=dir_style)
        start = struct.unpack("<H", base[202 + 14:202 + 16])[0]
        table_at = start * SECTOR
        for variant_no in range(8):
            partition = bytearray(base)
            what = rnd.choice(["intact", "intact", "no end", "early end", "flip", "flip", "zero start", "bad start"])
            if what == "no end":
                partition[table_at + 24 * len(files) + 8:table_at + 24 * len(files) + 10] = b"\x0b\x0b"
            elif what == "early end" and files:
                at = table_at + 24 * rnd.randrange(len(files))
                partition[at + 8:at + 10] = struct.pack("<H", FILE_TABLE_END_FLAG)
            elif what == "flip":
                for _ in range(rnd.choice([1, 3, 10])):
                    partition[table_at + rnd.randrange(24 * (len(files) + 1))] = rnd.getrandbits(8)
            elif what == "zero start" and files:
                at = table_at + 24 * rnd.randrange(len(files))
                partition[at + 20:at + 22] = b"\x00\x00"
            elif what == "bad start" and files:
                at = table_at + 24 * rnd.randrange(len(files))
                partition[at + 20:at + 22] = struct.pack("<H", rnd.choice([SAT_CNT, 0xFFFF, 2, 9000]))
            damage = {
                "short": rnd.choice([0, 5, 10, 23, 24, 25, 24 * len(files) + 9,
                                     24 * len(files) + 10, 24 * (len(files) + 1), 100]),
                "callable_sat": rnd.random() < 0.5,
            }
            stream_kind = rnd.choice(["segment", "segment", "segment", "short", "lying", "bytes"])
            live = parse_directory(FileEntriesAdapter, bytes(partition), start, damage, stream_kind)
            orig = parse_directory(OrigFileEntriesAdapter, bytes(partition), start, damage, stream_kind)
            check(("directory", case, variant_no, what, stream_kind, dir_style), live, orig)
            if live[0][0] == "ok":
                realised += sum(1 for e in live[0][1][2] if e[3][0] == "ok")
    print("files realised through the directory parser:", realised)
    check("directory sessions are not vacuous", realised > 200, True)


def part_c(scratch):
    rnd = random.Random(1603)
    exported = 0
    calls = [0]
    orig_parse = OrigFileEntriesAdapter.__dict__["_parse"]

    def counting_parse(self, stream, context, path):
        calls[0] += 1
        return orig_parse(self, stream, context, path)

    for n, (label, image) in enumerate(make_images(rnd)):
        live = export_image(image, scratch, "live%d" % n)
        saved = FileEntriesAdapter.__dict__["_parse"]
        FileEntriesAdapter._parse = counting_parse
        try:
            orig = export_image(image, scratch, "orig%d" % n)
        finally:
            FileEntriesAdapter._parse = saved
        check(("export", label), live, orig)
        exported += sum(1 for digest in live[2].values() if digest)
    print("wav files exported per run:", exported, "| original _parse calls:", calls[0])
    check("exports are not vacuous", exported > 40, True)
    check("the original _parse really ran", calls[0] >= 15, True)


def main():
    scratch = tempfile.mkdtemp(prefix="r16_demo_")
    try:
        part_a()
        part_b()
        part_c(scratch)
    finally:
        shutil.rmtree(scratch, ignore_errors=True)
    print("checks:", checks, "failures:", failures)
    return 1 if failures or not checks else 0


if __name__ == "__main__":
    sys.exit(main())
