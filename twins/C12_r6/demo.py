"""Equivalence demo for r6: PipelineTranscoder.__next__ (stop condition).

An inline copy of the ORIGINAL __next__ is run side by side with the
method of smpl_extract.transcoder.PipelineTranscoder on
  (a) synthetic pipelines (scripted decode results, logging processes,
      raising decode/process/encode callables), and
  (b) real pipelines built by make_transcoder over many stream shapes.
Exit 0 when everything agrees, 1 otherwise.
"""
from io import BytesIO
import itertools
import sys
from unittest.mock import patch

import numpy as np

import smpl_extract.transcoder as T
from smpl_extract.data_streams import DataStream
from smpl_extract.data_streams import Endianess
from smpl_extract.data_streams import StreamEncoding
from smpl_extract.util.stream import SectorReadError


def next_ORIG(self):
    # verbatim body of the original PipelineTranscoder.__next__
    try:
        channels = self.pipeline.f_decode(self.data_streams)
    except SectorReadError:  # TODO: Create more robust handling for this
        raise StopIteration
    if any(len(x) <= 0 for x in channels):
        raise StopIteration

    for process in self.pipeline.processes:
        f_process = process[1]
        channels = f_process(channels)

    result = self.pipeline.f_encode(channels)
    return result


class OrigTranscoder(T.PipelineTranscoder):
    __next__ = next_ORIG


class Boom(Exception):
    pass


def run_synthetic(cls, script, process_spec, encode_mode):
    """script: list of items, each either a list of channel lengths, or an
    exception class to raise from f_decode.  Returns a comparable trace."""
    log = []
    script = list(script)
    streams = ["s0", "s1"]

    def f_decode(ds):
        log.append(("decode", ds is streams))
        item = script.pop(0)
        if isinstance(item, type) and issubclass(item, BaseException):
            raise item("scripted")
        return [np.arange(n, dtype=np.int16) + 10 * i for i, n in enumerate(item)]

    def make_proc(tag, mode):
        def proc(channels):
            log.append((tag, [c.tobytes() for c in channels]))
            if mode == "raise":
                raise Boom(tag)
            if mode == "stop":
                raise StopIteration
            if mode == "drop":
                return channels[:-1]
            return [c + 1 for c in channels]
        return proc

    processes = []
    for i, mode in enumerate(process_spec):
        entry = (f"p{i}", make_proc(f"p{i}", mode))
        if i % 2:
            entry = entry + ("extra-field",)  # only index 1 may be used
        processes.append(entry)

    sentinel = object()

    def f_encode(channels):
        log.append(("encode", [c.tobytes() for c in channels]))
        if encode_mode == "raise":
            raise Boom("encode")
        if encode_mode == "sentinel":
            return sentinel
        return b"".join(c.tobytes() for c in channels)

    tc = cls(streams, T.TranscodePipelineStruct(f_decode, processes, f_encode))
    outs = []
    for _ in range(len(script) + 1):
        if not script:
            break
        try:
            r = next(tc)
            outs.append(("ret", "SENTINEL" if r is sentinel else r))
        except StopIteration as e:
            outs.append(("stop", e.args,
                         type(e.__context__).__name__))
        except Exception as e:  # noqa
            outs.append(("exc", type(e).__name__, str(e)))
    return outs, log


def run_real(cls, specs, dest, payloads, host):
    with patch.object(T, "system_byte_order", host):
        streams = [DataStream(BytesIO(p), e) for e, p in zip(specs, payloads)]
        tc = T.make_transcoder(streams, dest)
        if not isinstance(tc, T.PipelineTranscoder):
            return ("passthrough",)
        tc2 = cls(tc.data_streams, tc.pipeline)
        blocks = []
        while True:
            try:
                blocks.append(next(tc2))
            except StopIteration:
                break
        # a finished iterator must keep raising StopIteration
        again = []
        for _ in range(2):
            try:
                again.append(next(tc2))
            except StopIteration:
                again.append("stop")
        return (blocks, again, [s.stream.tell() for s in streams])


def main():
    bad = 0
    n = 0

    scripts = [
        [[3, 3]],
        [[3, 3], [2, 2], [0, 0]],
        [[3, 0]],
        [[0, 3]],
        [[4, 2, 0, 1]],
        [[1], [1], [0], [5]],
        [[]],                       # no channels at all: any([]) is False
        [SectorReadError, [2, 2]],
        [[2, 2], SectorReadError, [1, 1]],
        [Boom, [2, 2]],
        [ValueError],
        [[2, 5, 1]],
        [[0]],
        [[2, 2], [0, 1], [3, 3]],
    ]
    proc_specs = [
        [], ["ok"], ["ok", "ok"], ["ok", "ok", "ok"], ["drop", "ok"],
        ["ok", "raise", "ok"], ["raise"], ["ok", "stop"],
    ]
    for script, procs, enc in itertools.product(
            scripts, proc_specs, ("bytes", "sentinel", "raise")):
        a = run_synthetic(T.PipelineTranscoder, script, procs, enc)
        b = run_synthetic(OrigTranscoder, script, procs, enc)
        n += 1
        if a != b:
            bad += 1
            if bad <= 5:
                print("MISMATCH synthetic", script, procs, enc)
                print("  new :", a)
                print("  orig:", b)

    ends = (Endianess.LITTLE, Endianess.BIG)
    lens_by_n = {
        1: [(0,), (1,), (9,), (2100,)],
        2: [(6, 6), (0, 5), (7, 2), (1500, 1500), (1500, 1400)],
        3: [(3, 3, 3), (4, 0, 9), (1030, 1029, 1031)],
    }
    for host in ends:
        for nstreams in (1, 2, 3):
            for chans in itertools.product((1, 2, 3), repeat=nstreams):
                if nstreams == 3 and sum(chans) > 6:
                    continue
                for width in (1, 2, 4):
                    for orders in itertools.product(ends, repeat=nstreams):
                        specs = [StreamEncoding(o, width, c, True)
                                 for o, c in zip(orders, chans)]
                        dest = StreamEncoding(
                            Endianess.LITTLE, width, sum(chans), True)
                        for li, lens in enumerate(lens_by_n[nstreams]):
                            for extra in (0, 1):
                                payloads = []
                                for i, (e, k) in enumerate(zip(specs, lens)):
                                    rng = np.random.RandomState(li * 17 + i)
                                    size = k * e.num_interleaved_channels \
                                        * e.sample_width + (extra if i == 0 else 0)
                                    payloads.append(rng.randint(
                                        0, 256, size=size, dtype=np.uint8
                                    ).tobytes())
                                a = run_real(T.PipelineTranscoder, specs, dest,
                                             payloads, host)
                                b = run_real(OrigTranscoder, specs, dest,
                                             payloads, host)
                                n += 1
                                if a != b:
                                    bad += 1
                                    if bad <= 5:
                                        print("MISMATCH real", host, chans,
                                              width, orders, lens, extra)

    print(f"{n} cases, {bad} mismatches")
    return 1 if bad else 0


if __name__ == "__main__":
    sys.exit(main())
