"""Equivalence demo for r6: MdxStream (temporaries inlined, sizeof() hoisted
above the independent parse, size/offset passed by keyword, direct return).

Compares smpl_extract.alcohol.mdx.MdxStream with an inline copy of the
ORIGINAL: same exception or same StreamOffset state (all attributes), same
ordered log of calls on the parent stream, same bytes read through the result.
"""
import io
import random
import struct
import sys

from smpl_extract.alcohol.mdx import MdxHeaderConstruct
from smpl_extract.alcohol.mdx import MdxStream
from smpl_extract.util.stream import StreamOffset


def original_MdxStream(parent_stream, position=0, buffer_length=0x1000):
    header = MdxHeaderConstruct.parse_stream(parent_stream)  # type: ignore
    offset = MdxHeaderConstruct.sizeof()
    size = header.eof - offset
    result = StreamOffset(
        parent_stream,
        size,
        offset,
        position=position,
        buffer_length=buffer_length
    )
    return result


class Boom(Exception):
    pass


class Recorder(io.BytesIO):
    def __init__(self, data, fail_on_read=None):
        super().__init__(data)
        self.log = []
        self.reads = 0
        self.fail_on_read = fail_on_read

    def tell(self):
        r = super().tell()
        self.log.append(("tell", r))
        return r

    def seek(self, *a):
        r = super().seek(*a)
        self.log.append(("seek", a, r))
        return r

    def read(self, *a):
        self.reads += 1
        if self.reads == self.fail_on_read:
            self.log.append(("read-fail", a))
            raise Boom("injected")
        r = super().read(*a)
        self.log.append(("read", a, r))
        return r


def header(eof, magic=b"MEDIA DESCRIPTOR", version=b"\x02\x01",
           copyright=b"\xA9" + b" " * 25, pad=b"\xFF" * 4, tail=b"\x00" * 8):
    return magic + version + copyright + pad + struct.pack("<Q", eof) + tail


def run(fn, data, start, args, kwargs, fail_on_read=None):
    parent = Recorder(data, fail_on_read)
    io.BytesIO.seek(parent, start)
    try:
        res = fn(parent, *args, **kwargs)
    except BaseException as e:  # noqa
        # the inline copy necessarily has another name; ignore that in messages
        msg = str(e).replace("original_MdxStream", "MdxStream")
        return ("exc", type(e).__name__, msg), list(parent.log), io.BytesIO.tell(parent)
    state = dict(vars(res))
    sub = state.pop("substream")
    out = ["ok", type(res).__name__, sub is parent, sorted(state.items(), key=lambda kv: kv[0])]
    # exercise the wrapper: a few seeks/reads, including across its end
    try:
        for off, n in ((0, 4), (1, 16), (res.end_of_file - 3 if res.end_of_file > 3 else 0, 8), (5, 0)):
            res.seek(off, io.SEEK_SET)
            out.append((res.tell(), bytes(res.read(n)), res.tell()))
    except BaseException as e:  # noqa
        out.append(("exc-in-use", type(e).__name__, str(e)))
    return out, list(parent.log), io.BytesIO.tell(parent)


def main():
    rng = random.Random(6)
    assert MdxHeaderConstruct.sizeof() == 64
    payload = bytes(rng.getrandbits(8) for _ in range(5000))
    cases = []
    for eof in (0, 1, 63, 64, 65, 66, 100, 64 + 2048, 64 + 2049, 64 + 4096,
                64 + 5000, 64 + 6000, 2 ** 32, 2 ** 63, 2 ** 64 - 1):
        cases.append(header(eof) + payload)
        cases.append(header(eof))
    # malformed headers
    cases += [b"", b"MEDIA", header(200)[:40], header(200)[:63],
              header(200, magic=b"MEDIA_DESCRIPTOR") + payload,
              header(200, magic=b"media descriptor") + payload,
              header(200, copyright=b" " * 26) + payload,
              header(200, copyright=b"\xA8" + b" " * 25) + payload,
              header(200, version=b"\x00\x00") + payload,
              header(200, pad=b"\x00" * 4) + payload,
              header(200, tail=b"\x11" * 8) + payload,
              b"\x00" * 64, b"\xFF" * 200]
    for _ in range(150):
        d = bytearray(header(rng.randrange(0, 6000)) + payload[:rng.randrange(0, 3000)])
        if rng.random() < 0.5:
            d[rng.randrange(64)] = rng.getrandbits(8)
        cases.append(bytes(d[:rng.choice([len(d), len(d), rng.randrange(0, 80)])]))

    arg_forms = [((), {}), ((0,), {}), ((5,), {}), ((5, 16), {}), ((), {"position": 9}),
                 ((), {"buffer_length": 1}), ((3,), {"buffer_length": 0x200}),
                 ((), {"position": 10 ** 6, "buffer_length": 7}),
                 ((1, 2, 3), {}), ((), {"offset": 1}), ((), {"size": 1}), ((), {"bogus": 1})]

    checked = bad = 0
    for data in cases:
        for start in (0, 1, 64, len(data)):
            for args, kwargs in arg_forms:
                for fail_on_read in (None, 1, 2, 4):
                    a = run(original_MdxStream, data, start, args, kwargs, fail_on_read)
                    b = run(MdxStream, data, start, args, kwargs, fail_on_read)
                    checked += 1
                    if a != b:
                        bad += 1
                        if bad < 10:
                            print("MISMATCH", data[:24], start, args, kwargs, fail_on_read, a[0], b[0])

    # sanity: the good path really produces the expected window
    out, log, _ = run(MdxStream, header(64 + 100) + payload, 0, (), {})
    st = dict(out[3])
    assert out[0] == "ok" and st["offset"] == 64 and st["end_of_file"] == 100, out
    assert out[4][1] == payload[:4], out

    print("checked", checked, "mismatches", bad)
    return 1 if bad else 0


if __name__ == "__main__":
    sys.exit(main())
