"""Equivalence demo for r6: make_transcoder (smpl_extract/transcoder.py).

An inline copy of the ORIGINAL make_transcoder is compared with the one in the
tree on many stream sets: type of the returned transcoder, its configuration
(buffer size, process names), every block it yields, exceptions and the order
of seek/read calls on the streams. Exit 0 when everything agrees, 1 otherwise.
"""
import io
import itertools
import sys
from io import SEEK_SET
from typing import Callable
from typing import List
from typing import Tuple

import numpy as np

from smpl_extract import transcoder as tr
from smpl_extract.data_streams import DataStream
from smpl_extract.data_streams import Endianess
from smpl_extract.data_streams import IncompatibleNumberOfChannels
from smpl_extract.data_streams import NoDataStream
from smpl_extract.data_streams import StreamEncoding
from smpl_extract.data_streams import system_byte_order
from smpl_extract.transcoder import PassthroughTranscoder
from smpl_extract.transcoder import PipelineTranscoder
from smpl_extract.transcoder import TranscodePipelineStruct
from smpl_extract.transcoder import decode_frame
from smpl_extract.transcoder import encode_frame
from smpl_extract.transcoder import get_buffer_sizes
from smpl_extract.transcoder import swap_endianess
from smpl_extract.transcoder import swap_endianess_multi


def orig_make_transcoder(data_streams, dest_encoding):
    # verbatim copy of the original implementation

    # check for bad args
    if len(data_streams) <= 0:
        raise NoDataStream("No data streams given")

    total_num_channels = 0
    for data_stream in data_streams:
        num_channels = max(1, data_stream.encoding.num_interleaved_channels)
        total_num_channels += num_channels
    expected_num_channels = dest_encoding.num_interleaved_channels
    if total_num_channels != expected_num_channels:
        raise IncompatibleNumberOfChannels(
            f"Expected {expected_num_channels} fourd {total_num_channels}."
        )

    # begin
    for data_stream in data_streams:
        data_stream.stream.seek(0, SEEK_SET)
    buffer_sizes = get_buffer_sizes(data_streams)

    if len(data_streams) == 1 \
            and data_streams[0].encoding == dest_encoding:
        result = PassthroughTranscoder(
            data_streams[0],
            buffer_size=buffer_sizes[0]
        )
        return result

    processes: List[Tuple[
        str,
        Callable[[List[np.ndarray]], List[np.ndarray]]
    ]]
    processes = []

    # is byteswap needed at input?
    swaps = list(
        x.encoding.endianess != system_byte_order
        for x in data_streams
        for _ in range(max(1, x.encoding.num_interleaved_channels))
    )
    if any(swaps):
        if all(swaps):
            processes.append(("swap_input_endianess", swap_endianess))
        else:
            processes.append((
                "swap_input_endianess_multi",
                lambda x: swap_endianess_multi(x, swaps)
            ))

    # is byte swap needed at output?
    if dest_encoding.endianess != system_byte_order:
        processes.append(("swap_output_endianess", swap_endianess))

    dest_dtype = dest_encoding.dtype

    f_decode_frame = lambda x: decode_frame(x, buffer_sizes=buffer_sizes)
    f_encode_frame = lambda x: encode_frame(x, dest_dtype=dest_dtype)
    pipeline = TranscodePipelineStruct(
        f_decode_frame,
        processes,
        f_encode_frame
    )

    result = PipelineTranscoder(data_streams, pipeline)
    return result


class LoggingStream(io.BytesIO):
    def __init__(self, data, log, tag, start):
        super().__init__(data)
        super().seek(start)
        self._log = log
        self._tag = tag

    def seek(self, *args):
        self._log.append((self._tag, "seek", args))
        return super().seek(*args)

    def read(self, *args):
        self._log.append((self._tag, "read", args))
        return super().read(*args)


def pcm(n_bytes, salt):
    return bytes((i * 11 + salt * 29 + (i >> 8)) & 0xFF for i in range(n_bytes))


def build_streams(stream_specs, log):
    streams = []
    for k, (endian, width, nch, signed, n_bytes) in enumerate(stream_specs):
        enc = StreamEncoding(
            endianess=endian,
            sample_width=width,
            num_interleaved_channels=nch,
            is_signed=signed,
        )
        # streams start somewhere in the middle: make_transcoder must rewind
        start = min(n_bytes, 5)
        streams.append(
            DataStream(LoggingStream(pcm(n_bytes, k), log, k, start), enc)
        )
    return streams


def observe(make, stream_specs, dest):
    log = []
    streams = build_streams(stream_specs, log)
    try:
        t = make(streams, dest)
    except Exception as e:  # noqa: BLE001 - exceptions are part of behaviour
        return ("exc", type(e).__name__, str(e), log)
    if isinstance(t, PassthroughTranscoder):
        cfg = ("pass", t.data_stream is streams[0], t.buffer_size)
    else:
        assert isinstance(t, PipelineTranscoder)
        same_streams = (
            len(t.data_streams) == len(streams)
            and all(a is b for a, b in zip(t.data_streams, streams))
        )
        cfg = (
            "pipe",
            same_streams,
            [p[0] for p in t.pipeline.processes],
            [
                getattr(p[1], "__name__", "?")
                if p[1] in (swap_endianess,) else "lambda"
                for p in t.pipeline.processes
            ],
        )
    log_after_make = list(log)
    blocks = []
    try:
        for block in t:
            blocks.append(block)
    except Exception as e:  # noqa: BLE001
        blocks.append(("exc", type(e).__name__, str(e)))
    return ("ok", type(t).__name__, cfg, log_after_make, blocks, log)


def specs():
    L, B = Endianess.LITTLE, Endianess.BIG
    sizes = (0, 1, 2, 3, 10, 11, 0x0FFF, 0x1000, 0x1001, 9001)
    one = [
        [(e, w, nch, sg, n)]
        for e in (L, B)
        for w in (1, 2, 4)
        for nch in (0, 1, 2, 3)
        for sg in (True, False)
        for n in sizes
    ]
    two = [
        [(e1, 2, n1, True, s1), (e2, 2, n2, True, s2)]
        for e1 in (L, B)
        for e2 in (L, B)
        for n1, n2 in ((1, 1), (1, 2), (2, 1), (0, 1))
        for s1, s2 in ((0, 0), (100, 100), (9000, 9000), (9000, 8001), (7, 9000))
    ]
    three = [
        [(e1, 2, 1, True, 600), (e2, 2, 1, True, 601), (e3, 2, 2, True, 1200)]
        for e1 in (L, B)
        for e2 in (L, B)
        for e3 in (L, B)
    ]
    mixed_width = [
        [(L, 1, 1, False, 300), (B, 2, 1, True, 600)],
        [(B, 4, 1, True, 1200), (L, 2, 1, True, 600)],
    ]
    dests = [
        StreamEncoding(endianess=e, sample_width=w, num_interleaved_channels=n)
        for e in (L, B)
        for w in (1, 2, 4)
        for n in (0, 1, 2, 3, 4)
    ]
    yield ([], dests[0])
    for s, d in itertools.product(one + two + three + mixed_width, dests):
        yield (s, d)


def main():
    n = 0
    bad = 0
    kinds = {}
    for stream_specs, dest in specs():
        a = observe(orig_make_transcoder, stream_specs, dest)
        b = observe(tr.make_transcoder, stream_specs, dest)
        n += 1
        key = a[1] if a[0] == "exc" else (a[1],) + tuple(a[2][2:3] if a[2][0] == "pipe" else ())
        key = repr(key)
        kinds[key] = kinds.get(key, 0) + 1
        if a != b:
            bad += 1
            if bad < 5:
                print("MISMATCH", stream_specs, dest)
                print("   orig:", a[:3])
                print("   new: ", b[:3])
    for k in sorted(kinds):
        print(f"  {kinds[k]:6d}  {k}")
    print(f"{n} cases, {bad} mismatches")
    needed = (
        "NoDataStream",
        "IncompatibleNumberOfChannels",
        "PassthroughTranscoder",
        "swap_input_endianess_multi",
        "['swap_input_endianess']",
        "['swap_input_endianess', 'swap_output_endianess']",
        "['swap_output_endianess']",
        "[]",
    )
    for want in needed:
        if not any(want in k for k in kinds):
            print("demo lost its coverage:", want)
            return 1
    return 1 if bad else 0


if __name__ == "__main__":
    sys.exit(main())
