"""Equivalence demo for r24: add_to_sector_links (smpl_extract/util/fat.py) -
the error path now goes through a new private helper
`_entry_out_of_range(entry, num_entries)` that builds the InvalidFatDefinition
from the module-level template `_ENTRY_OUT_OF_RANGE_MESSAGE` with str.format
(it was a two-part f-string inside the `raise`); the caller still does
`raise ... from e`.  The two SectorLink constructions are spelled positionally
(`SectorLink(link, False)`, `SectorLink(0, True)`) instead of by keyword.

`original_add_to_sector_links` below is a verbatim copy of the ORIGINAL
function.  The module's function is compared with it on

 * exhaustively, every link sequence of length 0..4 over the indices
   -3 .. size+1 for every table size 0..4 (in range, negative, one past the
   end, repeated, self-linked; the empty sequence raises StopIteration in
   both), starting from a table that shares ONE default SectorLink object
   between all entries, like the decoders build it;
 * ill-typed links (None, str, float, bool), link sources that are tuples,
   ranges, generators and one-shot iterators, tables that are tuples / dicts;
 * index objects with their own __str__ / __repr__ / __format__ (the text put
   into the message must be the one the f-string produced), huge ints;
 * iterators that fail half way (IndexError, KeyError, ValueError raised from
   __next__) and the interleaving of "next link pulled" / "entry stored" /
   "len(table) taken for the message" events, recorded in one shared log by an
   instrumented iterator and an instrumented table;
 * random long chains over tables of real size (11386 and 65536 entries);
 * outcome = the table afterwards (type, next, end of every entry, and which
   entries are the same object: installed entries must be fresh objects; this
   is probed by mutating every installed entry afterwards and running the
   function again) or the exception (type, text, type of __cause__, and
   whether __cause__ is the IndexError raised by the store), including the
   partially updated table left behind by an error;
 * the two decoders that call it (AKAI SAT, Roland FAT), once with the module's
   function and once with the original patched in.
"""
import itertools
import random
import sys
from typing import List

from construct.core import Container
from construct.core import Int16ul

from smpl_extract.akai import sat as sat_module
from smpl_extract.akai.data_types import AKAI_SAT_EOF_FLAG
from smpl_extract.akai.data_types import AKAI_SAT_FREE_FLAG
from smpl_extract.akai.data_types import AKAI_SAT_RESERVED_FLAG_STD
from smpl_extract.roland.s7xx import fat as roland_fat_module
from smpl_extract.roland.s7xx.data_types import FAT_AREA_ID
from smpl_extract.roland.s7xx.data_types import FAT_NUM_ENTRIES
from smpl_extract.util import fat as fat_module
from smpl_extract.util.fat import InvalidFatDefinition
from smpl_extract.util.fat import SectorLink
from smpl_extract.util.fat import add_to_sector_links


# ---------------------------------------------------------------- original
def original_add_to_sector_links(
        links_arg:      List[int],
        sector_links:   List[SectorLink]
    ):

    links_iter = iter(links_arg)
    prev_link = next(links_iter)
    try:
        for link in links_iter:
            sector_links[prev_link] = SectorLink(next=link, end=False)
            prev_link = link
        sector_links[prev_link] = SectorLink(next=0, end=True)

    except IndexError as e:
        raise InvalidFatDefinition(
            f"FAT entry {prev_link} exceeds total "
            f"number of FAT entries {len(sector_links)}."
        ) from e


# ------------------------------------------------------------------ helpers
def describe_entries(entries):
    classes = {}
    described = []
    for entry in entries:
        described.append((
            type(entry).__name__,
            getattr(entry, "next", "n/a"),
            getattr(entry, "end", "n/a"),
            type(getattr(entry, "next", None)).__name__,
            classes.setdefault(id(entry), len(classes)),
        ))
    return described


def run(function, links_factory, table_factory):
    table = table_factory()
    links = links_factory()
    try:
        returned = function(links, table)
        result = ("ok", returned)
    except BaseException as exc:  # noqa: BLE001  (StopIteration included)
        result = ("raise", type(exc).__name__, str(exc),
                  type(exc.__cause__).__name__)
    entries = list(table.values()) if isinstance(table, dict) else list(table)
    keys = sorted(map(repr, table)) if isinstance(table, dict) else None
    first = describe_entries(entries)

    # Installed entries must be private to the table: scribble over them and
    # run again on a fresh table; nothing of the scribble may come back.
    for entry in entries:
        if isinstance(entry, SectorLink):
            entry.next = 0x5A5A
            entry.end = "scribbled"
    table_2 = table_factory()
    try:
        function(links_factory(), table_2)
    except BaseException:  # noqa: BLE001
        pass
    entries_2 = (list(table_2.values()) if isinstance(table_2, dict)
                 else list(table_2))
    second = describe_entries(entries_2)
    return result, keys, first, second


failures = 0
checked = 0


def compare(links_factory, table_factory, label):
    global failures, checked
    checked += 1
    expected = run(original_add_to_sector_links, links_factory, table_factory)
    actual = run(add_to_sector_links, links_factory, table_factory)
    if expected != actual:
        failures += 1
        if failures <= 10:
            print("MISMATCH", label)
            print("  original :", str(expected)[:500])
            print("  module   :", str(actual)[:500])


def shared_default_table(size):
    return lambda: [SectorLink()] * size


def check_exhaustive():
    for size in range(0, 5):
        indices = range(-3, size + 2)
        for length in range(0, 5):
            for links in itertools.product(indices, repeat=length):
                compare(lambda: list(links), shared_default_table(size),
                        ("exhaustive", size, links))


def check_odd_arguments():
    size = 4
    odd_links = [
        [None], [1, None], [None, 1], ["1"], [1, "2"], [1.0], [1, 2.0],
        [True, False], [False], [2, True, 3], [1, 2, 3, 4], [4], [3, 4],
        [3, -5], [-4], [-5], [10 ** 30], [1, 10 ** 30],
    ]
    for links in odd_links:
        compare(lambda: list(links), shared_default_table(size),
                ("odd", links))
        compare(lambda: tuple(links), shared_default_table(size),
                ("odd tuple", links))
        compare(lambda: iter(list(links)), shared_default_table(size),
                ("odd iterator", links))
        compare(lambda: (x for x in links), shared_default_table(size),
                ("odd generator", links))
        # tables of other kinds
        compare(lambda: list(links), lambda: tuple([SectorLink()] * size),
                ("tuple table", links))
        compare(lambda: list(links), lambda: {},
                ("dict table", links))
    compare(lambda: range(0, 4), shared_default_table(size), "range")
    compare(lambda: range(0, 5), shared_default_table(size), "range beyond")
    compare(lambda: range(0), shared_default_table(size), "empty range")
    compare(lambda: None, shared_default_table(size), "links None")
    compare(lambda: 5, shared_default_table(size), "links int")
    compare(lambda: "12", shared_default_table(size), "links str")
    # a table that already carries chains
    def preloaded():
        table = [SectorLink()] * 6
        original_add_to_sector_links([5, 1, 3], table)
        return table
    for links in ([1, 2], [3, 5, 0], [0], [2, 6], [4, 4, 4]):
        compare(lambda: list(links), preloaded, ("preloaded", links))


class LoggingLinks:
    """One-shot iterator over `items`; logs every pull, may fail at `fail_at`."""

    def __init__(self, items, log, fail_at=None, error=None):
        self._items = list(items)
        self._log = log
        self._position = 0
        self._fail_at = fail_at
        self._error = error

    def __iter__(self):
        self._log.append("iter")
        return self

    def __next__(self):
        self._log.append(("pull", self._position))
        if self._position == self._fail_at:
            self._position += 1
            raise self._error("iterator failed")
        if self._position >= len(self._items):
            self._log.append("exhausted")
            raise StopIteration
        item = self._items[self._position]
        self._position += 1
        return item


class LoggingTable(list):
    def __init__(self, items, log):
        super().__init__(items)
        self._log = log

    def __setitem__(self, index, value):
        self._log.append(("store", index, value.next, value.end))
        super().__setitem__(index, value)

    def __len__(self):
        self._log.append("len")
        return super().__len__()


def check_interleaving():
    global failures, checked
    size = 5
    sequences = [[], [2], [0, 1], [4, 2, 0, 3, 1], [1, 5, 2], [1, 2, 7],
                 [9], [3, 3, 3], [-1, -5, 0], [0, 1, 2, 3, 4, 5]]
    errors = [None, IndexError, KeyError, ValueError, StopIteration]
    for links in sequences:
        for error in errors:
            fail_positions = [None] if error is None else range(len(links) + 1)
            for fail_at in fail_positions:
                traces = []
                for function in (original_add_to_sector_links,
                                 add_to_sector_links):
                    log = []
                    table = LoggingTable([SectorLink()] * size, log)
                    source = LoggingLinks(links, log, fail_at, error)
                    try:
                        function(source, table)
                        result = ("ok",)
                    except BaseException as exc:  # noqa: BLE001
                        result = ("raise", type(exc).__name__, str(exc),
                                  type(exc.__cause__).__name__)
                    traces.append(
                        (result, log, describe_entries(list(table))))
                checked += 1
                if traces[0] != traces[1]:
                    failures += 1
                    if failures <= 10:
                        print("MISMATCH interleaving", links, error, fail_at)
                        print("  original :", str(traces[0])[:500])
                        print("  module   :", str(traces[1])[:500])


def check_real_size():
    rng = random.Random(0xC0720)
    for size in (11386, 65536):
        for _ in range(40):
            length = rng.randint(1, 3000)
            links = rng.sample(range(size), length)
            if rng.random() < 0.3:
                links[rng.randrange(length)] = size + rng.randint(0, 3)
            if rng.random() < 0.2:
                links.append(links[0])
            compare(lambda: list(links), shared_default_table(size),
                    ("real", size, length))


def decode_akai(words):
    adapter = sat_module.SegmentAllocationTableAdapter(
        object(), Int16ul[len(words)])
    try:
        table = adapter._decode(list(words), {}, "(demo)")
        return ("ok", describe_entries(table.sector_links))
    except Exception as exc:  # noqa: BLE001
        return ("raise", type(exc).__name__, str(exc))


def decode_roland(words):
    container = Container(
        fat_entries=words,
        metadata=Container(fat_id=FAT_AREA_ID, num_unused_clusters=0,
                           version_flag_1=0xFFFF, version_flag_2=0xFFFF),
        stream_size=0,
        fat_data_stream=None,
    )
    try:
        area = roland_fat_module.FatAreaParser._decode(container, {}, "(demo)")
        links = area.fat.sector_links
        summary = describe_entries(links[:600])
        return ("ok", summary, len({id(link) for link in links}))
    except Exception as exc:  # noqa: BLE001
        return ("raise", type(exc).__name__, str(exc))


def check_decoders():
    global failures, checked
    rng = random.Random(720)
    akai_tables = []
    for size in range(0, 5):
        letters = [AKAI_SAT_FREE_FLAG, AKAI_SAT_EOF_FLAG,
                   AKAI_SAT_RESERVED_FLAG_STD] + list(range(1, size + 2))
        akai_tables.extend(itertools.product(letters, repeat=size))
    for _ in range(2000):
        size = rng.randint(5, 30)
        letters = [AKAI_SAT_FREE_FLAG, AKAI_SAT_EOF_FLAG,
                   AKAI_SAT_RESERVED_FLAG_STD] + list(range(1, size + 2))
        akai_tables.append(tuple(rng.choices(letters, k=size)))
    roland_tables = []
    for _ in range(25):
        words = [0] * FAT_NUM_ENTRIES
        cells = rng.sample(range(2, 500), rng.randint(2, 200))
        for here, there in zip(cells, cells[1:]):
            words[here] = there
        words[cells[-1]] = rng.choice([0xFFF8, 0xFFFF, FAT_NUM_ENTRIES - 1,
                                       cells[0]])
        roland_tables.append(words)

    with_module = ([decode_akai(t) for t in akai_tables]
                   + [decode_roland(t) for t in roland_tables])
    saved = (sat_module.add_to_sector_links,
             roland_fat_module.add_to_sector_links)
    sat_module.add_to_sector_links = original_add_to_sector_links
    roland_fat_module.add_to_sector_links = original_add_to_sector_links
    try:
        with_original = ([decode_akai(t) for t in akai_tables]
                         + [decode_roland(t) for t in roland_tables])
    finally:
        (sat_module.add_to_sector_links,
         roland_fat_module.add_to_sector_links) = saved
    checked += len(with_module)
    for one, other in zip(with_original, with_module):
        if one != other:
            failures += 1
            if failures <= 10:
                print("MISMATCH in a decoder")
                print("  original :", str(one)[:300])
                print("  module   :", str(other)[:300])

class PlainIndex:
    def __init__(self, value):
        self.value = value

    def __index__(self):
        return self.value

    def __str__(self):
        return "S%d" % self.value

    def __repr__(self):
        return "R%d" % self.value

    def __eq__(self, other):
        return type(other) is type(self) and other.value == self.value

    def __hash__(self):
        return hash(self.value)


class FormattedIndex(PlainIndex):
    def __format__(self, spec):
        return "F%d[%s]" % (self.value, spec)


def check_message_text():
    global failures, checked
    size = 4
    for kind in (PlainIndex, FormattedIndex):
        for values in ([4], [7], [-5], [0, 4], [1, 2, 9], [3], [0, 1],
                       [10 ** 25]):
            compare(lambda: [kind(v) for v in values],
                    shared_default_table(size), ("index object", values))
    # exact text and the chaining, spelled out once
    for function in (original_add_to_sector_links, add_to_sector_links):
        checked += 1
        try:
            function([1, 6, 2], [SectorLink()] * 3)
            outcome = None
        except InvalidFatDefinition as exc:
            outcome = (
                str(exc), exc.args, type(exc.__cause__) is IndexError,
                exc.__suppress_context__, exc.__context__ is exc.__cause__,
            )
        expected = (
            "FAT entry 6 exceeds total number of FAT entries 3.",
            ("FAT entry 6 exceeds total number of FAT entries 3.",),
            True, True, True,
        )
        if outcome != expected:
            failures += 1
            print("MISMATCH message/chaining", function.__name__, outcome)


def main():
    global failures
    check_exhaustive()
    check_odd_arguments()
    check_message_text()
    check_interleaving()
    check_real_size()
    check_decoders()
    # defaults of the public dataclass, relied upon by both spellings
    default = SectorLink()
    if (default.next, default.end) != (0, True):
        failures += 1
        print("SectorLink defaults changed")
    for name in ("SectorLink", "add_to_sector_links", "FileAllocationTable",
                 "FileStream", "InvalidFatDefinition"):
        if not hasattr(fat_module, name):
            failures += 1
            print("missing public name", name)
    print(f"{checked} cases compared, {failures} mismatches")
    return 1 if failures else 0


if __name__ == "__main__":
    sys.exit(main())
