"""Equivalence demo for r23 (util/fat.py FileStream: the chain lookup with its
IndexError -> SectorReadError translation becomes the private method
_sector_at(); _get_address_given_sector_index returns the base-class address
of that sector directly; __init__ takes len(sector_list) into a local first).

The ORIGINAL FileStream (constructor and address rule) is pasted below as
OrigFileStream, on top of the same SectorStream.  Live and original views sit
on twin logging parents and must agree on: constructor outcome and state
(end_of_file, sector_length, position, buffer_length, true_size, sector_list
identity), the address returned for every (chain index, offset) including
negative, out-of-range and non-integer indexes, exception type / text /
__cause__ type, every return value of read/seek/tell histories, and the
ordered log of calls made on the parent.  Reads are also checked against a
plain model of the logical content (concatenation of the chained sectors).

Covered: all permutations and repetitions of small chains, sector sizes 1..6,
every (position, size) pair, exhaustive 3-step histories on a tiny file, long
random histories, the known boundary case of a read issued exactly at the
end of the file, chains given as list / tuple / range / bytes / dict, empty
chains, the subclasses Segment (AKAI) and RolandFile (Roland) with the chains
produced by FileAllocationTable.get_path, and nestings with StreamOffset /
StreamReversed / SectorStream up to depth 4.  Exit 0 = all agree, 1 = mismatch.
"""
import itertools
import random
import sys
from io import BytesIO, IOBase, SEEK_CUR, SEEK_END, SEEK_SET
from typing import List

from smpl_extract.akai.data_types import AKAI_SECTOR_SIZE
from smpl_extract.akai.sat import Segment
from smpl_extract.akai.sat import SegmentAllocationTable
from smpl_extract.roland.s7xx.data_types import ROLAND_CLUSTER_SIZE
from smpl_extract.roland.s7xx.fat import RolandFile
from smpl_extract.roland.s7xx.fat import RolandFileAllocationTable
from smpl_extract.util.fat import FileStream
from smpl_extract.util.fat import SectorLink
from smpl_extract.util.fat import add_to_sector_links
from smpl_extract.util.sector import SectorStream
from smpl_extract.util.stream import SectorReadError
from smpl_extract.util.stream import StreamOffset
from smpl_extract.util.stream import StreamReversed


class OrigFileStream(SectorStream):
    """Original FileStream, verbatim."""


    def __init__(
            self,
            parent_stream:      IOBase,
            sector_size:        int,
            sector_list:        List[int],
            position:           int = 0,
            buffer_length:      int = 0x1000
    ) -> None:
        super().__init__(
            parent_stream,
            size=(sector_size * len(sector_list)),
            sector_length=sector_size,
            position=position,
            buffer_length=buffer_length
        )
        self.sector_list = sector_list


    def _get_address_given_sector_index(
            self,
            sector_index: int,
            offset: int
        ):
        try:
            sector  = self.sector_list[sector_index]
        except IndexError as e:
            raise SectorReadError(
                f"Sector {sector_index} lies beyond the "
                f"{len(self.sector_list)} sectors of the file."
            ) from e
        result  = super()._get_address_given_sector_index(
            sector,
            offset
        )
        return result


class OrigSegment(OrigFileStream):
    """smpl_extract.akai.sat.Segment over the original FileStream."""

    def __init__(self, partition_stream, sector_list, position=0, buffer_length=0x1000):
        super().__init__(
            partition_stream,
            sector_size=AKAI_SECTOR_SIZE,
            sector_list=sector_list,
            position=position,
            buffer_length=buffer_length
        )


class OrigRolandFile(OrigFileStream):
    """smpl_extract.roland.s7xx.fat.RolandFile over the original FileStream."""

    def __init__(self, partition_stream, sector_list, position=0, buffer_length=0x1000):
        super().__init__(
            partition_stream,
            sector_size=ROLAND_CLUSTER_SIZE,
            sector_list=sector_list,
            position=position,
            buffer_length=buffer_length
        )


class Parent(BytesIO):
    """BytesIO that logs every call."""

    def __init__(self, data):
        super().__init__(data)
        self.log = []

    def tell(self):
        r = super().tell()
        self.log.append(("tell", r))
        return r

    def seek(self, *a):
        r = super().seek(*a)
        self.log.append(("seek", a, r))
        return r

    def read(self, *a):
        r = super().read(*a)
        self.log.append(("read", a, r))
        return r


FAILURES = []


def fail(msg):
    FAILURES.append(msg)
    if len(FAILURES) <= 20:
        print("MISMATCH:", msg)


def outcome(fn):
    try:
        return ("ok", fn())
    except Exception as e:
        return ("exc", type(e), str(e), type(e.__cause__), str(e.__cause__),
                e.__suppress_context__)


def state(v):
    layers = []
    while not isinstance(v, Parent):
        layers.append((
            v.position, v.true_size, v.end_of_file, v.buffer_length,
            getattr(v, "sector_length", None)
        ))
        v = v.substream
    layers.append(BytesIO.tell(v))
    return layers


def root(v):
    while not isinstance(v, Parent):
        v = v.substream
    return v


def step(live, orig, op, logical, tag):
    before = orig.position
    if op[0] == "seek":
        a = outcome(lambda: live.seek(*op[1]))
        b = outcome(lambda: orig.seek(*op[1]))
    elif op[0] == "tell":
        a = outcome(live.tell)
        b = outcome(orig.tell)
    elif op[0] == "addr":
        a = outcome(lambda: live._get_address_given_sector_index(*op[1]))
        b = outcome(lambda: orig._get_address_given_sector_index(*op[1]))
        if a[0] == "ok" and type(a[1]) is not type(b[1]):
            fail(f"{tag}: address type")
    else:
        a = outcome(lambda: live.read(op[1]))
        b = outcome(lambda: orig.read(op[1]))
    if a != b:
        fail(f"{tag}: {op} at {before}: {a} vs {b}")
        return False
    if state(live) != state(orig):
        fail(f"{tag}: state after {op}: {state(live)} vs {state(orig)}")
        return False
    if root(live).log != root(orig).log:
        fail(f"{tag}: parent log after {op} at {before}")
        return False
    if logical is not None and a[0] == "ok" and op[0] == "read":
        want = logical[before:] if (op[1] is None or op[1] < 0) else logical[before:before + op[1]]
        if a[1] != want:
            fail(f"{tag}: read {op[1]} at {before} -> {a[1]!r}, want {want!r}")
        if live.position != before + len(want):
            fail(f"{tag}: cursor after read")
    if logical is not None and not (0 <= live.position <= len(logical)):
        fail(f"{tag}: cursor outside the view")
    return True


def drive(live, orig, ops, logical, tag):
    for op in ops:
        if not step(live, orig, op, logical, tag):
            return


def build(live_cls, orig_cls, data, *args, **kwargs):
    """Construct live and original views on twin parents (or compare the error)."""
    p_l, p_o = Parent(data), Parent(data)
    a = outcome(lambda: live_cls(p_l, *args, **kwargs))
    b = outcome(lambda: orig_cls(p_o, *args, **kwargs))
    if a[0] != b[0] or (a[0] == "exc" and a != b):
        fail(f"constructor {args} {kwargs}: {a} vs {b}")
        return None
    if p_l.log != p_o.log:
        fail(f"constructor {args}: parent touched differently")
    if a[0] == "exc":
        return None
    live, orig = a[1], b[1]
    if state(live) != state(orig):
        fail(f"constructor {args} {kwargs}: state {state(live)} vs {state(orig)}")
    if vars(live).keys() != vars(orig).keys():
        fail(f"constructor: attribute names {sorted(vars(live))} vs {sorted(vars(orig))}")
    return live, orig


def random_ops(rng, n, count):
    ops = []
    for _ in range(count):
        k = rng.random()
        if k < 0.55:
            ops.append(("read", rng.choice(
                [0, 1, 2, 3, n, n + 2, None, -1, rng.randrange(0, n + 3), rng.randrange(0, n + 3)])))
        elif k < 0.92:
            ops.append(("seek", (rng.randrange(-n - 2, n + 3), rng.choice([SEEK_SET, SEEK_CUR, SEEK_END]))))
        else:
            ops.append(("tell",))
    return ops


def main():
    rng = random.Random(2308)

    # --- 0. public surface unchanged
    for name in ("__init__", "_get_address_given_sector_index", "_read", "_read_sector",
                 "read", "seek", "tell", "readall"):
        if not callable(getattr(FileStream, name, None)):
            fail(f"FileStream.{name} missing")
    if FileStream.__mro__[1] is not SectorStream:
        fail("FileStream base changed")

    # --- 1. constructor: shapes of sector_list, keyword / positional arguments
    store = bytes(range(200, 230))
    args_list = [
        ((2, [0, 1]), {}),
        ((2, [3, 1, 2]), dict(position=3)),
        ((3, []), {}),
        ((3, ()), dict(buffer_length=2)),
        ((1, (4, 4, 4)), dict(position=9, buffer_length=1)),
        ((2, range(5)), {}),
        ((2, range(4, -1, -1)), {}),
        ((1, b"\x03\x01\x02"), {}),
        ((2, {0: 2, 1: 0}), {}),
        ((0, [1, 2]), {}),
        ((2, [0, 1], 1, 7), {}),
        ((), dict(sector_size=2, sector_list=[1, 0], position=1, buffer_length=3)),
        ((2, None), {}),
        ((2, 5), {}),
        (("ab", [1, 2]), {}),
    ]
    for args, kwargs in args_list:
        pair = build(FileStream, OrigFileStream, store, *args, **kwargs)
        if pair is None:
            continue
        live, orig = pair
        if args and len(args) > 1 and live.sector_list is not args[1]:
            fail("sector_list not stored by identity")
        # --- 2. the address rule on every kind of index
        n = len(live.sector_list)
        for idx in list(range(-n - 2, n + 3)) + [True, False, 1.0, None, "0", 10**20, -10**20, slice(0, 1)]:
            for off in (0, 1, 5, -1):
                step(live, orig, ("addr", (idx, off)), None, f"addr {args}")
        drive(live, orig, [("read", 1), ("read", 3), ("seek", (0, SEEK_END)), ("read", 1),
                           ("read", 0), ("seek", (-1, SEEK_CUR)), ("read", 5), ("read", None)],
              None, f"ctor {args}")

    # --- 3. every (position, size) over chains with permutations / repetitions
    for L in (1, 2, 3, 6):
        store = bytes(range(30, 30 + L * 6))
        chains = list(itertools.permutations(range(4), 3)) + [(5, 0, 5, 2), (3,), (1, 1, 1), (0, 1, 2, 3, 4, 5)]
        for chain in chains:
            logical = b"".join(store[s * L:(s + 1) * L] for s in chain)
            n = len(logical)
            for pos in range(0, n + 1):
                for size in (0, 1, 2, L, L + 1, 2 * L, 2 * L + 1, n, n + 1):
                    pair = build(FileStream, OrigFileStream, store, L, list(chain))
                    if pair:
                        drive(*pair, [("seek", (pos, SEEK_SET)), ("read", size), ("tell",), ("read", size)],
                              logical, f"chain L={L} {chain}")

    # --- 4. the boundary case: reads issued exactly at the end of the file
    for L in (1, 2, 4):
        store = bytes(range(L * 4))
        for chain in ([0], [3, 1], [2, 2, 0]):
            logical = b"".join(store[s * L:(s + 1) * L] for s in chain)
            for size in (0, 1, L, 100, None, -1):
                pair = build(FileStream, OrigFileStream, store, L, list(chain))
                if pair:
                    drive(*pair, [("seek", (0, SEEK_END)), ("read", size), ("tell",),
                                  ("read", len(logical)), ("seek", (len(logical), SEEK_SET)),
                                  ("read", size), ("seek", (5, SEEK_CUR)), ("read", size)],
                          logical, f"at end L={L} {chain}")
            # a chain that is shorter than the size the cursor was given
            pair = build(FileStream, OrigFileStream, store, L, list(chain), position=len(logical) + L)
            if pair:
                drive(*pair, [("read", 1), ("addr", (len(chain), 0)), ("read", 0)], None, "cursor beyond chain")

    # --- 5. exhaustive 3-step histories over a tiny file (2 sectors of 2)
    alphabet = (
        [("read", s) for s in (0, 1, 2, 3, 4, 5, None, -1)]
        + [("seek", (o, w)) for w in (SEEK_SET, SEEK_CUR, SEEK_END) for o in (-5, -1, 0, 1, 2, 4, 6)]
        + [("tell",)]
    )
    for ops in itertools.product(alphabet, repeat=3):
        pair = build(FileStream, OrigFileStream, b"ABCDEFGH", 2, [3, 1])
        if pair:
            drive(*pair, ops, b"GHCD", "tiny")

    # --- 6. long random histories, nestings up to depth 4
    for trial in range(400):
        L = rng.randrange(1, 9)
        nsect = rng.randrange(1, 9)
        store = bytes(rng.randrange(256) for _ in range(L * nsect + rng.randrange(0, 4)))
        chain = [rng.randrange(nsect) for _ in range(rng.randrange(1, 7))]
        if rng.random() < 0.3:
            chain = rng.sample(range(nsect), rng.randrange(1, nsect + 1))
        base = b"".join(store[s * L:(s + 1) * L] for s in chain)
        pair = build(FileStream, OrigFileStream, store, L, list(chain),
                     buffer_length=rng.choice([1, 3, 0x1000]))
        if not pair:
            continue
        live, orig = pair
        logical = base
        depth = rng.randrange(0, 4)
        for _ in range(depth):
            kind = rng.choice(["window", "sector", "reverse"])
            n = len(logical)
            if kind == "window":
                off = rng.randrange(0, n)
                size = rng.randrange(1, n - off + 1)
                live, orig = StreamOffset(live, size, off), StreamOffset(orig, size, off)
                logical = logical[off:off + size]
            elif kind == "sector":
                L2 = rng.randrange(1, 5)
                n2 = (n // L2) * L2
                if n2 == 0:
                    continue
                live, orig = SectorStream(live, n2, L2), SectorStream(orig, n2, L2)
                logical = logical[:n2]
            else:
                width = rng.choice([1, 2, 4])
                n2 = (n // width) * width
                if n2 == 0:
                    continue
                live = StreamReversed(live, n2, sample_width=width)
                orig = StreamReversed(orig, n2, sample_width=width)
                samples = [logical[i:i + width] for i in range(0, n2, width)]
                logical = b"".join(reversed(samples))
        drive(live, orig, random_ops(rng, len(logical), rng.randrange(10, 80)), logical, f"rand{trial}")

    # --- 7. the subclasses, with chains produced by the allocation tables
    for live_cls, orig_cls, table_cls, getter, L in (
        (Segment, OrigSegment, SegmentAllocationTable, "get_segment", AKAI_SECTOR_SIZE),
        (RolandFile, OrigRolandFile, RolandFileAllocationTable, "get_file", ROLAND_CLUSTER_SIZE),
    ):
        nsect = 6
        store = bytes(rng.randrange(256) for _ in range(L * nsect))
        links = [SectorLink()] * nsect
        chain = [4, 1, 5, 2]
        add_to_sector_links(chain, links)
        table = table_cls(Parent(store), nsect, links)
        view = getattr(table, getter)(4)
        if type(view) is not live_cls or view.sector_list != chain:
            fail(f"{getter}: {type(view)} {view.sector_list}")
        logical = b"".join(store[s * L:(s + 1) * L] for s in chain)
        orig = orig_cls(Parent(store), list(chain))
        ops = [("read", 10), ("seek", (L - 3, SEEK_SET)), ("read", 7), ("seek", (2 * L - 1, SEEK_SET)),
               ("read", L + 2), ("seek", (0, SEEK_END)), ("read", 4), ("seek", (-5, SEEK_END)), ("read", 50),
               ("seek", (0, SEEK_SET)), ("read", None), ("addr", (4, 0)), ("addr", (-5, 0)), ("addr", (3, 9))]
        drive(view, orig, ops + random_ops(rng, len(logical), 150), logical, getter)
        pair = build(live_cls, orig_cls, store, [0, 3], 5, 64)
        if pair:
            drive(*pair, random_ops(rng, 2 * L, 100), store[0:L] + store[3 * L:4 * L], f"{getter} direct")

    if FAILURES:
        print(f"{len(FAILURES)} mismatches")
        return 1
    print("r23 demo: live FileStream and original agree on all cases")
    return 0


if __name__ == "__main__":
    sys.exit(main())
