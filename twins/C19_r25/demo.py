"""Equivalence demo for the coefficient tables in smpl_extract/filters/common.py.

Covers both table refactorings of this round:
  * the CDXtract table (_cdxtract_roland_deemph_h, helper _bytes_to_double):
    the four IEEE-754 doubles are written down in another exact encoding;
  * the ChickenSys table (_chick_sys_roland_deemph_h, _k_gain, _delay_offset):
    the constants are restructured.

The live module is compared against an inline copy of the ORIGINAL table text
(below), on:
  - the tables themselves: type, dtype, shape, raw bytes, flags, python types
    and values of the scalar constants;
  - _bytes_to_double on many inputs (valid, wrong length, wrong type):
    same value bit for bit or same exception type and message;
  - what the preset constructors hand to the filter (h, m0, m1, N, k_gain,
    x_prev) and that the presets share the module table (identity);
  - streaming: every composition of short extreme-valued int16 signals and
    random splits of long ones through the live presets vs. filters built from
    the original tables: identical blocks (dtype, bytes), identical flush,
    total output length == input length, reset behaves like new.

Exit 0 when everything agrees, 1 otherwise.
"""
import itertools
import random
import struct
import sys

import numpy as np

from smpl_extract.filters import common
from smpl_extract.filters.fir import ChickSysCustomFirFilter, FirFilter

FAIL = []
COUNT = [0]


def check(cond, what):
    COUNT[0] += 1
    if not cond:
        FAIL.append(what)
        if len(FAIL) <= 20:
            print("MISMATCH:", what)


# ---------------------------------------------------------------- ORIGINAL --
def orig_bytes_to_double(x: bytes) -> float:
    y = struct.unpack(">d", x)[0]
    return y


orig_cdx_h = np.asarray(
    [
        orig_bytes_to_double(b"\x3F\x74\xC0\x29\x80\x53\x00\xA6"),  # 0.005066072573015534
        orig_bytes_to_double(b"\x3F\xD4\x32\xA8\x65\x50\xCA\xA2"),  # 0.315591906491287
        orig_bytes_to_double(b"\x3F\xE3\x50\xE6\xA1\xCD\x43\x9B"),  # 0.6036255989257485
        orig_bytes_to_double(b"\x3F\xB3\x62\x26\xC4\x4D\x88\x9B"),  # 0.07571642200994903
        0.0,
        0.0,
        0.0,
        0.0
    ],
    dtype=np.double
)

orig_cs_h = np.asarray(
    [
        1,
       -2,
        5,
      -11,
       25,
      -65,
      176,
     -460,
     9981,
    32767,
     9981,
     -460,
      176,
      -65,
       25,
      -11,
        5,
       -2,
        1
    ],
    dtype=np.int16
)
orig_cs_k_gain = 52067
orig_cs_delay_offset = 7

EXPECTED_CDX_HEX = (
    "3f74c029805300a6" "3fd432a86550caa2" "3fe350e6a1cd439b" "3fb36226c44d889b"
    + "0000000000000000" * 4
)


# ------------------------------------------------------------------ tables --
def same_array(a, b, what):
    check(type(a) is type(b), what + ": type")
    check(a.dtype == b.dtype and a.dtype.byteorder == b.dtype.byteorder, what + ": dtype")
    check(a.shape == b.shape, what + ": shape")
    check(a.tobytes() == b.tobytes(), what + ": bytes")
    check(a.strides == b.strides, what + ": strides")
    for f in ("C_CONTIGUOUS", "F_CONTIGUOUS", "OWNDATA", "WRITEABLE", "ALIGNED"):
        check(a.flags[f] == b.flags[f], what + ": flag " + f)


def test_tables():
    same_array(common._cdxtract_roland_deemph_h, orig_cdx_h, "cdx table")
    check(common._cdxtract_roland_deemph_h.astype(">f8").tobytes().hex() == EXPECTED_CDX_HEX,
          "cdx table: expected bit pattern")
    for i in range(8):
        a = common._cdxtract_roland_deemph_h[i]
        b = orig_cdx_h[i]
        check(type(a) is type(b) and float(a).hex() == float(b).hex(), "cdx tap %d" % i)
    check(float(np.sum(common._cdxtract_roland_deemph_h)).hex() == float(np.sum(orig_cdx_h)).hex(),
          "cdx table sum")

    same_array(common._chick_sys_roland_deemph_h, orig_cs_h, "chicksys table")
    check(common._chick_sys_roland_deemph_h.tolist() == orig_cs_h.tolist(), "chicksys list")
    k = common._chick_sys_roland_deemph_k_gain
    check(type(k) is int and k == orig_cs_k_gain, "k_gain %r" % (k,))
    check(k == int(np.sum(orig_cs_h, dtype=np.int64)), "k_gain is the DC gain")
    d = common._chick_sys_roland_deemph_delay_offset
    check(type(d) is int and d == orig_cs_delay_offset, "delay offset %r" % (d,))
    check(callable(common._bytes_to_double), "_bytes_to_double kept")


# -------------------------------------------------------- _bytes_to_double --
def outcome(fn, arg):
    try:
        r = fn(arg)
    except BaseException as e:  # noqa
        return ("exc", type(e), str(e))
    if isinstance(r, float):
        return ("ok", type(r), struct.pack(">d", r))
    return ("ok", type(r), repr(r))


def test_helper():
    rnd = random.Random(1907)
    args = [
        b"\x3F\x74\xC0\x29\x80\x53\x00\xA6", b"\x3F\xD4\x32\xA8\x65\x50\xCA\xA2",
        b"\x3F\xE3\x50\xE6\xA1\xCD\x43\x9B", b"\x3F\xB3\x62\x26\xC4\x4D\x88\x9B",
        b"\x00" * 8, b"\x80" + b"\x00" * 7, b"\xff" * 8, b"\x7f\xf0" + b"\x00" * 6,
        b"\xff\xf0" + b"\x00" * 6, b"\x7f\xf8" + b"\x00" * 6, b"\x00" * 7 + b"\x01",
        b"", b"\x00", b"\x00" * 7, b"\x00" * 9, b"\x00" * 16,
        bytearray(b"\x3F\x74\xC0\x29\x80\x53\x00\xA6"), memoryview(b"\x3F\x74\xC0\x29\x80\x53\x00\xA6"),
        "12345678", None, 0, 1.5, [1, 2, 3, 4, 5, 6, 7, 8], (0,) * 8,
        np.frombuffer(b"\x3F\x74\xC0\x29\x80\x53\x00\xA6", dtype=np.uint8),
        np.zeros(1, dtype=np.float64), np.zeros(8, dtype=np.int16),
    ]
    for _ in range(300):
        args.append(bytes(rnd.randrange(256) for _ in range(8)))
    for _ in range(40):
        args.append(bytes(rnd.randrange(256) for _ in range(rnd.randrange(0, 20))))
    for a in args:
        check(outcome(common._bytes_to_double, a) == outcome(orig_bytes_to_double, a),
              "_bytes_to_double(%r)" % (a,))


# ------------------------------------------------------------ construction --
def make_live():
    return {
        "cdx": common.CdXtractRolandDeemphFilter(),
        "cs": common.ChickSysRolandDeemphFilter(),
    }


def make_orig():
    return {
        "cdx": FirFilter(orig_cdx_h),
        "cs": ChickSysCustomFirFilter(orig_cs_h, orig_cs_delay_offset, orig_cs_k_gain),
    }


def test_construction():
    live, orig = make_live(), make_orig()
    check(live["cdx"].h is common._cdxtract_roland_deemph_h, "cdx preset shares module table")
    check(live["cs"].h is common._chick_sys_roland_deemph_h, "chicksys preset shares module table")
    for name in ("cdx", "cs"):
        a, b = live[name], orig[name]
        check(sorted(vars(a)) == sorted(vars(b)), name + ": attribute names")
        for attr in ("N", "m0", "m1"):
            check(type(getattr(a, attr)) is type(getattr(b, attr))
                  and getattr(a, attr) == getattr(b, attr), "%s: %s" % (name, attr))
        same_array(a.h, b.h, name + ": h")
        same_array(a.x_prev, b.x_prev, name + ": x_prev")
    check(type(live["cs"].k_gain) is int and live["cs"].k_gain == orig["cs"].k_gain, "cs: k_gain")
    check(isinstance(live["cdx"], FirFilter) and isinstance(live["cs"], ChickSysCustomFirFilter),
          "preset base classes")


# --------------------------------------------------------------- streaming --
def run(filt, blocks):
    out = []
    for b in blocks:
        try:
            y = filt.process(b)
            out.append(("ok", str(y.dtype), y.shape, y.tobytes()))
        except BaseException as e:  # noqa
            out.append(("exc", type(e), str(e)))
    try:
        y = filt.get_remaining()
        out.append(("flush", str(y.dtype), y.shape, y.tobytes()))
    except BaseException as e:  # noqa
        out.append(("flush-exc", type(e), str(e)))
    return out


def compositions(n):
    for cuts in itertools.product((0, 1), repeat=n - 1):
        sizes, cur = [], 1
        for c in cuts:
            if c:
                sizes.append(cur)
                cur = 1
            else:
                cur += 1
        sizes.append(cur)
        yield sizes


def split(sig, sizes):
    blocks, pos = [], 0
    for s in sizes:
        blocks.append(sig[pos:pos + s])
        pos += s
    return blocks


def test_streaming():
    rnd = random.Random(19)
    extremes = [-32768, -32767, -1, 0, 1, 32766, 32767]
    dtypes = {"cdx": [np.int16, np.float64, np.int32], "cs": [np.int16]}

    # exhaustive compositions of short signals
    for n in range(1, 8):
        for rep in range(2):
            vals = [rnd.choice(extremes) if rnd.random() < 0.7 else rnd.randrange(-32768, 32768)
                    for _ in range(n)]
            for name in ("cdx", "cs"):
                for dt in dtypes[name]:
                    sig = np.asarray(vals, dtype=dt)
                    for sizes in compositions(n):
                        blocks = split(sig, sizes)
                        a = run(make_live()[name], blocks)
                        b = run(make_orig()[name], blocks)
                        check(a == b, "%s %s %r split %r" % (name, dt.__name__, vals, sizes))

    # random splits of longer signals, reuse after flush and after reset
    for case in range(120):
        n = rnd.randrange(20, 200)
        mode = case % 4
        if mode == 0:
            vals = [rnd.randrange(-32768, 32768) for _ in range(n)]
        elif mode == 1:
            vals = [rnd.choice(extremes) for _ in range(n)]
        elif mode == 2:
            vals = [32767] * n
        else:
            vals = [-32768 if (i // 3) % 2 else 32767 for i in range(n)]
        sizes, left = [], n
        while left:
            s = min(left, rnd.choice([1, 1, 2, 3, 5, 7, 8, 18, 19, 20, 40]))
            sizes.append(s)
            left -= s
        for name in ("cdx", "cs"):
            for dt in dtypes[name]:
                sig = np.asarray(vals, dtype=dt)
                blocks = split(sig, sizes)
                fa, fb = make_live()[name], make_orig()[name]
                a, b = run(fa, blocks), run(fb, blocks)
                check(a == b, "%s long case %d split" % (name, case))
                one = run(make_live()[name], [sig])
                check(one == run(make_orig()[name], [sig]), "%s long case %d one block" % (name, case))
                # second pass on the same (flushed) objects
                check(run(fa, blocks) == run(fb, blocks), "%s long case %d reuse" % (name, case))
                # reset in mid-stream behaves the same
                fa.process(sig[:5]); fb.process(sig[:5])
                fa.reset_state(); fb.reset_state()
                check(run(fa, blocks) == run(fb, blocks), "%s long case %d reset" % (name, case))
                if name == "cs":
                    tot = sum(len(x[3]) // 2 for x in a if x[0] in ("ok", "flush"))
                    if min(sizes) >= 19:
                        check(tot == n, "cs total length case %d" % case)

    # empty block and wrong inputs: same outcome
    for name in ("cdx", "cs"):
        for bad in (np.zeros(0, dtype=np.int16), np.zeros((2, 2), dtype=np.int16)):
            check(run(make_live()[name], [bad]) == run(make_orig()[name], [bad]),
                  "%s bad block %r" % (name, bad.shape))


def main():
    test_tables()
    test_helper()
    test_construction()
    test_streaming()
    print("%d checks, %d mismatches" % (COUNT[0], len(FAIL)))
    return 1 if FAIL else 0


if __name__ == "__main__":
    sys.exit(main())
