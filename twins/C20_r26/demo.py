"""Equivalence evidence for r26: ProgramAdapter._decode_element
(smpl_extract/akai/program.py) - the construction of the Program object.

The refactoring moves the computation of the four element arguments
(file_name, type_name, _parent, _path) into the new module-level helper
`_element_args(obj, child_info, context)`, which returns them as a keyword
dict (dict literal); `child_info.name or obj.header.program_name` is spelled
as an assignment followed by `if not file_name:`; the Program is built with
two ** expansions (`**header_args, keygroups=obj.keygroups, **element_args`)
instead of four explicit keywords fed from temporaries.

1. parses many random AKAI program files (72-byte header, seek to the first
   keygroup, chain of 150-byte keygroups linked through arbitrary
   next-keygroup addresses, 0..4 active velocity zones) with the live
   ProgramParser and with an adapter carrying an inline copy of the ORIGINAL
   _decode_element (and of the helper it used), comparing every field of the
   resulting Program, its keygroups and the text `ls` prints;
2. calls both implementations directly on hand-made objects (missing
   attributes, odd child_info / context values, falsy / truthy names of many
   types, 600 random combinations) and compares results, exceptions and the
   EXACT order of attribute reads on obj, obj.header, child_info and context.
Exit 0 = all agree, 1 = a difference was found.
"""
import random
import struct
import sys
from dataclasses import fields
from typing import Any
from typing import Dict

from smpl_extract.akai.data_types import FileType
from smpl_extract.akai.program import Program
from smpl_extract.akai.program import ProgramAdapter
from smpl_extract.akai.program import ProgramHeaderCommon
from smpl_extract.akai.program import ProgramParser
from smpl_extract.util.constructs import ChildInfo


# --------------------------------------------------------------------------
# inline copy of the ORIGINAL implementation (+ the helper it called)
# --------------------------------------------------------------------------
def orig_get_common_field_args(common_dataclass: Any, source_instance):
    result = {
        k.name: getattr(source_instance, k.name)
        for k in fields(common_dataclass)
    }
    return result


class OriginalProgramAdapter(ProgramAdapter):

    def _decode_element(
            self,
            obj,
            child_info: ChildInfo,
            context: Dict[str, Any],
            path: str
    ) -> Program:
        del path  # Unused
        header_args = orig_get_common_field_args(ProgramHeaderCommon, obj.header)

        type_name = str(context.get("file_type", "AKAI Program"))
        file_name = child_info.name or obj.header.program_name
        parent = child_info.parent
        program_path = child_info.parent_path + [file_name]

        result = Program(
            **header_args,
            keygroups=obj.keygroups,
            file_name=file_name,
            type_name=type_name,
            _parent=parent,
            _path=program_path
        )
        return result


live_parser = ProgramParser
orig_parser = OriginalProgramAdapter(ProgramParser.subcon)
live_named = ProgramAdapter(ProgramParser.subcon, name_key="fname")
orig_named = OriginalProgramAdapter(ProgramParser.subcon, name_key="fname")

failures = 0
checked = 0


def fail(*msg):
    global failures
    failures += 1
    if failures <= 5:
        print("MISMATCH", *[repr(m)[:400] for m in msg])


def describe(program):
    out = {}
    for f in fields(program):
        v = getattr(program, f.name)
        out[f.name] = (type(v).__name__, repr(v))
    out["name"] = program.name
    out["path"] = list(program.path)
    out["parent"] = program.parent
    out["items"] = program.itemize()
    try:
        out["info"] = program.get_info().to_string()
    except TypeError as e:
        out["info"] = ("exc", str(e))
    return out


def run(fn):
    try:
        return ("ok", describe(fn()))
    except Exception as e:  # noqa
        return ("exc", type(e).__name__, str(e))


# --------------------------------------------------------------------------
# 1. random program files
# --------------------------------------------------------------------------
DEFAULT_KEYGROUP = bytes.fromhex(
    "029600187f0000630c000000001e632d000000000032632d0000000000000104ffff"
    + "0a0a0a0a0a0a0a0a0a0a0a0a007f000000000000ffff2c01" * 4
    + "0000010100000000000000000000000000000000"
)
assert len(DEFAULT_KEYGROUP) == 150


def akai_name(rng, allow_empty=True):
    if allow_empty and rng.random() < 0.3:
        return bytes([0x0A] * 12)
    n = rng.randrange(1, 13)
    return bytes(rng.randrange(0, 0x29) for _ in range(n)) + bytes([0x0A] * (12 - n))


def make_keygroup(rng, next_address):
    kg = bytearray(DEFAULT_KEYGROUP)
    kg[0] = rng.randrange(256)
    kg[1:3] = struct.pack("<H", next_address)
    lo = rng.randrange(0x18, 0x80)
    kg[3] = lo
    kg[4] = rng.randrange(0x18, 0x80)
    for off in range(5, 30):
        kg[off] = rng.randrange(256)
    kg[30] = rng.randrange(2)
    if rng.random() < 0.03:
        kg[31] = rng.randrange(0, 6)  # unusual zone count
    for z in range(4):
        base = 34 + 24 * z
        kg[base:base + 12] = akai_name(rng)
        kg[base + 12] = rng.randrange(128)
        kg[base + 13] = rng.randrange(128)
        for off in range(14, 19):
            kg[base + off] = rng.randrange(256)
        kg[base + 19] = rng.choice([0, 1, 2, 3, 4, 4, 0, 7])
    kg[130] = rng.randrange(256)
    kg[131] = rng.randrange(2)
    for off in range(132, 136):
        kg[off] = rng.randrange(2)
    for off in range(136, 149):
        kg[off] = rng.randrange(256)
    return bytes(kg)


def make_program(rng):
    num = rng.choice([0, 1, 1, 2, 3, 5, 8, rng.randrange(0, 12)])
    # place the keygroups at arbitrary, non-overlapping addresses
    slots = list(range(rng.randrange(4, 8) + num))
    rng.shuffle(slots)
    gap = rng.randrange(0, 30)
    addresses = [72 + gap + 150 * s for s in slots[:max(num, 1)]]
    first = addresses[0]
    if rng.random() < 0.05:
        first = 0  # "no valid first keygroup": parsing continues at offset 72
    declared = num
    if rng.random() < 0.05:
        declared = num + rng.randrange(1, 3)  # more declared than linked

    hdr = bytearray(72)
    hdr[0] = rng.randrange(256)
    hdr[1:3] = struct.pack("<H", first)
    hdr[3:15] = akai_name(rng)
    for off in range(15, 72):
        hdr[off] = rng.randrange(256)
    hdr[18] = rng.choice([0, 1, 2, 3, 1, 2, 9])        # priority enum
    hdr[19] = rng.randrange(0x18, 0x80)
    hdr[20] = rng.randrange(0x18, 0x80)
    hdr[61] = rng.choice([0, 1, 0, 1, 0, 1, 5])        # voice reassign enum
    hdr[42] = declared

    size = 72 + gap + 150 * (len(slots) + 1)
    image = bytearray(rng.randrange(256) for _ in range(size))
    image[0:72] = hdr
    for i in range(num):
        if i + 1 < num:
            nxt = addresses[i + 1]
        else:
            nxt = rng.choice([0, addresses[0], rng.randrange(65536)])
        if rng.random() < 0.02:
            nxt = 0  # chain broken early
        image[addresses[i]:addresses[i] + 150] = make_keygroup(rng, nxt)
    return bytes(image)


rng = random.Random(0xC20_26)
ok_count = 0
for n in range(1200):
    blob = make_program(rng)
    ctx = {}
    if n % 3 == 1:
        ctx = dict(file_type=rng.choice(list(FileType)))
    elif n % 3 == 2:
        ctx = dict(file_type=rng.choice(["custom", 5, None]),
                   _elem_name=rng.choice(["ELEM", "", None]))
    checked += 1
    a = run(lambda: live_parser.parse(blob, **ctx))
    b = run(lambda: orig_parser.parse(blob, **ctx))
    if a != b:
        fail("parse", n, a, b)
    ok_count += a[0] == "ok"
    checked += 1
    ctx2 = dict(ctx, fname=rng.choice(["PRG %d" % n, "", "x/y"]))
    a = run(lambda: live_named.parse(blob, **ctx2))
    b = run(lambda: orig_named.parse(blob, **ctx2))
    if a != b:
        fail("parse named", n, a, b)
for blob in (b"", bytes(71), bytes(72), bytes(400)):
    checked += 1
    a = run(lambda: live_parser.parse(blob))
    b = run(lambda: orig_parser.parse(blob))
    if a != b:
        fail("parse short", blob[:10], a, b)
if ok_count < 300:
    fail("too few successful parses to be meaningful", ok_count)


# --------------------------------------------------------------------------
# 2. direct calls on hand-made objects
# --------------------------------------------------------------------------
LOG = []


class Logged:
    def __init__(self, tag, **kw):
        object.__setattr__(self, "_tag", tag)
        object.__setattr__(self, "_kw", kw)
    def __getattr__(self, name):
        LOG.append("%s.%s" % (object.__getattribute__(self, "_tag"), name))
        kw = object.__getattribute__(self, "_kw")
        if name not in kw:
            raise AttributeError(name)
        return kw[name]


class LoggedContext(dict):
    def get(self, *a):
        LOG.append("context.get%r" % (a, ))
        return super().get(*a)


class BadStr:
    def __str__(self):
        LOG.append("BadStr.__str__")
        raise ValueError("cannot print")


def header_kw(**over):
    kw = {f.name: "v_" + f.name for f in fields(ProgramHeaderCommon)}
    kw["program_name"] = "HEADER NAME"
    kw.update(over)
    return kw


def direct(adapter, hdr_kw, obj_kw, child_info, context):
    del LOG[:]
    hdr = Logged("header", **hdr_kw)
    obj = Logged("obj", header=hdr, **obj_kw)
    ci = Logged("child_info", **child_info._asdict())
    try:
        res = adapter._decode_element(obj, ci, LoggedContext(context), "p")
        d = {f.name: getattr(res, f.name) for f in fields(res)}
        out = ("ok", d, res.name, res.path, res.parent)
    except Exception as e:  # noqa
        out = ("exc", type(e).__name__, str(e))
    return out, list(LOG)


def ci(**over):
    kw = dict(parent=None, parent_path=["img", "vol"], next_path=["img", "vol", "F"],
              routines=[], name="F")
    kw.update(over)
    return ChildInfo(**kw)


parent_marker = object()
direct_cases = [
    (header_kw(), dict(keygroups=["kg"]), ci(), {}),
    (header_kw(), dict(keygroups=()), ci(name=None), {}),
    (header_kw(), dict(keygroups=()), ci(name=""), {"file_type": FileType.PROGRAM_S3000}),
    (header_kw(program_name=""), dict(keygroups=()), ci(name=""), {"file_type": None}),
    (header_kw(program_name=None), dict(keygroups=()), ci(name=0), {"file_type": 5}),
    (header_kw(), dict(keygroups=None), ci(parent=parent_marker, parent_path=[]), {}),
    (header_kw(), dict(keygroups=[]), ci(parent_path=("tuple", )), {}),      # TypeError
    (header_kw(), dict(keygroups=[]), ci(parent_path=None), {}),             # TypeError
    (header_kw(), dict(), ci(), {}),                                         # no keygroups
    (header_kw(), dict(), ci(parent_path=("tuple", )), {}),                  # two problems
    (header_kw(), dict(), ci(), {"file_type": BadStr()}),                    # two problems
    (header_kw(), dict(keygroups=[]), ci(), {"file_type": BadStr()}),
    (header_kw(), dict(keygroups=[]), ci(parent_path=3), {"file_type": BadStr()}),
]
# every single header field missing in turn
for f in fields(ProgramHeaderCommon):
    kw = header_kw()
    del kw[f.name]
    direct_cases.append((kw, dict(keygroups=[]), ci(), {}))
    direct_cases.append((kw, dict(), ci(name=None, parent_path=None), {"file_type": BadStr()}))
# header carrying extra / clashing attributes
direct_cases.append((header_kw(keygroups="from header", file_name="from header",
                               type_name="from header", _path="x", _parent="y",
                               first_keygroup_address=150),
                     dict(keygroups=["real"]), ci(), {}))

live_adapter = ProgramAdapter(ProgramParser.subcon)
orig_adapter = OriginalProgramAdapter(ProgramParser.subcon)
for hdr_kw, obj_kw, child_info, context in direct_cases:
    checked += 1
    a = direct(live_adapter, hdr_kw, obj_kw, child_info, context)
    b = direct(orig_adapter, hdr_kw, obj_kw, child_info, context)
    if a != b:
        fail("direct", obj_kw, child_info, a, b)

# random combinations
rng = random.Random(26)
names = ["F", "", None, 0, 0.0, [], ["n"], (), b"", b"x", "name with space", 7, False, True]
paths = [[], ["img"], ["img", "vol"], ("tuple", ), None, 3, "str", [1, 2]]
ftypes = ["<absent>", None, "custom", 5, FileType.PROGRAM_S3000, BadStr(), "", b"raw"]
outcomes = {}
for n in range(600):
    hdr = header_kw(program_name=rng.choice(["HEADER NAME", "", None, 12]))
    for f in fields(ProgramHeaderCommon):
        if rng.random() < 0.01:
            del hdr[f.name]
    obj_kw = {} if rng.random() < 0.15 else dict(keygroups=rng.choice(([], ["kg"], None, ())))
    child_info = ci(name=rng.choice(names), parent_path=rng.choice(paths),
                    parent=rng.choice((None, parent_marker, "parent")))
    ft = rng.choice(ftypes)
    context = {} if ft == "<absent>" else {"file_type": ft}
    checked += 1
    a = direct(live_adapter, hdr, obj_kw, child_info, context)
    b = direct(orig_adapter, hdr, obj_kw, child_info, context)
    if a != b:
        fail("direct random", n, obj_kw, child_info, a, b)
    key = a[0][0] if a[0][0] == "ok" else a[0][1]
    outcomes[key] = outcomes.get(key, 0) + 1
if outcomes.get("ok", 0) < 50 or len(outcomes) < 3:
    fail("random direct cases too thin", outcomes)

# the `_path` list is a fresh list, the parent path is left alone
pp = ["img", "vol"]
res = live_adapter._decode_element(
    Logged("obj", header=Logged("header", **header_kw()), keygroups=[]),
    ci(parent_path=pp, name="N"), {}, "p")
checked += 1
if res.path != ["img", "vol", "N"] or pp != ["img", "vol"] or res.path is pp:
    fail("path list", res.path, pp)

print("direct outcomes:", sorted(outcomes.items()))
print("r26 demo: %d comparisons (%d successful parses), %d failures"
      % (checked, ok_count, failures))
sys.exit(1 if failures else 0)
