"""r24 evidence: smpl_extract/akai/akai_string.py, AkaiPaddedString(length) and
AkaiString._encode behave exactly like the original code pasted below.
Compared: the shape of the construct tree that AkaiPaddedString returns
(class of every layer, lengths, pad / pattern bytes) for lengths 0..16 and a
few odd length arguments; parse() of every 1-byte field value, of sampled
fields over the AKAI alphabet plus invalid bytes, of too short / too long /
empty data; build() of sampled names (shorter, exact, longer than the field,
lower case, invalid characters, bytes input, non-strings); sizeof(); use inside
an enclosing Struct with a following field (stream position); and the
ASCII -> field bytes -> ASCII round trip for names up to length 12.
Exit 0 = all agree, 1 = difference.
"""
import random
import sys

from construct import Byte
from construct import Struct
from construct.core import Adapter
from construct.core import ConstructError
from construct.core import FixedSized
from construct.core import GreedyBytes
from construct.core import NullStripped
from construct.core import Padded

import smpl_extract.akai.akai_string as live
from smpl_extract.akai.akai_string import char_akai_to_ascii
from smpl_extract.akai.akai_string import char_ascii_to_akai
from smpl_extract.akai.data_types import CHAR_MAP_SPACE
from smpl_extract.akai.data_types import CharFormat
from smpl_extract.akai.data_types import InvalidCharacter


# ---------------------------------------------------------------- ORIGINAL --
class OrigAkaiString(Adapter):

    def _decode(
            self,
            obj,
            context,
            path
    )->str:
        del context, path  # Unused
        try:
            result = char_akai_to_ascii(obj)
        except (InvalidCharacter):
            raise ConstructError
        return result


    def _encode(
            self,
            obj: str,
            context,
            path
    )->bytes:
        del context, path  # Unused
        result = char_ascii_to_akai(obj)
        return result


def OrigAkaiPaddedString(length)->Adapter:
    result = OrigAkaiString(FixedSized(length, Padded(
        length,
        NullStripped(
            GreedyBytes,
            pad=CHAR_MAP_SPACE[CharFormat.AKAI].to_bytes(1, 'little')
        ),
        pattern=CHAR_MAP_SPACE[CharFormat.AKAI].to_bytes(1, 'little')
    )))
    return result
# ------------------------------------------------------------ END ORIGINAL --


failures = []
checks = 0


def outcome(fn, *args):
    try:
        value = fn(*args)
    except BaseException as exc:  # noqa
        return ("raise", type(exc).__name__)
    return ("ok", type(value).__name__, value)


def compare(label, new_fn, old_fn, *args):
    global checks
    checks += 1
    got = outcome(new_fn, *args)
    want = outcome(old_fn, *args)
    if got != want:
        failures.append((label, args, got, want))


def shape(con):
    """Describe the construct tree layer by layer."""
    layers = []
    while True:
        name = type(con).__name__.replace("Orig", "")
        attrs = {}
        for key in ("length", "pad", "pattern", "name", "docs", "flagbuildnone"):
            if hasattr(con, key):
                value = getattr(con, key)
                attrs[key] = (type(value).__name__, value)
        layers.append((name, sorted(attrs.items(), key=lambda kv: kv[0])))
        if not hasattr(con, "subcon"):
            break
        con = con.subcon
    return layers


LENGTHS = list(range(0, 17)) + [80]
rng = random.Random(0x5EED24)
ALPHABET = "0123456789 ABCDEFGHIJKLMNOPQRSTUVWXYZ#+-."

# 1. tree shape, including odd length arguments (construction never validates)
for length in LENGTHS + [-1, 2.0, None, "3", True]:
    checks += 1
    got = outcome(lambda: shape(live.AkaiPaddedString(length)))
    want = outcome(lambda: shape(OrigAkaiPaddedString(length)))
    if got != want:
        failures.append(("shape", length, got, want))
    new_con = outcome(live.AkaiPaddedString, length)
    old_con = outcome(OrigAkaiPaddedString, length)
    if new_con[0] != old_con[0]:
        failures.append(("construct", length))
        continue
    if new_con[0] != "ok":
        continue
    new_con, old_con = new_con[2], old_con[2]
    compare("odd sizeof", new_con.sizeof, old_con.sizeof)
    compare("odd parse", new_con.parse, old_con.parse, b"\x0b\x0c\x0a")
    compare("odd build", new_con.build, old_con.build, "AB")

for length in LENGTHS:
    new_con = live.AkaiPaddedString(length)
    old_con = OrigAkaiPaddedString(length)
    compare("sizeof", new_con.sizeof, old_con.sizeof)

    # 2. parse
    compare("parse empty", new_con.parse, old_con.parse, b"")
    for value in range(256):
        data = bytes([value]) * length
        compare("parse same byte", new_con.parse, old_con.parse, data)
        data = bytes([value]) + b"\x0a" * max(length - 1, 0)
        compare("parse first byte", new_con.parse, old_con.parse, data)
    for _ in range(120):
        size = rng.choice([length, length, length, max(length - 1, 0),
                           length + 3])
        top = rng.choice([41, 41, 41, 44, 256])
        data = bytes(rng.randrange(0, top) for _ in range(size))
        if rng.random() < 0.5 and size:
            cut = rng.randrange(0, size + 1)
            data = data[:cut] + b"\x0a" * (size - cut)
        compare("parse sampled", new_con.parse, old_con.parse, data)

    # 3. build
    for _ in range(120):
        size = rng.choice([0, 1, max(length - 1, 0), length, length,
                           length + 1, length + 5])
        text = "".join(rng.choice(ALPHABET) for _ in range(size))
        compare("build", new_con.build, old_con.build, text)
        compare("build lower", new_con.build, old_con.build, text.lower())
        compare("build bytes", new_con.build, old_con.build,
                text.encode("ascii"))
        compare("build padded text", new_con.build, old_con.build,
                text.ljust(length))
    for bad in ("a_b", "É", "A\x00", "!", b"\xff", None, 5, ["A"], ("A",),
                [65, 66], bytearray(b"AB")):
        compare("build bad", new_con.build, old_con.build, bad)

    # 4. inside a Struct, a field after the name must start at the same place
    new_struct = Struct("name" / live.AkaiPaddedString(length), "next" / Byte)
    old_struct = Struct("name" / OrigAkaiPaddedString(length), "next" / Byte)
    for _ in range(40):
        data = bytes(rng.randrange(0, 42) for _ in range(length)) + \
            bytes([rng.randrange(256)])
        checks += 1
        got = outcome(lambda: dict(
            (k, v) for k, v in new_struct.parse(data).items() if k != "_io"))
        want = outcome(lambda: dict(
            (k, v) for k, v in old_struct.parse(data).items() if k != "_io"))
        if got != want:
            failures.append(("struct parse", length, data, got, want))
        text = "".join(rng.choice(ALPHABET) for _ in range(length)).rstrip()
        compare("struct build", new_struct.build, old_struct.build,
                dict(name=text, next=7))

# 5. AkaiString._encode / _decode directly, on a bare GreedyBytes
new_plain = live.AkaiString(GreedyBytes)
old_plain = OrigAkaiString(GreedyBytes)
for length in range(0, 13):
    for _ in range(100):
        text = "".join(rng.choice(ALPHABET + "abcxyz_!") for _ in range(length))
        compare("_encode", lambda t: new_plain._encode(t, None, None),
                lambda t: old_plain._encode(t, None, None), text)
        compare("plain build", new_plain.build, old_plain.build, text)
for bad in (None, 5, b"AB", b"\xff", [65], "É"):
    compare("_encode bad", lambda t: new_plain._encode(t, None, None),
            lambda t: old_plain._encode(t, None, None), bad)

# 6. promised round trip: ASCII name -> 12-byte field -> ASCII name
field = live.AkaiPaddedString(12)
for length in range(0, 13):
    for _ in range(100):
        text = "".join(rng.choice(ALPHABET) for _ in range(length))
        checks += 1
        raw = field.build(text)
        if len(raw) != 12 or field.parse(raw) != text.rstrip(" "):
            failures.append(("round trip", text, raw))
        if raw != OrigAkaiPaddedString(12).build(text):
            failures.append(("round trip bytes", text, raw))

if failures:
    print("r24 demo: %d of %d checks differ" % (len(failures), checks))
    for failure in failures[:20]:
        print("  ", failure)
    sys.exit(1)
print("r24 demo: %d checks agree" % checks)
sys.exit(0)
