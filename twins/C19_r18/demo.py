"""Equivalence demo for the IirFilter.get_remaining refactoring (iir.pyx).

get_remaining is the flush of the IIR filters: they hold back no samples, so
the flush returns an empty float64 block and clears the state.  The edit
reorders the two independent statements (reset first, then build the empty
block) and returns the block directly instead of through a result variable.

iir.pyx ships pre-built and Cython is not installed, so the edited text has
no runtime effect on the compiled module.  To still exercise the *edited
text*, the pure-Python `class IirFilter` / `class ChickSysCustomIirFilter`
blocks are cut out of smpl_extract/filters/iir.pyx and exec'd with the
compiled kernels (_c_process / _c_chickensys_process) bound in their
namespace.  They are compared against
  (a) an inline copy of the ORIGINAL class text, exec'd the same way, and
  (b) the compiled classes.

Scenarios: flush of fresh / used / reset filters (result dtype, shape,
bytes, a new writable array each time, state afterwards), subclasses whose
reset_state logs, fails or inspects the instance (order and number of calls,
propagated exception, state left behind), broken instances, and full streams
(every composition of short signals, random splits of long ones, flush in
the middle, reuse after the flush) for generic IIR coefficients and the
ChickenSys presets.

Exit 0 when everything agrees, 1 otherwise.
"""
import itertools
import os
import random
import sys
import warnings
from typing import Tuple

import numpy as np

import smpl_extract.filters.iir as compiled
from smpl_extract.filters import common

warnings.simplefilter("ignore")

PYX = os.path.join(os.path.dirname(os.path.abspath(compiled.__file__)), "iir.pyx")

ORIGINAL_CLASSES = '''\
class IirFilter:


    def __init__(self, B: np.ndarray, A: np.ndarray) -> None:
        self.B = B
        self.A = A
        self.n_x_prev = max(0, len(B) - 1)
        self.n_y_prev = max(0, len(A) - 1)
        self.reset_state()


    def reset_state(
            self,
            **kwargs
    ):
        x_prev = kwargs.get("x_prev", None)
        y_prev = kwargs.get("y_prev", None)
        x_prev = x_prev or np.zeros(self.n_x_prev, dtype=np.float64)
        y_prev = y_prev or np.zeros(self.n_y_prev, dtype=np.float64)
        self.x_prev = x_prev.astype(np.float64)
        self.y_prev = y_prev.astype(np.float64)


    def process(self, x: np.ndarray) -> np.ndarray:
        x = x.astype(dtype=np.float64)
        y = np.zeros((x.size,)).astype(np.float64)
        _c_process(
            x,
            y,
            self.B,
            self.A,
            self.x_prev,
            self.y_prev
        )
        return y


    def get_remaining(self) -> np.ndarray:
        y = np.zeros((0,), dtype=np.float64)
        self.reset_state()
        return y


class ChickSysCustomIirFilter(IirFilter):


    def __init__(self, coeffs: Tuple[float, float, float]) -> None:
        B = np.asarray([coeffs[0], coeffs[1]])
        A = np.asarray([1.0, -coeffs[2]])
        super().__init__(B, A)


    def process(self, x: np.ndarray) -> np.ndarray:
        y = np.zeros((x.size,)).astype(np.int16)
        _c_chickensys_process(
            x,
            y,
            self.B,
            self.A,
            self.x_prev,
            self.y_prev
        )
        y = y.astype(np.int16)
        return y
'''


def _cut_class(lines, name):
    start = next(i for i, l in enumerate(lines) if l.startswith("class " + name))
    end = len(lines)
    for j in range(start + 1, len(lines)):
        l = lines[j]
        if l.strip() and not l[0].isspace():
            end = j
            break
    return "".join(lines[start:end])


def _namespace():
    return {"np": np, "Tuple": Tuple, "_c_process": compiled._c_process,
            "_c_chickensys_process": compiled._c_chickensys_process}


def load_original():
    ns = _namespace()
    exec(compile(ORIGINAL_CLASSES, "<original iir.pyx classes>", "exec"), ns)
    return ns["IirFilter"], ns["ChickSysCustomIirFilter"]


def load_text():
    with open(PYX, "r", encoding="utf-8") as fh:
        lines = fh.readlines()
    ns = _namespace()
    exec(compile(_cut_class(lines, "IirFilter"), PYX + ":IirFilter", "exec"), ns)
    exec(compile(_cut_class(lines, "ChickSysCustomIirFilter"), PYX + ":ChickSysCustomIirFilter", "exec"), ns)
    return ns["IirFilter"], ns["ChickSysCustomIirFilter"]


OrigIir, OrigChick = load_original()
TextIir, TextChick = load_text()
IIRS = [OrigIir, TextIir, compiled.IirFilter]
CHICKS = [OrigChick, TextChick, compiled.ChickSysCustomIirFilter]

FAILS = []
CHECKS = [0]


def expect(label, ok, *info):
    CHECKS[0] += 1
    if not ok:
        FAILS.append((label,) + info)


def same_value(a, b):
    if isinstance(a, np.ndarray) or isinstance(b, np.ndarray):
        return (isinstance(a, np.ndarray) and isinstance(b, np.ndarray) and a.dtype == b.dtype
                and a.shape == b.shape and a.tobytes() == b.tobytes())
    if isinstance(a, (list, tuple)) and isinstance(b, (list, tuple)):
        return type(a) is type(b) and len(a) == len(b) and all(same_value(p, q) for p, q in zip(a, b))
    return type(a) is type(b) and a == b


def outcome(fn):
    try:
        return ("ok", fn())
    except BaseException as e:  # noqa
        return ("exc", type(e).__name__, str(e))


def same_outcome(a, b):
    if a[0] != b[0]:
        return False
    if a[0] == "exc":
        return a[1:] == b[1:]
    return same_value(a[1], b[1])


def state(f):
    return {k: (v.copy() if isinstance(v, np.ndarray) else v) for k, v in sorted(vars(f).items())}


def same_state(f, g):
    sf, sg = state(f), state(g)
    return sf.keys() == sg.keys() and all(same_value(sf[k], sg[k]) for k in sf)


def check(label, objs, call):
    """run call(obj) on every object; the first one is the reference"""
    outs = [outcome(lambda o=o: call(o)) for o in objs]
    expect(label + " outcome", all(same_outcome(outs[0], o) for o in outs[1:]), outs)
    expect(label + " state", all(same_state(objs[0], o) for o in objs[1:]),
           [state(o) for o in objs])
    return outs


rng = random.Random(1918)
nrng = np.random.default_rng(1918)


def coeff_sets():
    # NB: len(A) == 1 is deliberately not used: with an empty feedback window the
    # compiled kernel writes out of bounds (pre-existing, unrelated to this edit).
    yield np.asarray([1.0]), np.asarray([1.0, 0.0])
    yield np.asarray([0.5, 0.25]), np.asarray([1.0, -0.5])
    yield np.asarray([1.0, -1.0, 0.5]), np.asarray([2.0, 0.5])
    yield np.asarray([0.25]), np.asarray([1.0, 0.3, -0.2, 0.1])
    for _ in range(10):
        nb, na = rng.randint(1, 5), rng.randint(2, 5)
        A = nrng.uniform(-0.4, 0.4, na)
        A[0] = rng.choice([1.0, 2.0, -1.5, 0.5])
        yield nrng.uniform(-1, 1, nb), A


PRESETS = [(0.5923, 0.1516, 0.2560), (0.7071, 0.1213, 0.1716),
           (22082 / 32767, 4967 / 32767, 8411 / 32767), (1.0, 0.0, 0.0), (1.9, 0.9, 0.99)]


def splits(n):
    if n == 0:
        yield []
    elif n <= 7:
        for bits in itertools.product([0, 1], repeat=n - 1):
            yield [i + 1 for i, b in enumerate(bits) if b] + [n]
    else:
        yield [n]
        yield list(range(1, n + 1))
        for _ in range(4):
            k = rng.randint(0, min(n - 1, 8))
            yield sorted(rng.sample(range(1, n), k)) + [n]


def signals():
    for n in range(0, 8):
        yield nrng.integers(-32768, 32768, n).astype(np.int16)
    yield np.asarray([32767, -32768] * 6, dtype=np.int16)
    yield np.full(15, 32767, dtype=np.int16)
    yield np.full(15, -32768, dtype=np.int16)
    for _ in range(4):
        yield nrng.integers(-32768, 32768, rng.randint(8, 60)).astype(np.int16)


def run_stream(f, x, cuts, flush_at=None):
    out, lo = [], 0
    for j, hi in enumerate(cuts):
        if flush_at is not None and j == flush_at:
            out.append(f.get_remaining())
            out.append(f.x_prev.copy())
            out.append(f.y_prev.copy())
        out.append(f.process(x[lo:hi]))
        out.append(f.x_prev.copy())
        out.append(f.y_prev.copy())
        lo = hi
    out.append(f.get_remaining())
    out.append(f.x_prev.copy())
    out.append(f.y_prev.copy())
    return out


def flush_checks(label, objs, n_x, n_y):
    """the flush itself: value, freshness, state"""
    before = [(f.x_prev, f.y_prev) for f in objs]
    outs = check(label, objs, lambda f: f.get_remaining())
    for f, o, (xp, yp) in zip(objs, outs, before):
        expect(label + " ok", o[0] == "ok")
        if o[0] != "ok":
            continue
        y = o[1]
        expect(label + " value", isinstance(y, np.ndarray) and y.dtype == np.float64 and y.shape == (0,)
               and y.flags.writeable and y.flags.owndata and y.base is None, y)
        expect(label + " cleared", f.x_prev.shape == (n_x,) and f.y_prev.shape == (n_y,)
               and not f.x_prev.any() and not f.y_prev.any() and f.x_prev.dtype == np.float64
               and f.y_prev.dtype == np.float64, state(f))
        expect(label + " new state arrays", f.x_prev is not xp and f.y_prev is not yp
               and y is not f.x_prev and y is not f.y_prev)
        again = f.get_remaining()
        expect(label + " new block each time", again is not y and same_value(again, y))


def make_logging(base):
    class Logging(base):
        def reset_state(self, **kwargs):
            self.__dict__.setdefault("log", []).append(
                ("reset", tuple(sorted(kwargs)), "x_prev" in self.__dict__,
                 None if "x_prev" not in self.__dict__ else self.x_prev.tobytes(),
                 None if "y_prev" not in self.__dict__ else self.y_prev.tobytes()))
            super().reset_state(**kwargs)
    return Logging


def make_failing(base, exc):
    class Failing(base):
        armed = False

        def reset_state(self, **kwargs):
            if self.armed:
                self.calls = getattr(self, "calls", 0) + 1
                raise exc("reset refused")
            super().reset_state(**kwargs)
    return Failing


def make_half(base):
    class Half(base):
        """reset_state that clears x_prev, then fails"""
        armed = False

        def reset_state(self, **kwargs):
            if self.armed:
                self.x_prev = np.zeros(self.n_x_prev, dtype=np.float64)
                raise RuntimeError("half way")
            super().reset_state(**kwargs)
    return Half


def main():
    n_streams = 0
    # 1. generic IIR
    for B, A in coeff_sets():
        n_x, n_y = len(B) - 1, len(A) - 1
        trio = [cls(B, A) for cls in IIRS]
        flush_checks("fresh flush", trio, n_x, n_y)
        warm = nrng.integers(-32768, 32768, 9).astype(np.int16)
        check("warm", trio, lambda f: f.process(warm))
        flush_checks("used flush", trio, n_x, n_y)
        fresh = [cls(B, A) for cls in IIRS]
        x = nrng.integers(-32768, 32768, 12).astype(np.int16)
        check("flushed == new", [fresh[0]] + trio, lambda f: f.process(x))
        if n_x == 1 or n_y == 1:
            kw = {}
            if n_x == 1:
                kw["x_prev"] = np.asarray([3.5])
            if n_y == 1:
                kw["y_prev"] = np.asarray([-2.25])
            check("reset kwargs", trio, lambda f: f.reset_state(**kw))
            flush_checks("flush after reset kwargs", trio, n_x, n_y)
        for x in signals():
            for cuts in splits(len(x)):
                flush_at = rng.choice([None, None, rng.randrange(len(cuts))]) if cuts else None
                fs = [cls(B, A) for cls in IIRS]
                check("stream", fs, lambda f: run_stream(f, x, cuts, flush_at))
                n_streams += 1
                if n_streams % 5 == 0:
                    z = nrng.integers(-32768, 32768, 10).astype(np.int16)
                    check("reuse", fs, lambda f: run_stream(f, z, [3, 4, 10]))

    # 2. ChickenSys (inherits get_remaining)
    for c in PRESETS:
        trio = [cls(c) for cls in CHICKS]
        flush_checks("chick fresh flush", trio, 1, 1)
        warm = nrng.integers(-32768, 32768, 9).astype(np.int16)
        check("chick warm", trio, lambda f: f.process(warm))
        flush_checks("chick used flush", trio, 1, 1)
        for x in signals():
            for cuts in splits(len(x)):
                flush_at = rng.choice([None, None, rng.randrange(len(cuts))]) if cuts else None
                fs = [cls(c) for cls in CHICKS]
                check("chick stream", fs, lambda f: run_stream(f, x, cuts, flush_at))
                n_streams += 1
    for cls in (common.ChickSysStandardDeemphFilter, common.ChickSysDarkerDeemphFilter,
                common.ChickSysSpecialDeemphFilter):
        for x in signals():
            for cuts in list(splits(len(x)))[:20]:
                f = cls()
                g = TextChick((f.B[0], f.B[1], -f.A[1]))
                a, b = outcome(lambda: run_stream(f, x, cuts, 0 if cuts else None)), \
                    outcome(lambda: run_stream(g, x, cuts, 0 if cuts else None))
                expect("preset stream", same_outcome(a, b) and a[0] == "ok", cls.__name__, cuts)

    # 3. subclasses that observe / refuse the reset
    B, A = np.asarray([0.5, 0.25, -0.125]), np.asarray([1.0, -0.5, 0.1])
    warm = nrng.integers(-32768, 32768, 9).astype(np.int16)
    logging = [make_logging(cls)(B, A) for cls in IIRS]
    check("logging warm", logging, lambda f: f.process(warm))
    check("logging flush", logging, lambda f: f.get_remaining())
    check("logging flush 2", logging, lambda f: f.get_remaining())
    expect("log", all(f.log == logging[0].log for f in logging) and len(logging[0].log) == 3
           and [e[1] for e in logging[0].log] == [(), (), ()] and logging[0].log[0][2] is False
           and logging[0].log[1][3] != bytes(16), logging[0].log)
    for exc in (RuntimeError, ValueError, KeyboardInterrupt, MemoryError):
        failing = [make_failing(cls, exc)(B, A) for cls in IIRS]
        check("failing warm", failing, lambda f: f.process(warm))
        for f in failing:
            f.armed = True
        outs = check("failing flush", failing, lambda f: f.get_remaining())
        expect("failing propagated", outs[0][:2] == ("exc", exc.__name__) and all(getattr(f, "calls", 0) == 1 for f in failing), outs)
        expect("failing state kept", all(f.x_prev.any() and f.y_prev.any() for f in failing))
        check("failing process after", failing, lambda f: f.process(warm))
    half = [make_half(cls)(B, A) for cls in IIRS]
    check("half warm", half, lambda f: f.process(warm))
    for f in half:
        f.armed = True
    check("half flush", half, lambda f: f.get_remaining())
    check("half process after", half, lambda f: f.process(warm))

    # 4. broken instances
    for missing in (("n_x_prev",), ("n_y_prev",), ("n_x_prev", "n_y_prev"), ("x_prev",), ("y_prev", "B", "A")):
        trio = [cls(B, A) for cls in IIRS]
        check("broken warm", trio, lambda f: f.process(warm))
        for f in trio:
            for name in missing:
                delattr(f, name)
        check("broken flush %r" % (missing,), trio, lambda f: f.get_remaining())
    for attr, val in (("n_x_prev", -1), ("n_y_prev", 2.5), ("n_x_prev", None), ("n_y_prev", "3"), ("n_x_prev", 5),
                      ("n_x_prev", (2, 2))):
        trio = [cls(B, A) for cls in IIRS]
        for f in trio:
            setattr(f, attr, val)
        check("odd %s flush" % attr, trio, lambda f: f.get_remaining())
        check("odd %s process after" % attr, trio, lambda f: f.process(warm))

    print("streams: %d, checks: %d, failures: %d" % (n_streams, CHECKS[0], len(FAILS)))
    for fail in FAILS[:10]:
        print("FAIL", fail)
    return 1 if FAILS else 0


if __name__ == "__main__":
    sys.exit(main())
