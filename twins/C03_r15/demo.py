"""Equivalence demo for r15: smpl_extract.actions.export_samples_to_wav and
ls_action (the naming-routine table shared by both).

Inline copies of the ORIGINAL functions are compiled with the globals of the
live smpl_extract.actions module (and decorated with its _wrap_filestream),
so both versions see the same (optionally instrumented) collaborators.

  A. traced: the image is a recorder that logs every attribute read and every
     method call in order, optionally failing at any one of them
     (missing routine attribute, set_routines / parse_path / export_samples /
     get_info / to_string raising); ExportManager in the actions module is
     replaced by a recorder.  The ordered event trace (which includes the
     keys, order and values of the routine dicts handed to set_routines and
     ExportManager), the printed text, the return value and the exception
     (type, message) must be identical.  Two calls must get two distinct
     dict objects.
  B. real: random cue/bin pairs are exported to WAV with both versions
     (given as path and as already built image); the exported trees and the
     printed text must be byte-identical and, where titles are unique, the
     PCM must tile the bin.  ls_action output for several paths is compared
     as well.
Exit 0 on full agreement, 1 otherwise.
"""
import contextlib
import io
import itertools
import os
import random
import shutil
import sys
import tempfile

from smpl_extract import actions
from smpl_extract.cuesheet import parse_cue_sheet
from smpl_extract.structural import ErrorInvalidPath


ORIGINAL_SOURCE = '''
@_wrap_filestream
def ls_action(image: Image, path: str):

    routines: Dict[str, T_ROUTINE] = {
        "make_safe_names": image.make_safe_names_routine,
        "make_export_names": image.make_export_names_routine
    }

    image.set_routines(routines)

    try:
        item = image.parse_path(path)
    except ErrorInvalidPath as e:
        print(e)
        return

    info = item.get_info()
    result_str = info.to_string()
    print(result_str)


@_wrap_filestream
def export_samples_to_wav(image: Image, base_dir: str):

    routines: Dict[str, T_ROUTINE] = {
        "make_safe_names": image.make_safe_names_routine,
        "make_export_names": image.make_export_names_routine
    }
    sample_routines: Dict[str, T_SAMPLE_ROUTINE] = {
        "combine_stereo": image.combine_stereo_routine
    }

    image.set_routines(routines)
    export_manager = ExportManager(base_dir, sample_routines)
    image.export_samples(export_manager)
    return
'''
_namespace = {}
exec(compile(ORIGINAL_SOURCE, "<original>", "exec"), actions.__dict__,
     _namespace)
original_ls_action = _namespace["ls_action"]
original_export_samples_to_wav = _namespace["export_samples_to_wav"]


# ---------------------------------------------------------------- traced
class CustomError(Exception):
    pass


def make_exception(name):
    return {
        "ErrorInvalidPath": ErrorInvalidPath,
        "AttributeError": AttributeError,
        "Custom": CustomError,
        "KeyError": KeyError,
    }[name]("scripted %s" % name)


ATTRIBUTES = ("make_safe_names_routine", "make_export_names_routine",
              "combine_stereo_routine", "set_routines", "parse_path",
              "export_samples")


class RecordingImage:
    """Logs attribute reads and calls; script maps an attribute / call name
    to the exception it raises."""
    def __init__(self, events, script):
        object.__setattr__(self, "_events", events)
        object.__setattr__(self, "_script", script)

    def __getattr__(self, name):
        events = object.__getattribute__(self, "_events")
        script = object.__getattribute__(self, "_script")
        events.append(("getattr", name))
        behaviour = script.get("attr:" + name)
        if behaviour:
            raise make_exception(behaviour)
        if name.endswith("_routine"):
            return "<bound %s>" % name
        return RecordingCallable(name, events, script)

    def __setattr__(self, name, value):
        object.__getattribute__(self, "_events").append(
            ("setattr", name, repr(value)))


def describe(value):
    if isinstance(value, dict):
        return ("dict", [(k, describe(v)) for k, v in value.items()])
    if isinstance(value, RecordingManager):
        return ("manager", value.number)
    if isinstance(value, RecordingCallable):
        return ("callable", value.name)
    return repr(value)


class RecordingCallable:
    def __init__(self, name, events, script):
        self.name = name
        self.events = events
        self.script = script

    def __call__(self, *args, **kwargs):
        self.events.append((
            "call", self.name, [describe(a) for a in args],
            sorted((k, describe(v)) for k, v in kwargs.items())))
        for a in args:
            if isinstance(a, dict):
                self.events.append(("dict id", self.script["ids"].setdefault(
                    id(a), len(self.script["ids"]))))
                self.script["keep"].append(a)
        behaviour = self.script.get("call:" + self.name)
        if behaviour:
            raise make_exception(behaviour)
        if self.name == "parse_path":
            return RecordingImage(self.events, {
                k[5:]: v for k, v in self.script.items()
                if k.startswith("item:")} | {"ids": self.script["ids"],
                                             "keep": self.script["keep"]})
        if self.name == "get_info":
            return RecordingImage(self.events, self.script)
        if self.name == "to_string":
            return "info text"
        return "<result of %s>" % self.name


class RecordingManager:
    counter = 0

    def __init__(self, *args, **kwargs):
        RecordingManager.counter += 1
        self.number = RecordingManager.counter
        RecordingManager.events.append((
            "ExportManager", [describe(a) for a in args],
            sorted((k, describe(v)) for k, v in kwargs.items())))
        behaviour = RecordingManager.script.get("call:ExportManager")
        if behaviour:
            raise make_exception(behaviour)


def run_traced(func, script, extra_args):
    events = []
    script = dict(script)
    script["ids"] = {}
    script["keep"] = []
    image = RecordingImage(events, script)
    saved = actions.ExportManager
    RecordingManager.events = events
    RecordingManager.script = script
    RecordingManager.counter = 0
    actions.ExportManager = RecordingManager
    captured = io.StringIO()
    try:
        with contextlib.redirect_stdout(captured):
            try:
                outcome = ("OK", repr(func(image, *extra_args)))
                # a second call must build fresh dicts
                func(image, *extra_args)
            except Exception as e:
                outcome = ("EXC", type(e).__name__, str(e),
                           type(e.__context__).__name__)
    finally:
        actions.ExportManager = saved
    return outcome, events, captured.getvalue()


def traced_cases():
    failures = 0
    count = 0
    scripts = [{}]
    for name in ATTRIBUTES:
        for exception in ("AttributeError", "Custom", "ErrorInvalidPath"):
            scripts.append({"attr:" + name: exception})
    for name in ("set_routines", "parse_path", "export_samples",
                 "ExportManager", "get_info", "to_string"):
        for exception in ("ErrorInvalidPath", "Custom", "KeyError",
                          "AttributeError"):
            scripts.append({"call:" + name: exception})
            scripts.append({"item:call:" + name: exception})
            scripts.append({"item:attr:" + name: exception})
    for first, second in itertools.combinations(ATTRIBUTES, 2):
        scripts.append({"attr:" + first: "Custom",
                        "attr:" + second: "AttributeError"})
        scripts.append({"call:" + first: "ErrorInvalidPath",
                        "attr:" + second: "Custom"})
    pairs = [
        (original_ls_action, actions.ls_action,
         [("",), ("a/b",), (None,), ("x", "extra"), ()]),
        (original_export_samples_to_wav, actions.export_samples_to_wav,
         [("out",), ("",), (None,), ("out", "extra"), ()]),
    ]
    for original, live, argument_lists in pairs:
        for script in scripts:
            for extra_args in argument_lists:
                expected = run_traced(original, script, extra_args)
                actual = run_traced(live, script, extra_args)
                count += 1
                if expected != actual:
                    failures += 1
                    if failures < 10:
                        print("MISMATCH (traced)", live.__name__, script,
                              extra_args)
                        print("   expected", expected)
                        print("   actual  ", actual)
    # non-image, non-str first arguments
    for original, live, _ in pairs:
        for odd in (None, 5, b"bytes", object()):
            results = []
            for func in (original, live):
                captured = io.StringIO()
                with contextlib.redirect_stdout(captured):
                    try:
                        results.append(("OK", repr(func(odd, "x"))))
                    except Exception as e:
                        results.append(("EXC", type(e).__name__, str(e)))
            count += 1
            if results[0] != results[1]:
                failures += 1
                print("MISMATCH (odd)", live.__name__, odd, results)
    # decorator metadata is untouched
    count += 1
    if (actions.ls_action.__name__, actions.export_samples_to_wav.__name__) \
            != ("ls_action", "export_samples_to_wav"):
        failures += 1
        print("MISMATCH (names)")
    return count, failures


# ------------------------------------------------------------------ real
def msf(total):
    return "%02d:%02d:%02d" % (total // 4500, (total // 75) % 60, total % 75)


def make_cue(rng, n_sectors):
    lines = ["FILE \"disc.bin\" BINARY\n"]
    position = rng.randint(0, 2)
    for t in range(rng.randint(1, 6)):
        lines.append("  TRACK %02d AUDIO\n" % (t + 1))
        if rng.random() < 0.55:
            lines.append("    TITLE \"%s\"\n" % rng.choice(
                ["One", "Two", "Same", "Same", "a/b", "Pad L", "Pad R",
                 "x - L", "it's", "dot."]))
        for k in range(rng.choice([1, 1, 2, 3])):
            lines.append("    INDEX %02d %s\n" % (k, msf(position)))
            position += rng.choice([1, 1, 2, 3])
        if position >= n_sectors:
            break
    return lines


def read_tree(root):
    found = {}
    for directory, _dirs, files in os.walk(root):
        for name in files:
            path = os.path.join(directory, name)
            with open(path, "rb") as f:
                found[os.path.relpath(path, root)] = f.read()
    return found


def run_export(func, source, destination):
    os.mkdir(destination)
    captured = io.StringIO()
    with contextlib.redirect_stdout(captured):
        try:
            outcome = ("OK", repr(func(source, destination)))
        except Exception as e:
            outcome = ("EXC", type(e).__name__, str(e))
    return outcome, read_tree(destination), captured.getvalue()


def run_ls(func, source, path):
    captured = io.StringIO()
    with contextlib.redirect_stdout(captured):
        try:
            outcome = ("OK", repr(func(source, path)))
        except Exception as e:
            outcome = ("EXC", type(e).__name__, str(e))
    return outcome, captured.getvalue()


def real_cases():
    failures = 0
    count = 0
    rng = random.Random(0xC0315)
    base = tempfile.mkdtemp(prefix="r15demo_")
    try:
        for number in range(60):
            n_sectors = rng.randint(1, 20)
            tail = rng.choice([0, 0, 1, 2, 3, 1177, 2351])
            data = bytes(
                rng.getrandbits(8) for _ in range(n_sectors*2352 + tail))
            lines = make_cue(rng, n_sectors)
            directory = os.path.join(base, "case%03d" % number)
            os.mkdir(directory)
            with open(os.path.join(directory, "disc.bin"), "wb") as f:
                f.write(data)
            cue_path = os.path.join(directory, "disc.cue")
            with open(cue_path, "w", encoding="ascii") as f:
                f.writelines(lines)

            expected = run_export(original_export_samples_to_wav, cue_path,
                                  os.path.join(directory, "out_a"))
            actual = run_export(actions.export_samples_to_wav, cue_path,
                                os.path.join(directory, "out_b"))
            count += 1
            if expected != actual or expected[0][0] != "OK":
                failures += 1
                print("MISMATCH (export path)", number, expected[0],
                      actual[0], sorted(expected[1]), sorted(actual[1]))
                continue

            # already built image objects
            image_a = actions.determine_image_type(cue_path)
            image_b = actions.determine_image_type(cue_path)
            expected_image = run_export(
                original_export_samples_to_wav, image_a,
                os.path.join(directory, "out_c"))
            actual_image = run_export(
                actions.export_samples_to_wav, image_b,
                os.path.join(directory, "out_d"))
            count += 1
            if expected_image != actual_image or expected_image != expected:
                failures += 1
                print("MISMATCH (export image)", number)
            count += 1
            if list(image_a._routines) != list(image_b._routines) or \
                    [r.__func__ for r in image_a._routines.values()] != \
                    [r.__func__ for r in image_b._routines.values()] or \
                    any(r.__self__ is not image_b
                        for r in image_b._routines.values()):
                failures += 1
                print("MISMATCH (installed routines)", number)
            for image in (image_a, image_b):
                image.tracks[0]._data_stream.substream.close()

            # ls
            cue = parse_cue_sheet(list(lines))
            titles = [t.title or "Untitled Track %d" % (i + 1)
                      for i, t in enumerate(cue.tracks)]
            for path in ["", "/", "missing", "Same (2)", "  One "] + titles:
                expected_ls = run_ls(original_ls_action, cue_path, path)
                actual_ls = run_ls(actions.ls_action, cue_path, path)
                count += 1
                if expected_ls != actual_ls:
                    failures += 1
                    print("MISMATCH (ls)", number, path, expected_ls,
                          actual_ls)

            # tiling
            starts = [t.indices[0].get_total_audio_frames()*2352
                      for t in cue.tracks]
            if len(set(titles)) != len(titles) or starts[-1] > len(data) \
                    or any(c in t for t in titles for c in "/'.") \
                    or any(t.endswith((" L", " R")) for t in titles):
                continue
            count += 1
            ends = starts[1:] + [len(data) - (len(data) - starts[-1]) % 4]
            joined = b""
            for title, start, end in zip(titles, starts, ends):
                blob = actual[1].get(title + ".wav")
                if blob is None or blob[44:] != data[start:end]:
                    failures += 1
                    print("MISMATCH (tiling)", number, title,
                          sorted(actual[1]))
                    break
                joined += blob[44:]
            else:
                if joined != data[starts[0]:ends[-1]]:
                    failures += 1
                    print("MISMATCH (concatenation)", number)

        # sources that are not cue sheets / do not exist
        for source in (os.path.join(base, "nope.cue"), base):
            destination_a = os.path.join(base, "x_a_%d" % count)
            destination_b = os.path.join(base, "x_b_%d" % count)
            expected = run_export(original_export_samples_to_wav, source,
                                  destination_a)
            actual = run_export(actions.export_samples_to_wav, source,
                                destination_b)
            count += 1
            if expected != actual:
                failures += 1
                print("MISMATCH (bad source)", source, expected, actual)
    finally:
        shutil.rmtree(base, ignore_errors=True)
    return count, failures


def main():
    n_traced, f_traced = traced_cases()
    print("traced cases:", n_traced, "failures:", f_traced)
    n_real, f_real = real_cases()
    print("real cases:", n_real, "failures:", f_real)
    print("total cases:", n_traced + n_real, "failures:", f_traced + f_real)
    return 1 if f_traced + f_real else 0


if __name__ == "__main__":
    sys.exit(main())
