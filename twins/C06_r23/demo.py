"""Equivalence demo for Traversable.export_samples (C06, r23).

The live method (with or without the refactoring) is compared against
subclasses carrying a verbatim inline copy of the ORIGINAL body.  Element
trees (directories, sample entries, program entries, a directory whose
type_id says SampleEntry, children that raise) are built twice from the same
spec, once with the ORIGINAL classes and once with the live ones, and walked

  (a) with a logging fake export manager - the sequence of
      set_level / add_sample / finish_level calls, every child attribute read,
      the return value and any exception must agree;
  (b) with the real ExportManager writing (through a stand-in export_wav that
      just creates the file) below a fresh tempfile.mkdtemp() directory, with
      the real make_safe_names / make_export_names / combine_stereo routines
      installed - stdout ('Exported ...' lines), the set of files on disk and
      the manager state afterwards must agree.

Exit status 0 when everything agrees, 1 otherwise.
"""
import contextlib
import io
import os
import random
import shutil
import sys
import tempfile
from typing import cast

import smpl_extract.structural as structural
from smpl_extract.base import ElementTypes
from smpl_extract.base import Printable
from smpl_extract.elements import LeafElement
from smpl_extract.generalized.sample import Sample
from smpl_extract.info import InfoTable
from smpl_extract.structural import ExportManager
from smpl_extract.structural import Image
from smpl_extract.structural import SampleElement
from smpl_extract.structural import Traversable


# --------------------------------------------------------------------------
# ORIGINAL implementation (verbatim body), as a mixin placed before the live
# classes so that every directory of an "original" tree uses it
# --------------------------------------------------------------------------
class OriginalExportSamples:

    def export_samples(
            self,
            export_manager
    ):
        export_manager.set_level(tuple(self.path))
        children = self.children

        for child in children:
            if child.type_id == ElementTypes.SampleEntry:
                child = cast(SampleElement, child)
                sample = child.to_generalized()
                export_manager.add_sample(sample)
            elif isinstance(child, Traversable):
                child.export_samples(export_manager)

        export_manager.finish_level()
        return


class LiveDir(Traversable):
    pass


class OriginalDir(OriginalExportSamples, Traversable):
    pass


class LiveImage(Image):
    name = "image"
    type_name = "image"


class OriginalImage(OriginalExportSamples, Image):
    name = "image"
    type_name = "image"


FAILURES = []
N_CHECKS = 0


def check(label, left, right):
    global N_CHECKS
    N_CHECKS += 1
    if left != right:
        FAILURES.append(label)
        print("MISMATCH", label)
        print("   original:", repr(left)[:600])
        print("   live    :", repr(right)[:600])


# --------------------------------------------------------------------------
# tree building
# --------------------------------------------------------------------------
class SampleLeaf:
    """A sample entry (not an Element subclass on purpose: export_samples only
    relies on type_id / to_generalized)."""

    def __init__(self, name, parent, log, fail=False):
        self.name = name
        self._parent = parent
        self._path = parent.path + [name]
        self._safe_name = None
        self._export_name = None
        self._log = log
        self._fail = fail

    @property
    def type_id(self):
        self._log.append(("type_id", self.name))
        return ElementTypes.SampleEntry

    @property
    def path(self):
        return self._path

    @property
    def parent(self):
        return self._parent

    @property
    def safe_name(self):
        return self.name if self._safe_name is None else self._safe_name

    @property
    def export_name(self):
        return self.name if self._export_name is None else self._export_name

    def to_generalized(self):
        self._log.append(("to_generalized", self.name))
        if self._fail:
            raise LookupError("cannot generalize " + self.name)
        return Sample(
            name=self.name,
            _parent=self.parent,
            _path=self.path,
            _safe_name=self.safe_name,
            _export_name=self.export_name,
        )


class ProgramLeaf(SampleLeaf):
    @property
    def type_id(self):
        self._log.append(("type_id", self.name))
        return ElementTypes.ProgramEntry

    def to_generalized(self):
        raise AssertionError("programs are never generalized")


def make_dir(dir_cls, name, parent, child_specs, routines, log, flavour="dir"):
    holder = {}

    def realize(context_additions):
        log.append(("realize", name, sorted(context_additions)))
        return [
            build_node(dir_cls, spec, holder["node"], routines, log)
            for spec in child_specs
        ]

    node = dir_cls(
        realize,
        routines=routines,
        path=parent.path + [name],
        parent=parent,
    )
    node.name = name
    if flavour == "dir_as_sample":
        # a traversable that claims to be a sample: the first branch wins
        node.type_id = ElementTypes.SampleEntry

        def to_generalized():
            log.append(("to_generalized", name))
            return Sample(name=name, _parent=parent, _path=node.path,
                          _export_name=node.export_name)
        node.to_generalized = to_generalized
    elif flavour == "dir_as_program":
        node.type_id = ElementTypes.ProgramEntry
    holder["node"] = node
    return node


def build_node(dir_cls, spec, parent, routines, log):
    kind = spec[0]
    if kind == "sample":
        return SampleLeaf(spec[1], parent, log)
    if kind == "bad_sample":
        return SampleLeaf(spec[1], parent, log, fail=True)
    if kind == "program":
        return ProgramLeaf(spec[1], parent, log)
    if kind in ("dir", "dir_as_sample", "dir_as_program"):
        return make_dir(dir_cls, spec[1], parent, spec[2], routines, log, kind)
    raise AssertionError(kind)


def build_image(image_cls, dir_cls, child_specs, log, with_routines):
    holder = {}
    routines = {}

    def realize(context_additions):
        log.append(("realize", "<image>", sorted(context_additions)))
        return [
            build_node(dir_cls, spec, holder["image"], routines, log)
            for spec in child_specs
        ]

    image = image_cls(realize)
    holder["image"] = image
    if with_routines:
        routines["make_safe_names"] = image.make_safe_names_routine
        routines["make_export_names"] = image.make_export_names_routine
    image.set_routines(routines)
    return image


# --------------------------------------------------------------------------
# (a) logging fake manager
# --------------------------------------------------------------------------
class FakeManager:
    def __init__(self, log, fail_on=None):
        self.log = log
        self.fail_on = fail_on
        self.calls = 0

    def _tick(self, what):
        self.calls += 1
        if self.fail_on is not None and self.calls == self.fail_on:
            raise OSError("manager failed in " + what)

    def set_level(self, level):
        self.log.append(("set_level", level, type(level).__name__))
        self._tick("set_level")

    def add_sample(self, sample):
        self.log.append((
            "add_sample", type(sample).__name__, sample.name,
            sample.export_name, tuple(sample.path), sample.export_path(),
        ))
        self._tick("add_sample")

    def finish_level(self):
        self.log.append(("finish_level",))
        self._tick("finish_level")


def run_fake(image_cls, dir_cls, specs, with_routines, fail_on):
    log = []
    image = build_image(image_cls, dir_cls, specs, log, with_routines)
    manager = FakeManager(log, fail_on)
    outcomes = []
    for _ in range(2):                       # second walk: children cached
        try:
            returned = image.export_samples(manager)
            outcomes.append(("ok", returned))
        except Exception as exc:  # noqa: BLE001 - compared
            outcomes.append(("exc", type(exc).__name__, str(exc)))
    return outcomes, log


# --------------------------------------------------------------------------
# (b) real ExportManager in a sandbox
# --------------------------------------------------------------------------
def run_real(image_cls, dir_cls, specs):
    top = tempfile.mkdtemp(prefix="r23demo_")
    out_dir = os.path.join(top, "out")
    os.makedirs(out_dir)
    log = []
    real_export_wav = structural.export_wav

    def fake_export_wav(sample, path):
        real = os.path.realpath(os.path.abspath(path))
        if not real.startswith(os.path.realpath(out_dir) + os.sep):
            raise PermissionError("outside sandbox: " + path)
        log.append(("export_wav", sample.name, os.path.relpath(path, out_dir)))
        with open(path, "ab") as handle:
            handle.write(sample.name.encode("utf-8", "replace") + b"\n")

    structural.export_wav = fake_export_wav
    stdout = io.StringIO()
    try:
        image = build_image(image_cls, dir_cls, specs, log, True)
        manager = ExportManager(
            out_dir, {"combine_stereo": image.combine_stereo_routine}
        )
        try:
            with contextlib.redirect_stdout(stdout):
                returned = image.export_samples(manager)
            status = ("ok", returned)
        except Exception as exc:  # noqa: BLE001 - compared
            status = ("exc", type(exc).__name__,
                      str(exc).replace(top, "<TOP>"))
        files = []
        for folder, _dirs, names in os.walk(out_dir):
            for file_name in names:
                full = os.path.join(folder, file_name)
                with open(full, "rb") as handle:
                    files.append((os.path.relpath(full, out_dir), handle.read()))
        return (
            status,
            stdout.getvalue(),
            sorted(files),
            log,
            [s.name for s in manager.samples],
            manager.level,
        )
    finally:
        structural.export_wav = real_export_wav
        shutil.rmtree(top, ignore_errors=True)


# --------------------------------------------------------------------------
# specs
# --------------------------------------------------------------------------
HAND_WRITTEN = [
    [],
    [("sample", "a")],
    [("sample", "a"), ("sample", "a"), ("sample", "a (2)")],
    [("program", "p"), ("sample", "a"), ("program", "q")],
    [("dir", "d", [])],
    [("dir", "d", [("sample", "a"), ("sample", "b")])],
    # samples queued before a sub directory, and after it
    [("sample", "before"), ("dir", "d", [("sample", "in")]), ("sample", "after")],
    [("dir", "d1", [("dir", "d2", [("dir", "d3", [("sample", "deep")])]),
                    ("sample", "mid")]),
     ("sample", "top")],
    [("sample", "PIANO -L"), ("sample", "PIANO -R"), ("sample", "PIANO")],
    [("dir", "vol", [("sample", "x L"), ("sample", "x R"), ("sample", "x L")])],
    [("dir", "..", [("sample", "../../evil")]), ("dir", "a/b", [("sample", "c\\d")])],
    [("dir", "", [("sample", "")]), ("dir", "", [("sample", ".")])],
    [("dir_as_sample", "both", [("sample", "never")]), ("sample", "s")],
    [("dir_as_program", "prog dir", [("sample", "inside")]), ("sample", "s")],
    [("sample", "ok"), ("bad_sample", "boom"), ("sample", "unreached")],
    [("dir", "d", [("bad_sample", "boom")]), ("sample", "unreached")],
    [("dir", "same", []), ("sample", "same"), ("dir", "same", [("sample", "same")])],
]


def random_spec(rng, depth=0):
    pieces = ["a", "B", " ", "-", "L", "R", "(", ")", "2", ".", "/", "\\",
              "'", ":", "#", "\x01", "é"]
    pool = [
        "".join(rng.choice(pieces) for _ in range(rng.randint(0, 5)))
        for _ in range(rng.randint(1, 3))
    ]
    specs = []
    for _ in range(rng.randint(0, 5)):
        roll = rng.random()
        name = rng.choice(pool)
        if roll < 0.5:
            specs.append(("sample", name))
        elif roll < 0.6:
            specs.append(("program", name))
        elif roll < 0.63:
            specs.append(("bad_sample", name))
        elif roll < 0.66 and depth < 3:
            specs.append(("dir_as_sample", name, random_spec(rng, depth + 1)))
        elif roll < 0.69 and depth < 3:
            specs.append(("dir_as_program", name, random_spec(rng, depth + 1)))
        elif depth < 3:
            specs.append(("dir", name, random_spec(rng, depth + 1)))
    return specs


def main():
    rng = random.Random(2306)
    all_specs = list(HAND_WRITTEN) + [random_spec(rng) for _ in range(400)]

    for index, specs in enumerate(all_specs):
        for with_routines in (False, True):
            for fail_on in (None, 1, 2, 3, 5, 8):
                original = run_fake(OriginalImage, OriginalDir, specs,
                                    with_routines, fail_on)
                live = run_fake(LiveImage, LiveDir, specs, with_routines, fail_on)
                check(f"fake[{index}] routines={with_routines} "
                      f"fail_on={fail_on} {specs!r}", original, live)
        original = run_real(OriginalImage, OriginalDir, specs)
        live = run_real(LiveImage, LiveDir, specs)
        check(f"real[{index}] {specs!r}", original, live)

    print(f"{N_CHECKS} comparisons, {len(FAILURES)} mismatches")
    return 1 if FAILURES else 0


if __name__ == "__main__":
    sys.exit(main())
