"""Equivalence demo for r23: smpl_extract/akai/partition.py
PartitionHeaderConstruct (the first thing PartitionParser parses for every
partition; when it does not parse, AkaiImageParser._load_partitions stops
scanning).

The two anonymous Rebuild lambdas for the check bytes
    lambda this: 0x55 if this.check_sum_x % 2 == 0 else 0xD5
    lambda this: this.check_sum_x//2 + 0xBA
became the named module-level functions _get_check_byte_0 (written with
if/return instead of a conditional expression) and _get_check_byte_1, and the
literals 0x55 / 0xD5 / 0xBA / 128 became named module constants
(_CHECK_BYTE_0_EVEN, _CHECK_BYTE_0_ODD, _CHECK_BYTE_1_BASE,
_CHECK_UNIT_SECTOR_CNT).

The demo re-creates the ORIGINAL header struct verbatim and, on top of it,
the original PartitionParser (live adapter / volume / SAT constructs), and
compares with the live definitions:
  * field names, construct types, sizeof, the text of the Computed
    expressions,
  * the two check byte callables (dug out of the structs) on contexts with
    every check_sum_x from -3 to 600, floats, bools, None, str, missing
    field, dict / None contexts: value or exception type and text,
  * build of the header for EVERY 16 bit size (bytes, or exception type and
    text where the second check byte overflows), checked against an
    independent formula as well; build from odd objects,
  * parse of the header for every 16 bit size, with right and wrong check
    bytes, damaged magic, short input, random input; stream position after,
  * parse_stream of whole synthetic images through both PartitionParsers -
    complete, cut at many positions, damaged - and through AkaiImageParser
    with the parser swapped: results and the exact log of calls on the
    image stream.
Exit 0 when everything agrees, 1 otherwise.
"""
from io import BytesIO
from io import SEEK_SET
import random
import sys

from construct.core import Bytes
from construct.core import Computed
from construct.core import Const
from construct.core import Int8ul
from construct.core import Int16ul
from construct.core import Lazy
from construct.core import Rebuild
from construct.core import Struct
from construct.core import Tell
from construct.expr import this
from construct.lib.containers import Container

from smpl_extract.akai import image as image_mod
from smpl_extract.akai.data_types import AKAI_PARTITION_MAGIC
from smpl_extract.akai.data_types import AKAI_SAT_ENTRY_CNT
from smpl_extract.akai.data_types import AKAI_SECTOR_SIZE
from smpl_extract.akai.data_types import AKAI_VOLUME_ENTRY_CNT
from smpl_extract.akai.image import AkaiImageParser
from smpl_extract.akai.partition import PartitionAdapter
from smpl_extract.akai.partition import PartitionHeaderConstruct
from smpl_extract.akai.partition import PartitionParser
from smpl_extract.akai.sat import SegmentAllocationTableAdapter
from smpl_extract.akai.volume import VolumeEntryConstruct
from smpl_extract.akai.volume import VolumesAdapter
from smpl_extract.util.stream import StreamOffset
from smpl_extract.util.stream import SubStreamConstruct


# --------------------------------------------------------------------------
# ORIGINAL definitions (verbatim copies, renamed)
# --------------------------------------------------------------------------
PartitionHeaderConstructOrig = Struct(
    "start_address" / Tell,
    "size" / Int16ul,
    "total_size" / Computed(this.size * AKAI_SECTOR_SIZE),
    "check_sum_x" / Computed(this.size//128 - 1),
    "partition_stream" / SubStreamConstruct(
        StreamOffset,
        size=this.total_size,
        offset=this.start_address
    ),
    Const(b"\x00\x00"),
    Const(AKAI_PARTITION_MAGIC),
    Rebuild(Int8ul, lambda this: 0x55 if this.check_sum_x % 2 == 0 else 0xD5),
    Rebuild(Int8ul, lambda this: this.check_sum_x//2 + 0xBA),
    Const(b"\x2F\x00"),
)


PartitionParserOrig = PartitionAdapter(
    Struct(
        "header" / PartitionHeaderConstructOrig,
        "volume_entries" / VolumeEntryConstruct[AKAI_VOLUME_ENTRY_CNT],
        "sat" / SegmentAllocationTableAdapter(
            this.header.partition_stream,
            Int16ul[AKAI_SAT_ENTRY_CNT]  # type: ignore
        ),
        "volumes" / Lazy(VolumesAdapter(
            this.volume_entries,
            this.sat,  # type: ignore
            Lazy(Bytes(  # type: ignore
            lambda this: this.header.total_size \
                - PartitionHeaderConstructOrig.sizeof() \
                - VolumeEntryConstruct[AKAI_VOLUME_ENTRY_CNT].sizeof() \
                - Int16ul[AKAI_SAT_ENTRY_CNT].sizeof()
            )),
        ))
    )
).compile()


# --------------------------------------------------------------------------
failures = 0
checks = 0


def check(cond, what):
    global failures, checks
    checks += 1
    if not cond:
        failures += 1
        if failures <= 20:
            print("MISMATCH:", what)


def outcome(f):
    try:
        return ("ok", f())
    except BaseException as e:  # noqa
        return ("exc", type(e).__name__, str(e))


# --------------------------------------------------------------------------
# 1. shape of the declaration
# --------------------------------------------------------------------------
def shape(con, depth=0):
    out = [(depth, type(con).__name__, getattr(con, "name", None))]
    for sub in getattr(con, "subcons", []) or []:
        out += shape(sub, depth + 1)
    sub = getattr(con, "subcon", None)
    if sub is not None:
        out += shape(sub, depth + 1)
    return out


def test_shape():
    a, b = PartitionHeaderConstructOrig, PartitionHeaderConstruct
    check(shape(a) == shape(b), "header tree shape differs")
    check(a.sizeof() == b.sizeof() == 202, "header sizeof differs")
    check(
        [repr(x.subcon.func) for x in a.subcons
         if type(x.subcon).__name__ == "Computed"]
        == [repr(x.subcon.func) for x in b.subcons
            if type(x.subcon).__name__ == "Computed"],
        "Computed expressions differ"
    )
    check(
        [getattr(x, "value", None) for x in a.subcons]
        == [getattr(x, "value", None) for x in b.subcons],
        "Const values differ"
    )
    check(
        shape(PartitionParserOrig.defersubcon)
        == shape(PartitionParser.defersubcon),
        "parser tree shape differs"
    )


# --------------------------------------------------------------------------
# 2. the check byte callables
# --------------------------------------------------------------------------
def check_byte_callables(header):
    rebuilds = [x for x in header.subcons if type(x).__name__ == "Rebuild"]
    assert len(rebuilds) == 2
    return [x.func for x in rebuilds]


class NoMod:
    """supports // but not %"""
    def __floordiv__(self, other):
        return 7


class OnlyMod:
    def __mod__(self, other):
        return 0


class AttrLog:
    """context that records attribute look-ups"""
    def __init__(self, value):
        self._value = value
        self.log = []

    def __getattr__(self, name):
        if name.startswith("_") or name == "log":
            raise AttributeError(name)
        self.log.append(name)
        return self._value


def test_callables():
    fa = check_byte_callables(PartitionHeaderConstructOrig)
    fb = check_byte_callables(PartitionHeaderConstruct)
    values = list(range(-3, 601)) + [
        10**9, -10**9, 2**70, 0.0, 1.0, 2.5, -0.5, float("nan"),
        float("inf"), True, False, None, "a", b"a", [1], (1, 2), 1 + 2j,
        NoMod(), OnlyMod(),
    ]
    for v in values:
        ctx = Container(check_sum_x=v)
        for i in (0, 1):
            ra = outcome(lambda: fa[i](ctx))
            rb = outcome(lambda: fb[i](ctx))
            same = ra == rb or (
                # nan != nan
                ra[0] == rb[0] == "ok" and repr(ra[1]) == repr(rb[1])
            )
            check(same, f"check byte {i} x={v!r}: {ra} != {rb}")
            if ra[0] == rb[0] == "ok":
                check(type(ra[1]) is type(rb[1]),
                      f"check byte {i} x={v!r}: result types differ")
    odd = [
        lambda: Container(),
        lambda: Container(check_sum_y=1),
        lambda: {"check_sum_x": 4},
        lambda: None,
        lambda: 5,
        lambda: Container(_=Container(check_sum_x=2)),
    ]
    for n, make in enumerate(odd):
        for i in (0, 1):
            ra = outcome(lambda: fa[i](make()))
            rb = outcome(lambda: fb[i](make()))
            check(ra == rb, f"check byte {i} odd ctx {n}: {ra} != {rb}")
    for v in (0, 1, 2, 3, 509, 510):
        for i in (0, 1):
            ca, cb = AttrLog(v), AttrLog(v)
            ra = outcome(lambda: fa[i](ca))
            rb = outcome(lambda: fb[i](cb))
            check(ra == rb, f"check byte {i} attr ctx {v}: {ra} != {rb}")
            check(ca.log == cb.log, f"check byte {i} attr log {v}")


# --------------------------------------------------------------------------
# 3. build / parse of the header alone
# --------------------------------------------------------------------------
def describe_header(c, stream=None):
    ps = c.partition_stream
    return (
        sorted(k for k in c.keys()),
        c.start_address, c.size, c.total_size, c.check_sum_x,
        type(ps).__name__, ps.offset, ps.end_of_file, ps.position,
        ps.buffer_length, ps.true_size,
        None if stream is None else ps.substream is stream,
    )


def expected_header(size):
    x = size // 128 - 1
    return (
        size.to_bytes(2, "little") + b"\0\0" + AKAI_PARTITION_MAGIC
        + bytes([0x55 if x % 2 == 0 else 0xD5, x // 2 + 0xBA])
        + b"\x2f\x00"
    )


def test_build():
    a, b = PartitionHeaderConstructOrig, PartitionHeaderConstruct
    ok_cnt = 0
    for size in range(0x10000):
        ra = outcome(lambda: a.build(dict(size=size)))
        rb = outcome(lambda: b.build(dict(size=size)))
        check(ra == rb, f"build size={size}: {ra[:2]} != {rb[:2]}")
        if ra[0] == "ok":
            ok_cnt += 1
            check(rb[1] == expected_header(size),
                  f"build size={size}: not the expected bytes")
    # sizes whose second check byte fits into a byte: x//2 + 0xBA <= 255
    check(ok_cnt == 18048, f"unexpected number of buildable sizes {ok_cnt}")
    odd = [
        dict(), dict(size=-1), dict(size=0x10000), dict(size=None),
        dict(size="3"), dict(size=3.0), dict(size=True),
        dict(size=3, check_sum_x=77, total_size=1, start_address=9),
        Container(size=300), None, 5, [1, 2],
    ]
    for n, obj in enumerate(odd):
        ra = outcome(lambda: a.build(obj))
        rb = outcome(lambda: b.build(obj))
        check(ra == rb, f"build odd {n}: {ra} != {rb}")
    # build into a stream that is not at 0
    for pos in (0, 1, 77, 5000):
        sa, sb = BytesIO(b"\xAA" * pos), BytesIO(b"\xAA" * pos)
        sa.seek(pos)
        sb.seek(pos)
        ra = outcome(lambda: describe_header(
            a.build_stream(dict(size=640), sa) or a.parse(sa.getvalue()[pos:])
        ))
        rb = outcome(lambda: describe_header(
            b.build_stream(dict(size=640), sb) or b.parse(sb.getvalue()[pos:])
        ))
        check(ra == rb, f"build_stream at {pos}: {ra} != {rb}")
        check(sa.getvalue() == sb.getvalue(), f"build_stream bytes at {pos}")
        check(sa.tell() == sb.tell(), f"build_stream position at {pos}")


def parse_both(data, pos=0, label=""):
    a, b = PartitionHeaderConstructOrig, PartitionHeaderConstruct
    sa, sb = BytesIO(data), BytesIO(data)
    sa.seek(pos)
    sb.seek(pos)
    ra = outcome(lambda: describe_header(a.parse_stream(sa), sa))
    rb = outcome(lambda: describe_header(b.parse_stream(sb), sb))
    check(ra == rb, f"parse {label}: {ra} != {rb}")
    check(sa.tell() == sb.tell(), f"parse {label}: stream position differs")
    return ra


def test_parse(rng):
    for size in range(0x10000):
        x = size // 128 - 1
        good = (
            size.to_bytes(2, "little") + b"\0\0" + AKAI_PARTITION_MAGIC
            + bytes([0x55 if x % 2 == 0 else 0xD5, (x // 2 + 0xBA) & 0xFF])
            + b"\x2f\x00"
        )
        r = parse_both(good + b"tail", label=f"size {size}")
        if size % 1000 == 0:
            check(r[0] == "ok", f"parse size {size} should work: {r}")
    base = expected_header(640)
    # wrong check bytes are not verified when parsing - by either version
    for c0 in (0x00, 0x55, 0xD5, 0xFF):
        for c1 in (0x00, 0xBA, 0xBC, 0xFF):
            data = base[:198] + bytes([c0, c1]) + base[200:]
            r = parse_both(data, label=f"check bytes {c0:#x} {c1:#x}")
            check(r[0] == "ok", f"check bytes {c0:#x} {c1:#x} should parse")
    # every possible cut of the header
    for cut in range(len(base) + 1):
        parse_both(base[:cut], label=f"cut {cut}")
    # one damaged byte at every position
    for i in range(len(base)):
        data = base[:i] + bytes([base[i] ^ 0x40]) + base[i + 1:]
        parse_both(data, label=f"flip {i}")
    # not at the start of the stream
    for pos in (1, 2, 100, 8192):
        parse_both(b"\xEE" * pos + base, pos=pos, label=f"offset {pos}")
        parse_both(b"\xEE" * pos + base[:150], pos=pos,
                   label=f"offset {pos} cut")
    for n in range(300):
        data = bytes(rng.getrandbits(8)
                     for _ in range(rng.choice([0, 1, 2, 5, 202, 300])))
        parse_both(data, label=f"random {n}")


class LoggedFile:
    def __init__(self, data, log):
        self.inner = BytesIO(data)
        self.log = log

    def seek(self, offset, whence=SEEK_SET):
        res = self.inner.seek(offset, whence)
        self.log.append(("seek", offset, whence, res))
        return res

    def tell(self):
        res = self.inner.tell()
        self.log.append(("tell", res))
        return res

    def read(self, size=-1):
        pos = self.inner.tell()
        res = self.inner.read(size)
        self.log.append(("read", size, pos, len(res)))
        return res


def header(size, declared=None):
    x = size // 128 - 1
    declared = size if declared is None else declared
    return (
        declared.to_bytes(2, "little") + b"\0\0" + AKAI_PARTITION_MAGIC
        + bytes([0x55 if x % 2 == 0 else 0xD5, (x // 2 + 0xBA) & 0xFF])
        + b"\x2f\x00"
    )


def volume_entry(rng, kind):
    if kind == "inactive":
        return b"\0" * 16
    if kind == "badname":
        return b"\xFF" * 12 + b"\0" * 4
    name = bytes(rng.choice([10, 11, 12, 13, 14, 27, 28, 29, 0, 1, 2])
                 for _ in range(12))
    vtype = rng.choice([1, 3])
    start = rng.randint(0, 20)
    return name + vtype.to_bytes(2, "little") + start.to_bytes(2, "little")


def partition(rng, size, bad=None, volumes="inactive", sat="zero",
              declared=None):
    body = header(size, declared)
    if bad == "magic":
        body = body[:50] + b"\xEE" + body[51:]
    elif bad == "zero":
        body = b"\0\0" + body[2:]
    elif bad == "tail":
        body = body[:-1] + b"\x01"
    entries = []
    for i in range(AKAI_VOLUME_ENTRY_CNT):
        if volumes == "inactive":
            entries.append(volume_entry(rng, "inactive"))
        elif volumes == "badname" and i == 0:
            entries.append(volume_entry(rng, "badname"))
        elif volumes == "active" and i < 3:
            entries.append(volume_entry(rng, "active"))
        else:
            entries.append(volume_entry(rng, "inactive"))
    body += b"".join(entries)
    if sat == "zero":
        body += b"\0" * (2 * AKAI_SAT_ENTRY_CNT)
    else:
        values = [0x0000, 0x4000, 0x8000, 0xC000, 1, 2, 3, 4, 5, 6, 7, 8, 30]
        body += b"".join(
            rng.choice(values).to_bytes(2, "little")
            for _ in range(AKAI_SAT_ENTRY_CNT)
        )
    total = size * AKAI_SECTOR_SIZE
    if len(body) > total:
        return body[:total]
    filler = bytes(rng.getrandbits(8) for _ in range(64))
    pad = total - len(body)
    return body + (filler * (pad // 64 + 1))[:pad]


def describe_partition(part):
    out = [type(part).__name__, part.name, part.path]
    out.append(outcome(lambda: part.sat))  # (the property itself)
    sat = part._f_sat  # the parsed allocation table object
    out.append(outcome(lambda: (
        sat.size,
        len(sat.sector_links),
        [(x.next, x.end) for x in sat.sector_links[:64]],
        type(sat.parent_stream).__name__,
        sat.parent_stream.offset,
        sat.parent_stream.end_of_file,
    )))
    out.append(outcome(lambda: [
        (v.name, str(v.volume_type), v.path, len(v.file_entries))
        for v in part.volumes
    ]))
    return out


def scan(parser, data, max_partitions=8):
    """What AkaiImageParser._load_partitions does, with a given parser."""
    log = []
    file = LoggedFile(data, log)
    size = len(data)
    out = []
    cnt = 0
    parts = []
    while file.inner.tell() < size and cnt < max_partitions:
        name = chr(ord("A") + cnt)
        try:
            part = parser.parse_stream(
                file, _elem_name=name, _elem_parent=None, _elem_routines={}
            )
        except BaseException as e:  # noqa
            out.append(("exc", type(e).__name__, str(e), file.inner.tell()))
            break
        out.append(("parsed", name, file.inner.tell()))
        parts.append(part)
        cnt += 1
    # realise lazily parsed parts afterwards (as the exporter does)
    for part in parts:
        out.append(describe_partition(part))
    out.append(("final-pos", file.inner.tell()))
    return out, log


def scan_image(parser, data):
    saved = image_mod.PartitionParser
    image_mod.PartitionParser = parser
    try:
        log = []
        file = LoggedFile(data, log)
        image = AkaiImageParser(file)
        out = [outcome(lambda: [
            (p.name, p.path, p.parent is image) for p in image.partitions
        ])]
        out.append(outcome(lambda: [
            [(v.name, v.path) for v in p.volumes] for p in image.partitions
        ]))
        out.append(file.inner.tell())
        return out, log
    finally:
        image_mod.PartitionParser = saved


def test_images(rng: random.Random):
    S = AKAI_SECTOR_SIZE
    images = {
        "empty": b"",
        "one-3": partition(rng, 3),
        "one-1": partition(rng, 1),
        "sizes-1-2-5": partition(rng, 1) + partition(rng, 2)
        + partition(rng, 5),
        "two": partition(rng, 3) + partition(rng, 4),
        "four": partition(rng, 3) + partition(rng, 4) + partition(rng, 3)
        + partition(rng, 3),
        "declared-bigger": partition(rng, 3, declared=5) + partition(rng, 3),
        "declared-smaller": partition(rng, 4, declared=2)
        + partition(rng, 3),
        "two+garbage": partition(rng, 3) + partition(rng, 3)
        + bytes(rng.getrandbits(8) for _ in range(5000)),
        "bad-magic-second": partition(rng, 3) + partition(rng, 3, "magic")
        + partition(rng, 3),
        "bad-tail-first": partition(rng, 3, "tail") + partition(rng, 3),
        "zero-size-second": partition(rng, 4) + partition(rng, 3, "zero"),
        "bad-name-first": partition(rng, 3, volumes="badname")
        + partition(rng, 3),
        "active-volumes": partition(rng, 4, volumes="active", sat="random")
        + partition(rng, 3, volumes="active", sat="random"),
        "active-volumes-2": partition(rng, 6, volumes="active", sat="random")
        + partition(rng, 3),
        "random-sat": partition(rng, 3, sat="random")
        + partition(rng, 3, sat="random"),
        "garbage": bytes(rng.getrandbits(8) for _ in range(30000)),
        "zeros": b"\0" * 30000,
    }
    head = 202
    vol_end = head + 16 * AKAI_VOLUME_ENTRY_CNT
    sat_end = vol_end + 2 * AKAI_SAT_ENTRY_CNT
    interesting = [
        0, 1, 2, 3, 4, 100, head - 1, head, head + 1, head + 16, vol_end - 1,
        vol_end, vol_end + 1, vol_end + 2, sat_end - 2, sat_end - 1, sat_end,
        sat_end + 1, S - 1, S, S + 1, 2 * S, 3 * S - 1, 3 * S, 3 * S + 1,
        3 * S + 2, 3 * S + head, 3 * S + vol_end, 3 * S + sat_end,
        3 * S + sat_end + 1, 4 * S, 5 * S, 7 * S - 1, 7 * S, 7 * S + 1,
    ]

    scenarios = list(images.items())
    for label in ("two", "four", "sizes-1-2-5", "active-volumes",
                  "declared-bigger"):
        data = images[label]
        cuts = set(c for c in interesting if c < len(data))
        cuts.update(rng.randrange(len(data)) for _ in range(15))
        for cut in sorted(cuts):
            scenarios.append((f"{label} cut at {cut}", data[:cut]))

    for label, data in scenarios:
        ra = scan(PartitionParserOrig, data)
        rb = scan(PartitionParser, data)
        check(ra[0] == rb[0], f"scan {label}: results differ\n  {ra[0]}\n  {rb[0]}")
        check(ra[1] == rb[1], f"scan {label}: stream op log differs")
        ra = scan_image(PartitionParserOrig, data)
        rb = scan_image(PartitionParser, data)
        check(ra[0] == rb[0], f"image {label}: results differ")
        check(ra[1] == rb[1], f"image {label}: stream op log differs")

    # sanity: the complete images really yield the partitions we built
    full = scan(PartitionParser, images["sizes-1-2-5"])[0]
    check(
        [x for x in full if x[0] == "parsed"]
        == [("parsed", "A", S), ("parsed", "B", 3 * S), ("parsed", "C", 8 * S)],
        f"sanity: unexpected partition positions {full[:4]}"
    )


def main():
    rng = random.Random(0xC15D23)
    test_shape()
    test_callables()
    test_build()
    test_parse(rng)
    test_images(rng)
    print(f"{checks} checks, {failures} mismatches")
    return 0 if failures == 0 else 1


if __name__ == "__main__":
    sys.exit(main())
