"""Equivalence demo for StreamReversed._read (smpl_extract/util/stream.py).

StreamReversed is the view used for reverse-looped Roland samples.  Its _read
is what StreamWrapper.read calls after the re-seek check on the shared handle;
it turns the block that was read front-to-back into samples in reverse order.

The live class is compared with a subclass that carries a verbatim copy of the
ORIGINAL _read:

 1. _read called directly: every sample width 1..6 and 0, sizes 0..40, data
    long enough / too short (short read of the underlying handle) / empty,
    non-multiple sizes: returned bytes or exception type and text, and the
    seek/tell/read trace of the handle;
 2. read()/seek() programs on one stream (random sizes that are multiples of
    the width and some that are not): results, exceptions, position,
    true_size, trace;
 3. two reversed views and one forward view over ONE traced handle, block
    reads interleaved exhaustively (3 streams x 2 blocks) and randomly: the
    bytes of each stream must equal those of the original implementation and
    those of an isolated sequential read, and the handle trace must agree;
 4. independent oracle: reversed output equals the samples of the window
    listed last to first.
Exit 0 when everything agrees, 1 otherwise.
"""
import io
import itertools
import random
import sys

import numpy as np

from smpl_extract.util.stream import StreamOffset
from smpl_extract.util.stream import StreamReversed
from smpl_extract.util.stream import StreamWrapper


class OrigStreamReversed(StreamReversed):
    """StreamReversed with the ORIGINAL _read pasted in."""

    def _read(self, size: int) -> bytes:
        raw = StreamWrapper._read(self, size)

        arr = np.frombuffer(raw, np.dtype("int8"))
        num_cols = self.sample_width
        num_rows = size // self.sample_width

        arr = np.reshape(arr, [num_rows, num_cols])
        arr = np.flip(arr, 0)
        arr = arr.flatten(order="C")

        result = arr.tobytes()
        return result


class TracedBytesIO(io.BytesIO):
    def __init__(self, data):
        super().__init__(data)
        self.trace = []

    def seek(self, offset, whence=0):
        result = super().seek(offset, whence)
        self.trace.append(("seek", offset, whence, result))
        return result

    def tell(self):
        result = super().tell()
        self.trace.append(("tell", result))
        return result

    def read(self, size=-1):
        result = super().read(size)
        self.trace.append(("read", size, bytes(result)))
        return result


FAILURES = []


def check(condition, label):
    if not condition:
        FAILURES.append(label)
        if len(FAILURES) <= 20:
            print("MISMATCH:", label)


def outcome(f, *args):
    try:
        value = f(*args)
        return ("ok", type(value).__name__, value)
    except Exception as e:  # noqa - every exception is part of the behaviour
        return ("exc", type(e).__name__, str(e))


def make_data(n, seed):
    rng = random.Random(seed)
    return bytes(rng.randrange(256) for _ in range(n))


# ---------------------------------------------------------------- part 1
def part_direct():
    count = 0
    for width in (0, 1, 2, 3, 4, 5, 6):
        for size in range(0, 41):
            for data_len in (0, 1, size - 1, size, size + 3, 64):
                if data_len < 0:
                    continue
                for start in (0, 1, 5):
                    data = make_data(data_len, size * 131 + width)
                    results = []
                    for cls in (StreamReversed, OrigStreamReversed):
                        handle = TracedBytesIO(data)
                        handle.seek(start)
                        view = cls(handle, 64, sample_width=width)
                        got = outcome(view._read, size)
                        results.append(
                            (got, handle.trace, view.position, view.true_size)
                        )
                    check(
                        results[0] == results[1],
                        f"direct w={width} size={size} len={data_len} "
                        f"start={start}: {results[0][0]} != {results[1][0]}"
                    )
                    count += 1
    # odd arguments
    for bad in (None, "4", 4.0, -2, True):
        for width in (1, 2):
            results = []
            for cls in (StreamReversed, OrigStreamReversed):
                handle = TracedBytesIO(make_data(32, 7))
                view = cls(handle, 32, sample_width=width)
                results.append((outcome(view._read, bad), handle.trace))
            check(results[0] == results[1], f"direct odd size {bad!r} w={width}")
            count += 1
    return count


# ---------------------------------------------------------------- part 2
def run_program(cls, data, size, width, program):
    handle = TracedBytesIO(data)
    view = cls(handle, size, sample_width=width)
    log = []
    for op, arg, whence in program:
        if op == "read":
            log.append(outcome(view.read, arg))
        else:
            log.append(outcome(view.seek, arg, whence))
        log.append((view.position, view.true_size, view.tell()))
    return log, handle.trace


def part_programs():
    rng = random.Random(2024)
    count = 0
    for _ in range(1500):
        width = rng.choice((1, 1, 2, 2, 3, 4))
        frames = rng.randrange(0, 20)
        size = frames * width + rng.choice((0, 0, 0, 1))
        data = make_data(rng.choice((size, size, size + 4, max(0, size - 2))), rng.random())
        program = []
        for _ in range(rng.randrange(1, 9)):
            if rng.random() < 0.7:
                if rng.random() < 0.8:
                    arg = rng.randrange(0, 8) * width
                else:
                    arg = rng.choice((None, -1, 1, 3, 5, 7, 1000))
                program.append(("read", arg, None))
            else:
                program.append((
                    "seek",
                    rng.randrange(-3, 12) * rng.choice((1, width)),
                    rng.choice((0, 1, 2))
                ))
        a = run_program(StreamReversed, data, size, width, program)
        b = run_program(OrigStreamReversed, data, size, width, program)
        check(a == b, f"program w={width} size={size} {program}")
        count += 1
    return count


# ---------------------------------------------------------------- part 3
IMAGE = make_data(600, 99)
# (kind, offset in image, size, width)
WINDOWS = [
    ("rev", 40, 96, 2),
    ("rev", 200, 120, 3),
    ("fwd", 100, 90, 1),
]


def build_views(cls, handle):
    views = []
    for kind, offset, size, width in WINDOWS:
        window = StreamOffset(handle, size, offset)
        if kind == "rev":
            views.append(cls(window, size, sample_width=width))
        else:
            views.append(window)
    return views


def run_schedule(cls, schedule, block_sizes):
    handle = TracedBytesIO(IMAGE)
    views = build_views(cls, handle)
    got = [b"" for _ in views]
    for index in schedule:
        got[index] += views[index].read(block_sizes[index])
    return got, handle.trace


def isolated(cls, index, block_size, num_blocks):
    handle = TracedBytesIO(IMAGE)
    view = build_views(cls, handle)[index]
    result = b""
    for _ in range(num_blocks):
        result += view.read(block_size)
    return result


def oracle(index, nbytes):
    kind, offset, size, width = WINDOWS[index]
    window = IMAGE[offset:offset + size]
    if kind == "fwd":
        return window[:nbytes]
    samples = [window[i:i + width] for i in range(0, size, width)]
    return b"".join(reversed(samples))[:nbytes]


def part_schedules():
    count = 0
    block_sizes = [12, 18, 7]
    base = [0, 0, 1, 1, 2, 2]
    schedules = sorted(set(itertools.permutations(base)))
    for schedule in schedules:
        a = run_schedule(StreamReversed, schedule, block_sizes)
        b = run_schedule(OrigStreamReversed, schedule, block_sizes)
        check(a == b, f"schedule {schedule}: live != original")
        for index in range(3):
            alone = isolated(StreamReversed, index, block_sizes[index], 2)
            check(a[0][index] == alone, f"schedule {schedule}: stream {index} disturbed")
            check(alone == oracle(index, 2 * block_sizes[index]), f"oracle stream {index}")
        count += 1
    rng = random.Random(5)
    for _ in range(300):
        block_sizes = [2 * rng.randrange(1, 12), 3 * rng.randrange(1, 9), rng.randrange(1, 30)]
        blocks = [rng.randrange(0, 6) for _ in range(3)]
        schedule = [i for i in range(3) for _ in range(blocks[i])]
        rng.shuffle(schedule)
        a = run_schedule(StreamReversed, schedule, block_sizes)
        b = run_schedule(OrigStreamReversed, schedule, block_sizes)
        check(a == b, f"random schedule {schedule} {block_sizes}: live != original")
        for index in range(3):
            alone = isolated(StreamReversed, index, block_sizes[index], blocks[index])
            check(a[0][index] == alone, f"random schedule: stream {index} disturbed")
            check(
                alone == oracle(index, blocks[index] * block_sizes[index]),
                f"random oracle stream {index}"
            )
        count += 1
    return count


def main():
    n1 = part_direct()
    n2 = part_programs()
    n3 = part_schedules()
    print(f"direct calls: {n1}, programs: {n2}, schedules: {n3}")
    if FAILURES:
        print(f"{len(FAILURES)} mismatches")
        return 1
    print("all agree")
    return 0


if __name__ == "__main__":
    sys.exit(main())
