"""Equivalence demo for r6: CueSheetTrackAdapter.parse (smpl_extract/cuesheet.py).

An inline copy of the ORIGINAL track parse loop (and of the original
file/sheet drivers that call it) is compared against the module's
implementation on hand-written edge cases and on thousands of randomly
generated / corrupted cue sheets.  Compared: returned objects, the
remaining-lines list, the state of the caller's input list afterwards, and
the raised exception (type + message).
"""
import copy
import random
import sys

from smpl_extract import cuesheet as cs
from smpl_extract.cuesheet import BadCueSheet
from smpl_extract.cuesheet import CueSheetFile
from smpl_extract.cuesheet import CueSheetIndex
from smpl_extract.cuesheet import CueSheetTrack
from smpl_extract.cuesheet import get_nonempty_entry

_TRACK_LINE_REGEX = cs._TRACK_LINE_REGEX
_TITLE_LINE_REGEX = cs._TITLE_LINE_REGEX
_INDEX_LINE_REGEX = cs._INDEX_LINE_REGEX
_FILE_LINE_REGEX = cs._FILE_LINE_REGEX


# ---------------------------------------------------------------- originals
def original_track_parse(lines):
    text, lines = get_nonempty_entry(lines)
    if len(text) <= 0:
        raise BadCueSheet
    result = _TRACK_LINE_REGEX.match(text)
    if not result:
        raise BadCueSheet
    track_number = int(result.groups()[0])
    track_mode = result.groups()[1]
    track = CueSheetTrack(
        track_number,
        track_mode
    )

    while len(lines):
        text, lines = get_nonempty_entry(lines)
        if len(text) <= 0:
            break

        # Check if next track began
        result = _TRACK_LINE_REGEX.match(text)
        if result:
            lines = [text] + lines
            break

        # check known properties
        result = _INDEX_LINE_REGEX.match(text)
        if result:
            index_number = int(result.groups()[0])
            n_minutes = int(result.groups()[1])
            n_seconds = int(result.groups()[2])
            n_frames = int(result.groups()[3])
            index = CueSheetIndex(
                index_number,
                n_minutes,
                n_seconds,
                n_frames
            )
            track.indices.append(index)
            continue

        result = _TITLE_LINE_REGEX.match(text)
        if result:
            title = result.groups()[0]
            track.title = title
            continue

        track.unparsed.append(text)

    return track, lines


def original_file_parse(lines):
    text, lines = get_nonempty_entry(lines)
    if len(text) <= 0:
        raise BadCueSheet
    result = _FILE_LINE_REGEX.match(text)
    if not result:
        raise BadCueSheet

    bin_file_name = result.groups()[0]
    cue_sheet = CueSheetFile(bin_file_name)
    while len(lines):
        text, lines = get_nonempty_entry(lines)
        if len(text) <= 0:
            break
        lines = [text] + lines
        track, lines = original_track_parse(lines)
        if track:
            cue_sheet.tracks.append(track)

    return cue_sheet, lines


def original_parse_cue_sheet(lines):
    cue_sheet_files = []
    while len(lines):
        text, lines = get_nonempty_entry(lines)
        match_result = _FILE_LINE_REGEX.match(text)
        if match_result:
            lines = [text] + lines
            cue_sheet_file, lines = original_file_parse(lines)
            cue_sheet_files.append(cue_sheet_file)

    if len(cue_sheet_files) <= 0:
        raise BadCueSheet("No FILE entry")

    result = cue_sheet_files[0]
    return result


# ------------------------------------------------------------------ harness
def run(fn, lines):
    arg = copy.deepcopy(lines)
    try:
        out = ("ok", fn(arg))
    except RecursionError:
        out = ("exc", "RecursionError")
    except Exception as e:  # noqa: BLE001
        out = ("exc", type(e).__name__, str(e))
    return out, arg


failures = 0
cases = 0


def check(lines):
    global failures, cases
    for new_fn, old_fn in (
        (cs.CueSheetTrackAdapter.parse, original_track_parse),
        (cs.CueSheetFileAdapter.parse, original_file_parse),
        (cs.parse_cue_sheet, original_parse_cue_sheet),
    ):
        cases += 1
        new = run(new_fn, lines)
        old = run(old_fn, lines)
        if new != old or repr(new) != repr(old):
            failures += 1
            if failures <= 10:
                print("MISMATCH", getattr(new_fn, "__qualname__", new_fn), lines)
                print("  new:", new)
                print("  old:", old)


FIXED = [
    [],
    [""],
    ["", "  ", "\t"],
    ["TRACK 01 AUDIO"],
    ["  track 1 mode1/2352  "],
    ["TRACK 01 AUDIO", "INDEX 01 00:00:00"],
    ["TRACK 01 AUDIO", "  INDEX 00 00:00:00", "  INDEX 01 00:02:00", "TITLE \"x\""],
    ["TRACK 01 AUDIO", "TITLE \"a\"", "TITLE \"b\" TITLE \"c\""],
    ["TRACK 01 AUDIO", "INDEX 01 00:00:00 TITLE \"both\""],
    ["TRACK 01 AUDIO", "TITLE \"t\" INDEX 01 00:00:00"],
    ["TRACK 01 AUDIO", "TITLE \"\"", "TITLE \"unterminated"],
    ["TRACK 01 AUDIO", "INDEX 1 2:3", "INDEX 01 99:99:99:99", "INDEX x 0:0:0"],
    ["TRACK 01 AUDIO", "FLAGS DCP", "REM comment", "PERFORMER \"p\"", "", "ISRC 123"],
    ["TRACK 01 AUDIO", "INDEX 01 00:00:00", "TRACK 02 AUDIO", "INDEX 01 03:00:00"],
    ["TRACK 01 AUDIO", "", "", "TRACK 02 AUDIO"],
    ["TRACK 01 AUDIO", "INDEX 01 00:00:00", "", "TITLE \"after blank\""],
    ["TRACK AUDIO"],
    ["INDEX 01 00:00:00"],
    ["TITLE \"x\"", "TRACK 01 AUDIO"],
    ["FILE \"a.bin\" BINARY"],
    ["FILE \"a.bin\" BINARY", "TRACK 01 AUDIO", "INDEX 01 00:00:00"],
    ["FILE \"a.bin\" BINARY", "TITLE \"not a track\""],
    ["FILE \"a.bin\" BINARY", "TRACK 01 AUDIO", "FILE \"b.bin\" BINARY", "TRACK 02 AUDIO"],
    ["REM x", "FILE \"a.bin\" BINARY", "TRACK 01 AUDIO", "index 1 1:2:3", "title \"T\"",
     "TRACK 2 AUDIO", "INDEX 0 0:0:0", "INDEX 1 0:2:0"],
    ["FILE \"a.bin\" WAVE", "TRACK 01 AUDIO"],
    # unicode digits accepted by \d and int()
    ["TRACK ١٢ AUDIO", "INDEX ١ ٠:٢:٣"],
    # integer too long for int() -> ValueError in both
    ["TRACK 01 AUDIO", "INDEX 01 " + "9" * 5000 + ":00:00"],
    ["TRACK 01 AUDIO", "INDEX 01 00:" + "9" * 5000 + ":00", "TITLE \"never\""],
    ["TRACK " + "1" * 5000 + " AUDIO"],
    ["TRACK 01 AUDIO"] + ["INDEX %02d %02d:%02d:%02d" % (i, i, i % 60, i % 75) for i in range(99)],
]

TOKENS = [
    "", " ", "\t", "TRACK 01 AUDIO", "track 2 audio", "  TRACK 03 MODE1/2352", "TRACK", "TRACK xx AUDIO",
    "INDEX 00 00:00:00", "INDEX 01 00:02:00", "  index 1 12:34:56  ", "INDEX 01 00:00", "INDEX",
    "INDEX 01 0:0:0 extra", "TITLE \"Song\"", "title \"\"", "TITLE Song", "TITLE \"a\" \"b\"",
    "  TITLE \"x\" INDEX 01 0:0:0", "INDEX 01 0:0:0 TITLE \"x\"", "PERFORMER \"p\"", "REM hi", "FLAGS DCP",
    "FILE \"a.bin\" BINARY", "file \"b.bin\" binary", "FILE \"c.wav\" WAVE", "FILE", "garbage \x00\xff",
    "TITLE \"TRACK 09 AUDIO\"", "XTRACK 01 AUDIO", "INDEX 01 00:00:00 TRACK 5 AUDIO",
]

for lines in FIXED:
    check(lines)

rng = random.Random(130613)
for _ in range(6000):
    n = rng.randrange(0, 14)
    lines = [rng.choice(TOKENS) for _ in range(n)]
    # random character-level corruption of some lines
    if lines and rng.random() < 0.4:
        k = rng.randrange(len(lines))
        t = list(lines[k])
        if t:
            t[rng.randrange(len(t))] = rng.choice("\"0: TRACKIDXtle\n٣")
        lines[k] = "".join(t)
    # bias towards well-formed prefixes
    r = rng.random()
    if r < 0.35:
        lines = ["TRACK %02d AUDIO" % rng.randrange(100)] + lines
    elif r < 0.7:
        lines = ["FILE \"img.bin\" BINARY"] + lines
    check(lines)

print(f"{cases} cases, {failures} failures")
sys.exit(1 if failures else 0)
