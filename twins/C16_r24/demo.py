"""Equivalence demo for r24: determine_image_type (smpl_extract/actions.py).

An inline copy of the ORIGINAL function is re-bound to the globals of the
`smpl_extract.actions` module (types.FunctionType(code, actions.__dict__)),
so that it sees exactly the same collaborators as the live function.  While
a reference run is in progress `actions.determine_image_type` is pointed at
the copy, so the recursive call made by attempt_parse_cue_sheet stays inside
the reference implementation.

Part A (scripted collaborators): every name the function uses - open,
parse_text_file, attempt_parse_cue_sheet, is_mdf_image, is_mdx_image,
is_roland_s7xx_image, MdfStream, MdxStream, RolandSxxImageParser,
AkaiImageParser - is replaced by a logging stub that answers / raises
according to a random script.  The complete ordered event log (who was
called with which stream), the result and the exception must agree.

Part B (real collaborators, real files created in a fresh temp directory):
random binaries, empty files, MDF- and MDX-framed files, truncated headers,
ASCII text files that are not cue sheets, cue sheets with data / audio /
missing bin files.  Files are opened through a logging `open` that records
the mode and wraps the file object so that every read/seek/tell on the shared
stream is recorded in order; the logs, the kind of result, the wrapper chain
(`result.file` types), the stream position afterwards and the SHA-256 of
every file before/after must agree.  Streams are also passed in directly
(the non-str branch), positioned at a non-zero offset.
"""
import builtins
import hashlib
import io
import os
import random
import shutil
import sys
import tempfile
import types

import smpl_extract.actions as actions
from smpl_extract.actions import BadTextFile
from smpl_extract.cuesheet import BadCueSheet


# --------------------------------------------------------------------------
# inline copy of the ORIGINAL implementation (globals re-bound below)
# --------------------------------------------------------------------------
def determine_image_type(file):
    if isinstance(file, str):
        is_textfile = True
        lines = []
        try:
            lines = parse_text_file(file)
        except BadTextFile:
            is_textfile = False

        if is_textfile:
            parent_directory = os.path.dirname(file)
            try:
                result = attempt_parse_cue_sheet(lines, parent_directory)
                return result
            except BadCueSheet:
                pass

        file_stream = open(file, "rb")
    else:
        file_stream = file

    if is_mdf_image(file_stream):
        file_stream = MdfStream(file_stream)
    elif is_mdx_image(file_stream):
        file_stream = MdxStream(file_stream)

    if is_roland_s7xx_image(file_stream):
        result = RolandSxxImageParser(file_stream)
    else:
        result = AkaiImageParser(file_stream)
    return result


ORIGINAL = types.FunctionType(
    determine_image_type.__code__,
    actions.__dict__,
    "determine_image_type",
)
LIVE = actions.determine_image_type

PATCHED_NAMES = [
    "open", "parse_text_file", "attempt_parse_cue_sheet", "is_mdf_image",
    "is_mdx_image", "is_roland_s7xx_image", "MdfStream", "MdxStream",
    "RolandSxxImageParser", "AkaiImageParser", "determine_image_type",
]
_MISSING = object()
SAVED = {name: actions.__dict__.get(name, _MISSING) for name in PATCHED_NAMES}


def restore():
    for name, value in SAVED.items():
        if value is _MISSING:
            actions.__dict__.pop(name, None)
        else:
            actions.__dict__[name] = value


class Boom(Exception):
    pass


# ==========================================================================
# Part A - scripted collaborators
# ==========================================================================
class Thing:
    def __init__(self, tag):
        self.tag = tag

    def __repr__(self):
        return "<%s>" % self.tag


def tag_of(x):
    if isinstance(x, Thing):
        return x.tag
    if isinstance(x, (str, int, bool, type(None))):
        return repr(x)
    if isinstance(x, list):
        return [tag_of(i) for i in x]
    return type(x).__name__


def install_stubs(script, log):
    def answer(name, *args):
        log.append((name,) + tuple(tag_of(a) for a in args))
        behaviour = script.get(name, "default")
        if behaviour == "boom":
            raise Boom(name)
        return behaviour

    def stub_open(path, mode="r", *a, **kw):
        answer("open", path, mode, a, sorted(kw))
        return Thing("opened:" + path)

    def stub_parse_text_file(filename):
        b = answer("parse_text_file", filename)
        if b == "bad-text":
            raise BadTextFile()
        if b == "empty":
            return []
        return ["line 1\n", "line 2\n"]

    def stub_attempt(lines, directory=""):
        b = answer("attempt_parse_cue_sheet", lines, directory)
        if b == "bad-cue":
            raise BadCueSheet()
        if b == "none":
            return None
        if b == "falsy":
            return 0
        return Thing("cue-image")

    def probe(name):
        def stub(stream):
            b = answer(name, stream)
            if b == "default":
                return False
            if b == "truthy":
                return "yes"
            if b == "falsy":
                return ""
            return b
        return stub

    def wrapper(name):
        def stub(stream, *a, **kw):
            b = answer(name, stream, a, sorted(kw))
            if b == "none":
                return None
            return Thing("%s(%s)" % (name, tag_of(stream)))
        return stub

    actions.open = stub_open
    actions.parse_text_file = stub_parse_text_file
    actions.attempt_parse_cue_sheet = stub_attempt
    actions.is_mdf_image = probe("is_mdf_image")
    actions.is_mdx_image = probe("is_mdx_image")
    actions.is_roland_s7xx_image = probe("is_roland_s7xx_image")
    actions.MdfStream = wrapper("MdfStream")
    actions.MdxStream = wrapper("MdxStream")
    actions.RolandSxxImageParser = wrapper("RolandSxxImageParser")
    actions.AkaiImageParser = wrapper("AkaiImageParser")


def make_script(rng):
    script = {}
    script["parse_text_file"] = rng.choice(
        ["default", "default", "bad-text", "empty", "boom"])
    script["attempt_parse_cue_sheet"] = rng.choice(
        ["default", "bad-cue", "bad-cue", "none", "falsy", "boom"])
    for name in ("is_mdf_image", "is_mdx_image", "is_roland_s7xx_image"):
        script[name] = rng.choice(
            [True, False, False, "truthy", "falsy", 0, 1, None, "boom"])
    for name in ("MdfStream", "MdxStream", "RolandSxxImageParser",
                 "AkaiImageParser"):
        script[name] = rng.choice(["default", "default", "none", "boom"])
    script["open"] = rng.choice(["default", "default", "default", "boom"])
    return script


INPUTS = ["plain:img.bin", "plain:dir/sub/disc.cue", "plain:", "stream",
          "none", "bytes", "int", "strsub"]


class StrSub(str):
    pass


def make_input(kind):
    if kind.startswith("plain:"):
        return kind[len("plain:"):]
    if kind == "stream":
        return Thing("given-stream")
    if kind == "none":
        return None
    if kind == "bytes":
        return b"img.bin"
    if kind == "int":
        return 3
    if kind == "strsub":
        return StrSub("sub.img")
    raise AssertionError(kind)


def run_scripted(fn, script, kind):
    log = []
    install_stubs(script, log)
    actions.determine_image_type = fn
    try:
        try:
            value = fn(make_input(kind))
            outcome = ("value", tag_of(value))
        except Exception as e:  # noqa: BLE001 - compare whatever comes
            outcome = ("error", type(e).__name__, str(e))
    finally:
        restore()
    return outcome, log


def part_a():
    rng = random.Random(2424)
    failures = 0
    n = 0
    # exhaustive over the probe answers that steer the control flow
    steer = [True, False, "boom"]
    for mdf in steer:
        for mdx in steer:
            for rol in steer:
                for ptf in ("default", "bad-text"):
                    for cue in ("default", "bad-cue"):
                        for kind in INPUTS:
                            script = {
                                "is_mdf_image": mdf, "is_mdx_image": mdx,
                                "is_roland_s7xx_image": rol,
                                "parse_text_file": ptf,
                                "attempt_parse_cue_sheet": cue,
                            }
                            a = run_scripted(LIVE, script, kind)
                            b = run_scripted(ORIGINAL, script, kind)
                            n += 1
                            if a != b:
                                failures += 1
                                if failures <= 5:
                                    print("MISMATCH A", script, kind, a, b)
    for _ in range(6000):
        script = make_script(rng)
        kind = rng.choice(INPUTS)
        a = run_scripted(LIVE, script, kind)
        b = run_scripted(ORIGINAL, script, kind)
        n += 1
        if a != b:
            failures += 1
            if failures <= 5:
                print("MISMATCH A", script, kind, a, b)
    return failures, n


# ==========================================================================
# Part B - real collaborators on real files
# ==========================================================================
class LoggedFile:
    """Wraps a real binary file object; records every stream operation."""

    def __init__(self, raw, log, tag):
        self._raw = raw
        self._log = log
        self._tag = tag

    def read(self, *args):
        data = self._raw.read(*args)
        self._log.append((self._tag, "read", args, len(data)))
        return data

    def seek(self, *args):
        pos = self._raw.seek(*args)
        self._log.append((self._tag, "seek", args, pos))
        return pos

    def tell(self):
        pos = self._raw.tell()
        self._log.append((self._tag, "tell", pos))
        return pos

    def __getattr__(self, name):
        self._log.append((self._tag, "getattr", name))
        return getattr(self._raw, name)


def sha(path):
    with builtins.open(path, "rb") as f:
        return hashlib.sha256(f.read()).hexdigest()


def describe_result(value):
    chain = []
    node = value
    for _ in range(6):
        chain.append(type(node).__name__)
        nxt = None
        for attr in ("file", "_parent_stream", "parent_stream", "_stream",
                     "stream", "_raw"):
            if attr in getattr(node, "__dict__", {}):
                nxt = node.__dict__[attr]
                break
        if nxt is None:
            break
        node = nxt
    extra = {}
    for attr in ("file_size", "_partitions_loaded_flag", "name", "type_name"):
        if hasattr(value, attr):
            extra[attr] = getattr(value, attr)
    return chain, extra


def run_real(fn, arg_kind, path, workdir, offset):
    log = []
    opened = []

    def logging_open(file, mode="r", *a, **kw):
        log.append(("open", os.path.relpath(file, workdir), mode, a,
                    sorted(kw.items())))
        raw = builtins.open(file, mode, *a, **kw)
        opened.append(raw)
        if "b" in mode:
            return LoggedFile(raw, log, "f%d" % len(opened))
        return raw

    actions.open = logging_open
    actions.determine_image_type = fn
    before = {p: sha(os.path.join(workdir, p))
              for p in sorted(os.listdir(workdir))}
    try:
        try:
            if arg_kind == "path":
                value = fn(path)
            else:
                raw = builtins.open(path, "rb")
                opened.append(raw)
                raw.seek(offset)
                value = fn(LoggedFile(raw, log, "given"))
            outcome = ("value",) + describe_result(value)
        except Exception as e:  # noqa: BLE001 - compare whatever comes
            outcome = ("error", type(e).__name__,
                       str(e).replace(workdir, "<tmp>"))
        positions = [None if f.closed else
                     (f.tell() if "b" in f.mode else "text") for f in opened]
        modes = [f.mode for f in opened]
    finally:
        restore()
        for f in opened:
            f.close()
    after = {p: sha(os.path.join(workdir, p))
             for p in sorted(os.listdir(workdir))}
    return outcome, log, positions, modes, before == after, sorted(after)


MDF_MAGIC = b"\x00" + b"\xFF" * 10 + b"\x00"
MDX_MAGIC = b"MEDIA\x20DESCRIPTOR"


def build_files(workdir, rng):
    files = {}

    def put(name, data):
        with builtins.open(os.path.join(workdir, name), "wb") as f:
            f.write(data)
        files[name] = data

    put("empty.img", b"")
    put("one.img", b"\x00")
    put("zeros.img", bytes(4096))
    put("random_small.img", rng.randbytes(100))
    put("random_big.img", rng.randbytes(70000))
    put("highbit.img", bytes([0x80 | b for b in rng.randbytes(3000)]))
    # MDF framed: valid first sector header, a few sectors
    sector = MDF_MAGIC + b"\x00\x02\x00" + b"\x01" + rng.randbytes(2048) \
        + bytes(288)
    put("good.mdf", sector * 3)
    put("short.mdf", MDF_MAGIC + b"\x00\x02\x00\x01")
    put("truncated_magic.mdf", MDF_MAGIC[:7])
    put("badmode.mdf", MDF_MAGIC + b"\x00\x02\x00\x02" + bytes(3000))
    # MDX framed
    mdx_header = (MDX_MAGIC + b"\x02\x01" + b"\xA9" + b" " * 25
                  + b"\xFF" * 4 + (64 + 5000).to_bytes(8, "little")
                  + bytes(8))
    put("good.mdx", mdx_header + rng.randbytes(5000))
    put("badcopyright.mdx", MDX_MAGIC + b"\x02\x01" + b" " * 26
        + b"\xFF" * 4 + bytes(16) + rng.randbytes(100))
    put("short.mdx", MDX_MAGIC + b"\x02")
    put("eof_small.mdx", MDX_MAGIC + b"\x02\x01" + b"\xA9" + b" " * 25
        + b"\xFF" * 4 + (10).to_bytes(8, "little") + bytes(8) + bytes(50))
    # ASCII text that is not a cue sheet
    put("notes.txt", b"hello world\nsecond line\n")
    put("ascii_binaryish.img", bytes(rng.randrange(0, 128)
                                     for _ in range(5000)))
    put("blank.txt", b"\n\n   \n")
    # cue sheets
    put("data.cue", b'FILE "zeros.img" BINARY\n  TRACK 01 MODE1/2352\n'
                    b'    INDEX 01 00:00:00\n')
    put("data_mdf.cue", b'FILE "good.mdf" BINARY\n  TRACK 01 MODE1/2352\n'
                        b'    INDEX 01 00:00:00\n')
    put("data_mdx.cue", b'file "good.mdx" binary\n  track 01 mode2/2352\n')
    put("missing_bin.cue", b'FILE "nothing_here.bin" BINARY\n'
                           b'  TRACK 01 MODE1/2352\n')
    put("audio.cue", b'FILE "random_big.img" BINARY\n  TRACK 01 AUDIO\n'
                     b'    TITLE "one"\n    INDEX 01 00:00:00\n'
                     b'  TRACK 02 AUDIO\n    INDEX 01 00:00:10\n')
    put("audio_missing.cue", b'FILE "gone.bin" BINARY\n  TRACK 01 AUDIO\n'
                             b'    INDEX 01 00:00:00\n')
    put("mixed.cue", b'FILE "random_small.img" BINARY\n  TRACK 01 AUDIO\n'
                     b'  TRACK 02 MODE1/2352\n')
    put("notracks.cue", b'FILE "zeros.img" BINARY\n')
    put("nofile.cue", b'TRACK 01 AUDIO\n')
    put("selfref.cue", b'FILE "notes.txt" BINARY\n  TRACK 01 MODE1/2048\n')
    for i in range(25):
        head = rng.choice([b"", MDF_MAGIC, MDF_MAGIC + b"\x00\x00\x10\x01",
                           MDX_MAGIC, MDX_MAGIC + b"\x02\x01\xA9",
                           b"\x00" * 16, rng.randbytes(16)])
        put("fuzz%02d.img" % i, head + rng.randbytes(rng.choice(
            [0, 1, 15, 16, 63, 64, 500, 2352, 5000, 40000])))
    return files


def part_b():
    rng = random.Random(4242)
    failures = 0
    n = 0
    workdir = tempfile.mkdtemp(prefix="r24_demo_")
    try:
        files = build_files(workdir, rng)
        for name in sorted(files):
            path = os.path.join(workdir, name)
            cases = [("path", 0), ("stream", 0)]
            size = len(files[name])
            for offset in (1, 16, size // 2, size, size + 10):
                cases.append(("stream", offset))
            for arg_kind, offset in cases:
                a = run_real(LIVE, arg_kind, path, workdir, offset)
                b = run_real(ORIGINAL, arg_kind, path, workdir, offset)
                n += 1
                if a != b:
                    failures += 1
                    if failures <= 5:
                        print("MISMATCH B", name, arg_kind, offset)
                        print("  live:", a)
                        print("  ref :", b)
                if not a[4]:
                    failures += 1
                    print("image file modified!", name)
        # a path that does not exist, a directory
        for path in (os.path.join(workdir, "does_not_exist.img"), workdir):
            a = run_real(LIVE, "path", path, workdir, 0)
            b = run_real(ORIGINAL, "path", path, workdir, 0)
            n += 1
            if a != b:
                failures += 1
                print("MISMATCH B (bad path)", path, a, b)
    finally:
        shutil.rmtree(workdir, ignore_errors=True)
    return failures, n


def main():
    try:
        fa, na = part_a()
        fb, nb = part_b()
    finally:
        restore()
    # the module must look the same from outside
    if actions.determine_image_type is not LIVE:
        print("restore failed")
        return 1
    if fa or fb:
        print("FAILED: part A %d/%d, part B %d/%d mismatches"
              % (fa, na, fb, nb))
        return 1
    print("OK: part A %d scripted cases, part B %d real-file cases agree"
          % (na, nb))
    return 0


if __name__ == "__main__":
    sys.exit(main())
