"""Equivalence demo for r11: smpl_extract.actions.determine_image_type.

An inline copy of the ORIGINAL function is compiled with the globals of the
live smpl_extract.actions module, so both versions see the same (optionally
instrumented) collaborators.

  A. traced: parse_text_file, attempt_parse_cue_sheet, os.path.dirname, open,
     is_mdf_image, is_mdx_image, is_roland_s7xx_image and the four
     parser/stream constructors are replaced by scripted recorders.  Every
     combination of scripted behaviours (text / BadTextFile / other exception
     from parse_text_file; result / BadCueSheet / BadTextFile / other
     exception from attempt_parse_cue_sheet; open failing; each image type)
     is run through both versions; the ordered call trace, the result and
     the exception (type, message) must be identical.
  B. real: nothing is stubbed; cue sheets (audio, data, mixed, broken), text
     files, binary files, missing files and already opened streams are given
     to both versions and the resulting image (type, tracks, titles, sample
     counts, PCM of every track) or the exception must be identical.
  C. a cue/bin pair is exported to WAV and the PCM checked against the bin.
Exit 0 on full agreement, 1 otherwise.
"""
import builtins
import hashlib
import io
import itertools
import os
import random
import shutil
import sys
import tempfile

from smpl_extract import actions
from smpl_extract.akai.image import AkaiImageParser
from smpl_extract.cdda.image import CompactDiskAudioImage
from smpl_extract.cuesheet import BadCueSheet


ORIGINAL_SOURCE = '''
def original_determine_image_type(file):
    if isinstance(file, str):
        is_textfile = True
        lines = []
        try:
            lines = parse_text_file(file)
        except BadTextFile:
            is_textfile = False

        if is_textfile:
            parent_directory = os.path.dirname(file)
            try:
                result = attempt_parse_cue_sheet(lines, parent_directory)
                return result
            except BadCueSheet:
                pass

        file_stream = open(file, "rb")
    else:
        file_stream = file

    if is_mdf_image(file_stream):
        file_stream = MdfStream(file_stream)
    elif is_mdx_image(file_stream):
        file_stream = MdxStream(file_stream)

    if is_roland_s7xx_image(file_stream):
        result = RolandSxxImageParser(file_stream)
    else:
        result = AkaiImageParser(file_stream)
    return result
'''
_namespace = {}
exec(compile(ORIGINAL_SOURCE, "<original>", "exec"), actions.__dict__,
     _namespace)
original_determine_image_type = _namespace["original_determine_image_type"]


# ---------------------------------------------------------------- traced
class Labelled:
    def __init__(self, label, payload=None):
        self.label = label
        self.payload = payload

    def __repr__(self):
        return "<%s %r>" % (self.label, self.payload)


class CustomError(Exception):
    pass


def make_exception(name):
    return {
        "BadTextFile": actions.BadTextFile,
        "BadCueSheet": BadCueSheet,
        "Custom": CustomError,
        "OSError": FileNotFoundError,
        "KeyError": KeyError,
    }[name]("scripted " + name)


class _PathShim:
    def __init__(self, events):
        self._events = events

    def dirname(self, *args, **kwargs):
        result = os.path.dirname(*args, **kwargs)
        self._events.append(("dirname", args, kwargs, result))
        return result

    def __getattr__(self, name):
        return getattr(os.path, name)


class _OsShim:
    def __init__(self, events):
        self.path = _PathShim(events)

    def __getattr__(self, name):
        return getattr(os, name)


STUBBED = ("os", "parse_text_file", "attempt_parse_cue_sheet", "is_mdf_image",
           "is_mdx_image", "is_roland_s7xx_image", "MdfStream", "MdxStream",
           "RolandSxxImageParser", "AkaiImageParser")


def run_traced(func, file_argument, script):
    """script: dict with keys text, cue, open, mdf, mdx, roland."""
    events = []
    saved = {name: actions.__dict__[name] for name in STUBBED}
    had_open = "open" in actions.__dict__

    def scripted(kind, args, kwargs, behaviour, value):
        events.append((kind, repr(args), repr(sorted(kwargs.items()))))
        if behaviour.startswith("raise:"):
            raise make_exception(behaviour[6:])
        return value

    def parse_text_file(*args, **kwargs):
        return scripted("parse_text_file", args, kwargs, script["text"],
                        ["FILE \"x.bin\" BINARY\n", "TRACK 01 AUDIO\n"])

    def attempt_parse_cue_sheet(*args, **kwargs):
        return scripted("attempt_parse_cue_sheet", args, kwargs,
                        script["cue"], Labelled("cue-image"))

    def traced_open(*args, **kwargs):
        return scripted("open", args, kwargs, script["open"],
                        Labelled("opened", args))

    def predicate(name):
        def inner(*args, **kwargs):
            return scripted(name, args, kwargs, "ok", script[name])
        return inner

    def constructor(name):
        def inner(*args, **kwargs):
            return scripted(name, args, kwargs, script.get(name, "ok"),
                            Labelled(name, args))
        return inner

    actions.os = _OsShim(events)
    actions.parse_text_file = parse_text_file
    actions.attempt_parse_cue_sheet = attempt_parse_cue_sheet
    actions.open = traced_open
    actions.is_mdf_image = predicate("mdf")
    actions.is_mdx_image = predicate("mdx")
    actions.is_roland_s7xx_image = predicate("roland")
    for name in ("MdfStream", "MdxStream", "RolandSxxImageParser",
                 "AkaiImageParser"):
        setattr(actions, name, constructor(name))
    try:
        try:
            result = func(file_argument)
            outcome = ("OK", repr(result))
        except Exception as e:
            outcome = ("EXC", type(e).__name__, str(e),
                       type(e.__cause__).__name__,
                       type(e.__context__).__name__)
    finally:
        for name, value in saved.items():
            setattr(actions, name, value)
        if not had_open:
            del actions.open
    return outcome, events


class StrSubclass(str):
    pass


def traced_cases():
    failures = 0
    count = 0
    file_arguments = [
        "disc.cue", "some/dir/disc.cue", "/abs/path/image.img", "", "a.bin",
        StrSubclass("sub/class.cue"),
        Labelled("stream"), io.BytesIO(b"abc"), None, 5, b"bytes.cue",
    ]
    text_behaviours = ["ok", "raise:BadTextFile", "raise:BadCueSheet",
                       "raise:Custom", "raise:OSError"]
    cue_behaviours = ["ok", "raise:BadCueSheet", "raise:BadTextFile",
                      "raise:Custom", "raise:KeyError"]
    open_behaviours = ["ok", "raise:OSError", "raise:BadTextFile",
                       "raise:BadCueSheet"]
    flags = [(False, False, False), (True, False, False),
             (False, True, False), (True, True, True), (False, False, True),
             (0, "", None), (1, 0, 1)]
    extra = [{}, {"AkaiImageParser": "raise:BadCueSheet"},
             {"MdfStream": "raise:BadTextFile"}]
    for file_argument, text, cue, opening, flag, more in itertools.product(
            file_arguments, text_behaviours, cue_behaviours, open_behaviours,
            flags, extra):
        script = dict(text=text, cue=cue, open=opening, mdf=flag[0],
                      mdx=flag[1], roland=flag[2])
        script.update(more)
        expected = run_traced(original_determine_image_type, file_argument,
                              script)
        actual = run_traced(actions.determine_image_type, file_argument,
                            script)
        count += 1
        if expected != actual:
            failures += 1
            if failures < 10:
                print("MISMATCH (traced)", repr(file_argument), script)
                print("   expected", expected)
                print("   actual  ", actual)
    return count, failures


# ------------------------------------------------------------------ real
def describe_image(image):
    if isinstance(image, CompactDiskAudioImage):
        tracks = []
        for track in image.tracks:
            ds = track._data_stream
            pcm = b""
            if ds.end_of_file >= 0:
                ds.seek(0, os.SEEK_SET)
                pcm = ds.read(None)
            tracks.append((
                track.title, track.num_audio_samples, list(track._path),
                ds.offset, ds.end_of_file, hashlib.sha1(pcm).hexdigest(),
                len(pcm), ds.substream.name, ds.substream.mode,
            ))
        streams = {id(t._data_stream.substream): t._data_stream.substream
                   for t in image.tracks}
        for stream in streams.values():
            stream.close()
        return ("CDDA", len(streams), tracks)
    if isinstance(image, AkaiImageParser):
        description = ("AKAI", type(image.file).__name__,
                       getattr(image.file, "name", None),
                       getattr(image.file, "mode", None), image.file_size,
                       image.file.tell())
        if not isinstance(image.file, io.BytesIO):
            image.file.close()
        return description
    return (type(image).__name__,)


def run_real(func, file_argument):
    opened = []
    real_open = builtins.open

    def counting_open(*args, **kwargs):
        stream = real_open(*args, **kwargs)
        opened.append((args, tuple(sorted(kwargs.items()))))
        return stream

    had_open = "open" in actions.__dict__
    actions.open = counting_open
    try:
        try:
            result = func(file_argument)
        except Exception as e:
            return ("EXC", type(e).__name__, str(e), opened)
    finally:
        if not had_open:
            del actions.open
    return ("OK", describe_image(result), opened)


def msf(total):
    return "%02d:%02d:%02d" % (total // 4500, (total // 75) % 60, total % 75)


def make_cue(rng, bin_name):
    lines = []
    if rng.random() < 0.1:
        lines.append("REM generated\n")
    if rng.random() < 0.93:
        lines.append("FILE \"%s\" BINARY\n" % bin_name)
    position = rng.randint(0, 2)
    flavour = rng.choice(["audio", "audio", "audio", "mixed", "data"])
    for t in range(rng.randint(0, 6)):
        if flavour == "audio":
            mode = rng.choice(["AUDIO", "AUDIO", "audio", "Audio"])
        elif flavour == "data":
            mode = rng.choice(["MODE1/2352", "MODE2/2336"])
        else:
            mode = rng.choice(["AUDIO", "MODE1/2352", "audio", "CDG"])
        lines.append("  TRACK %02d %s\n" % (t+1, mode))
        if rng.random() < 0.5:
            lines.append("    TITLE \"%s\"\n" % rng.choice(
                ["One", "Two", "Same", "a/b", ""]))
        for k in range(rng.choice([0, 1, 1, 1, 2])):
            lines.append("    INDEX %02d %s\n" % (k, msf(position)))
            position += rng.choice([0, 1, 1, 2, 3])
    if rng.random() < 0.05:
        lines.append("GARBAGE\nTRACK 01 AUDIO\n")
    return lines


def real_cases():
    failures = 0
    count = 0
    rng = random.Random(0xC0311)
    base = tempfile.mkdtemp(prefix="r11demo_")
    saved_cwd = os.getcwd()
    try:
        os.chdir(base)
        os.mkdir(os.path.join(base, "sub"))
        bins = {}
        for name, n_sectors, tail in [
            ("empty.bin", 0, 0), ("one.bin", 1, 0), ("odd.bin", 5, 3),
            ("big.bin", 14, 0), ("tail.bin", 9, 1177),
            (os.path.join("sub", "inner.bin"), 4, 2),
        ]:
            data = bytes(
                rng.getrandbits(8) for _ in range(n_sectors*2352 + tail))
            with open(os.path.join(base, name), "wb") as f:
                f.write(data)
            bins[name] = data
        names = ["empty.bin", "one.bin", "odd.bin", "big.bin", "tail.bin",
                 "inner.bin", "missing.bin", ""]

        paths = []
        for number in range(250):
            directory = rng.choice([base, base, os.path.join(base, "sub")])
            path = os.path.join(directory, "case%03d.cue" % number)
            with open(path, "w", encoding="ascii") as f:
                f.writelines(make_cue(rng, rng.choice(names)))
            paths.append(path)
            if number % 25 == 0:
                paths.append(os.path.relpath(path, base))
        # text that is not a cue sheet, binary, empty, directory, missing
        specials = {
            "notes.txt": b"just some\nascii text\n",
            "empty.txt": b"",
            "latin.cue": "FILE \"one.bin\" BINARY\nTITLE \"\xe9\"\n"
                         .encode("latin-1"),
            "nul.cue": b"FILE \"one.bin\" BINARY\n\x00\x01\n",
        }
        for name, content in specials.items():
            with open(os.path.join(base, name), "wb") as f:
                f.write(content)
            paths.append(os.path.join(base, name))
        paths += [os.path.join(base, name) for name in bins]
        paths += [os.path.join(base, "does-not-exist.cue"), base, "",
                  "one.bin", os.path.join("sub", "inner.bin")]

        for path in paths:
            expected = run_real(original_determine_image_type, path)
            actual = run_real(actions.determine_image_type, path)
            count += 1
            if expected != actual:
                failures += 1
                print("MISMATCH (real)", path)
                print("   expected", expected)
                print("   actual  ", actual)

        # already opened streams and other non-str arguments
        for data in list(bins.values()) + [b"", b"FILE \"one.bin\" BINARY\n"]:
            expected = run_real(original_determine_image_type,
                                io.BytesIO(data))
            actual = run_real(actions.determine_image_type, io.BytesIO(data))
            count += 1
            if expected != actual:
                failures += 1
                print("MISMATCH (real stream)", len(data), expected, actual)
        for odd in (None, 5, b"one.bin"):
            expected = run_real(original_determine_image_type, odd)
            actual = run_real(actions.determine_image_type, odd)
            count += 1
            if expected != actual:
                failures += 1
                print("MISMATCH (real odd)", odd, expected, actual)

        # C. export
        cue_path = os.path.join(base, "disc.cue")
        with open(cue_path, "w", encoding="ascii") as f:
            f.write(
                "FILE \"tail.bin\" BINARY\n"
                "  TRACK 01 AUDIO\n    INDEX 01 00:00:01\n"
                "  TRACK 02 AUDIO\n    TITLE \"Two\"\n"
                "    INDEX 00 00:00:03\n    INDEX 01 00:00:04\n"
                "  TRACK 03 AUDIO\n    INDEX 01 00:00:07\n"
            )
        destination = os.path.join(base, "out")
        os.mkdir(destination)
        actions.export_samples_to_wav(cue_path, destination)
        found = []
        for root, _dirs, files in sorted(os.walk(destination)):
            for name in sorted(files):
                with open(os.path.join(root, name), "rb") as f:
                    found.append(f.read())
        data = bins["tail.bin"]
        windows = [
            data[1*2352:3*2352], data[3*2352:7*2352],
            data[7*2352:len(data) - ((len(data) - 7*2352) % 4)],
        ]
        if sorted(blob[44:] for blob in found) != sorted(windows):
            failures += 1
            print("MISMATCH (export)", [len(blob) for blob in found])
        count += 1
    finally:
        os.chdir(saved_cwd)
        shutil.rmtree(base, ignore_errors=True)
    return count, failures


def main():
    n_traced, f_traced = traced_cases()
    n_real, f_real = real_cases()
    print("traced cases:", n_traced, "real cases:", n_real,
          "failures:", f_traced + f_real)
    return 1 if f_traced + f_real else 0


if __name__ == "__main__":
    sys.exit(main())
