"""Equivalence demo for r16 (smpl_extract/alcohol/mdx.py MdxStream).

The ORIGINAL body of MdxStream is pasted below (it uses the module's own
MdxHeaderConstruct and StreamOffset).  Both versions are called on twin
recording images:
  * well-formed MDX descriptors followed by random content, with the `eof`
    field equal to / smaller than / larger than the real file length, smaller
    than the descriptor itself (negative window) and 0;
  * the image cursor at 0 or somewhere else when MdxStream is called (the
    descriptor is parsed at the cursor), position / buffer_length given or
    defaulted, positionally or by keyword;
  * damaged descriptors: wrong magic, wrong copyright byte, truncated at every
    length 0..63, empty image  (exception type and text compared).
Compared: type and attributes of the returned view (offset, end_of_file,
position, buffer_length, true_size, substream identity), the ordered log of
tell/seek/read calls on the image during construction, and then the values,
exceptions, cursor and image log of exhaustive short and long random
seek/tell/read histories on the two views; reads are also checked against the
logical content image[64:eof].
Exit 0 = all agree, 1 = mismatch.
"""
import itertools
import random
import struct
import sys
from io import BytesIO, IOBase, SEEK_CUR, SEEK_END, SEEK_SET

from smpl_extract.alcohol.mdx import MdxHeaderConstruct
from smpl_extract.alcohol.mdx import MdxStream
from smpl_extract.alcohol.mdx import is_mdx_image
from smpl_extract.util.stream import StreamOffset


def OrigMdxStream(
        parent_stream: IOBase,
        position: int = 0,
        buffer_length: int = 0x1000
    ):
    """Original, verbatim."""
    header = MdxHeaderConstruct.parse_stream(parent_stream)  # type: ignore
    offset = MdxHeaderConstruct.sizeof()
    size = header.eof - offset
    result = StreamOffset(
        parent_stream,
        size,
        offset,
        position=position,
        buffer_length=buffer_length
    )
    return result


class Image(BytesIO):
    def __init__(self, data):
        super().__init__(data)
        self.log = []

    def tell(self):
        r = super().tell()
        self.log.append(("tell", r))
        return r

    def seek(self, *a):
        r = super().seek(*a)
        self.log.append(("seek", a, r))
        return r

    def read(self, *a):
        r = super().read(*a)
        self.log.append(("read", a, r))
        return r


def descriptor(eof, version=b"\x02\x01", copyright_=None, fill=b"\xFF" * 4, tail=bytes(8)):
    if copyright_ is None:
        copyright_ = b"\xA9" + b"\x20" * 25
    d = b"MEDIA\x20DESCRIPTOR" + version + copyright_ + fill + struct.pack("<Q", eof) + tail
    assert len(d) == 64
    return d


def call(fn, *a, **k):
    try:
        return ("ok", fn(*a, **k))
    except Exception as e:  # noqa: BLE001
        return ("exc", type(e).__name__, str(e))


def view_state(v):
    return (type(v), v.offset, v.end_of_file, v.position, v.buffer_length, v.true_size)


def apply(view, op):
    if op[0] == "seek":
        return call(view.seek, op[1], op[2])
    if op[0] == "tell":
        return call(view.tell)
    return call(view.read, op[1])


def compare(data, cursor, args, kwargs, histories, label, logical=None):
    """Build both views over twin images, then run every history on fresh twins."""
    ok = True
    for ops in histories:
        img_new, img_old = Image(data), Image(data)
        BytesIO.seek(img_new, cursor)
        BytesIO.seek(img_old, cursor)
        r_new = call(MdxStream, img_new, *args, **kwargs)
        r_old = call(OrigMdxStream, img_old, *args, **kwargs)
        same = r_new[0] == r_old[0] and img_new.log == img_old.log
        same = same and BytesIO.tell(img_new) == BytesIO.tell(img_old)
        if r_new[0] == "exc":
            same = same and r_new == r_old
            if not same:
                print("MISMATCH", label, cursor, args, kwargs, r_new, r_old)
            ok &= same
            continue
        v_new, v_old = r_new[1], r_old[1]
        same = same and view_state(v_new) == view_state(v_old)
        same = same and type(v_new) is StreamOffset
        same = same and v_new.substream is img_new and v_old.substream is img_old
        if not same:
            print("MISMATCH build", label, cursor, args, kwargs, view_state(v_new), view_state(v_old))
            ok = False
            continue
        for i, op in enumerate(ops):
            before = v_new.position
            o_new, o_old = apply(v_new, op), apply(v_old, op)
            good = (o_new == o_old and view_state(v_new) == view_state(v_old)
                    and img_new.log == img_old.log)
            if (good and logical is not None and op[0] == "read" and o_new[0] == "ok"
                    and 0 <= before <= len(logical)):
                want = logical[before:] if op[1] is None or op[1] < 0 else logical[before:before + op[1]]
                good = o_new[1] == want
            if not good:
                print("MISMATCH history", label, cursor, args, kwargs, i, op, o_new, o_old)
                ok = False
                break
    return ok


def random_history(rng, span):
    ops = []
    for _ in range(rng.randint(1, 25)):
        kind = rng.choice(["seek", "read", "read", "tell"])
        if kind == "seek":
            ops.append(("seek", rng.randint(-5, span + 5), rng.choice([SEEK_SET, SEEK_CUR, SEEK_END])))
        elif kind == "read":
            ops.append(("read", rng.choice([0, 1, 2, 3, 7, 16, span, span + 3, None, -1])))
        else:
            ops.append(("tell",))
    return ops


def main():
    ok = True
    count = 0
    rng = random.Random(1616)
    assert MdxHeaderConstruct.sizeof() == 64

    alphabet = [("read", 0), ("read", 1), ("read", 4), ("read", 100), ("read", None),
                ("seek", 0, SEEK_SET), ("seek", 2, SEEK_CUR), ("seek", -1, SEEK_END), ("tell",)]
    short_histories = [list(h) for h in itertools.product(alphabet, repeat=3)]

    # (1) well-formed descriptor, exact eof, tiny contents: exhaustive short histories
    for n in (1, 2, 5, 9):
        content = bytes(rng.randrange(256) for _ in range(n))
        data = descriptor(64 + n) + content
        assert is_mdx_image(BytesIO(data))
        ok &= compare(data, 0, (), {}, short_histories, "exact", content)
        count += len(short_histories)

    # (2) eof variants / cursor variants / argument variants, random histories
    for trial in range(1200):
        n = rng.randint(0, 300)
        content = bytes(rng.randrange(256) for _ in range(n))
        eof = rng.choice([64 + n, 64 + n, 64 + rng.randint(0, n), 64 + n + rng.randint(1, 50),
                          64, rng.randint(0, 63), 0, 2 ** 40])
        lead = rng.choice([0, 0, 0, rng.randint(1, 20)])
        data = bytes(rng.randrange(256) for _ in range(lead)) + descriptor(
            eof,
            version=rng.choice([b"\x02\x01", b"\x00\x00", b"\x09\x09"]),
            fill=rng.choice([b"\xFF" * 4, bytes(4), b"abcd"]),
            tail=rng.choice([bytes(8), b"12345678"]),
        ) + content
        cursor = lead
        form = rng.randrange(5)
        pos = rng.randint(-3, n + 3)
        bl = rng.choice([1, 2, 7, 64, 0x1000])
        args, kwargs = [(), (pos,), (pos, bl), (), ()][form], \
            [{}, {}, {}, {"position": pos}, {"buffer_length": bl, "position": pos}][form]
        # logical content only meaningful when the descriptor sits at the image start
        logical = content[:eof - 64] if (lead == 0 and 64 < eof <= 64 + n) else None
        histories = [random_history(rng, max(0, min(eof - 64, n))) for _ in range(3)]
        ok &= compare(data, cursor, args, kwargs, histories, "variant", logical)
        count += len(histories)

    # (3) damaged / truncated descriptors, cursor elsewhere
    good = descriptor(64 + 10) + bytes(range(10))
    damaged = [good[:k] for k in range(0, 64)]
    damaged.append(b"MEDIA DESCRIPTOX" + good[16:])
    damaged.append(b"media descriptor" + good[16:])
    damaged.append(good[:18] + b"\x00" + good[19:])            # copyright byte
    damaged.append(good[:18] + b"\xA8" + good[19:])
    damaged.append(bytes(200))
    for data in damaged:
        for cursor in (0, 1, 5, len(data)):
            ok &= compare(data, min(cursor, len(data)), (), {}, [[("tell",)]], "damaged")
            count += 1
    # cursor in the middle of a good image: the descriptor is looked for at the cursor
    for cursor in (1, 16, 40, 64, 70, len(good)):
        ok &= compare(good, cursor, (), {}, [[("read", 3), ("tell",)]], "cursor")
        count += 1

    print(f"{count} constructions/histories compared: {'all agree' if ok else 'MISMATCH'}")
    return 0 if ok else 1


if __name__ == "__main__":
    sys.exit(main())
